//! Shared plumbing of the correspondence harness: PRNG, hex, the line-protocol
//! client of the Lean driver (`rgmodel`), the per-run report and shrinking.
pub mod common;
pub use common::*;
