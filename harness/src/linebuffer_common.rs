//! Shared by c02.rs and c14.rs: scripted `Read` wrapper, recording `Sink`, and the roll-buffer
//! probe correspondence (real `LineBuffer` through the `verif_linebuffer` hook vs the Lean model).
#![allow(dead_code)]
use grep_searcher::verif_linebuffer::{LineBufferProbe, ProbeBinary};
use grep_searcher::{Searcher, Sink, SinkContext, SinkContextKind, SinkFinish, SinkMatch};
use rgverif_harness::*;
use std::io::{self, Read};

// ---------------------------------------------------------------- panics of the implementation

/// Run one case; a panic inside the implementation becomes a failing input instead of a crash.
pub fn guarded(case: &str, rep: &mut Report, f: impl FnOnce(&mut Report)) {
    let r = std::panic::catch_unwind(std::panic::AssertUnwindSafe(|| f(&mut *rep)));
    if let Err(p) = r {
        let msg = p
            .downcast_ref::<&str>()
            .map(|s| s.to_string())
            .or_else(|| p.downcast_ref::<String>().cloned())
            .unwrap_or_else(|| "?".into());
        rep.violation(Violation {
            kind: "impl_vs_spec".into(),
            class: "".into(),
            tie: "implementation panicked".into(),
            case: case.to_string(),
            detail: format!("the implementation panicked on this case: {}", msg),
        });
    }
}

pub fn quiet_panics() {
    std::panic::set_hook(Box::new(|_| {}));
}

// ---------------------------------------------------------------- scripted reader

#[derive(Clone, Copy, Debug, PartialEq, Eq)]
pub enum Step {
    Ret(usize),
    Intr,
}

pub fn script_str(s: &[Step]) -> String {
    if s.is_empty() {
        return "-".into();
    }
    s.iter()
        .map(|x| match x {
            Step::Ret(n) => n.to_string(),
            Step::Intr => "i".to_string(),
        })
        .collect::<Vec<_>>()
        .join(",")
}

pub fn parse_script(s: &str) -> Option<Vec<Step>> {
    if s == "-" || s.is_empty() {
        return Some(vec![]);
    }
    s.split(',')
        .map(|t| if t == "i" { Some(Step::Intr) } else { t.parse().ok().map(Step::Ret) })
        .collect()
}

/// A reader over `data` whose `read()` outcomes follow `script` (then: as much as fits).
/// `log` records what every call actually returned (the certificate fed to the model) and
/// `asked` the size of the buffer it was offered.
pub struct ScriptedReader<'a> {
    pub data: &'a [u8],
    pub pos: usize,
    pub script: &'a [Step],
    pub idx: usize,
    pub log: Vec<Step>,
    pub asked: Vec<usize>,
}

impl<'a> ScriptedReader<'a> {
    pub fn new(data: &'a [u8], script: &'a [Step]) -> ScriptedReader<'a> {
        ScriptedReader { data, pos: 0, script, idx: 0, log: vec![], asked: vec![] }
    }
}

impl<'a> Read for ScriptedReader<'a> {
    fn read(&mut self, buf: &mut [u8]) -> io::Result<usize> {
        self.asked.push(buf.len());
        let remaining = self.data.len() - self.pos;
        let step = self.script.get(self.idx).copied();
        self.idx += 1;
        let n = match step {
            Some(Step::Intr) => {
                self.log.push(Step::Intr);
                return Err(io::Error::new(io::ErrorKind::Interrupted, "scripted EINTR"));
            }
            Some(Step::Ret(n)) => n.min(buf.len()).min(remaining),
            None => buf.len().min(remaining),
        };
        buf[..n].copy_from_slice(&self.data[self.pos..self.pos + n]);
        self.pos += n;
        self.log.push(Step::Ret(n));
        Ok(n)
    }
}

/// Random read-size script: 1-byte reads, small random sizes, big reads, optional `Interrupted`.
pub fn gen_script(rng: &mut Rng, total: usize, intr: bool) -> Vec<Step> {
    let style = rng.below(6);
    let mut out = vec![];
    let mut covered = 0usize;
    let cap = 400;
    while covered < total && out.len() < cap {
        if intr && rng.chance(1, 12) {
            out.push(Step::Intr);
            continue;
        }
        let n = match style {
            0 => 1,
            1 => rng.range(1, 3),
            2 => rng.range(1, 17),
            3 => *rng.pick(&[1usize, 2, 3, 5, 8, 13, 64, 1000]),
            4 => rng.range(1, 1 + total / 3 + 1),
            _ => return out, // empty script: every read returns as much as fits
        };
        out.push(Step::Ret(n));
        covered += n;
    }
    out
}

// ---------------------------------------------------------------- recording sink

/// Records everything a `Sink` is told, in a canonical textual form.
pub struct RecSink {
    pub ev: Vec<String>,
    /// answer `Ok(false)` at the callback with this index (`begin` is callback 0)
    pub stop_at: Option<usize>,
}

impl RecSink {
    pub fn new() -> RecSink {
        RecSink { ev: vec![], stop_at: None }
    }
    pub fn stopping(k: Option<usize>) -> RecSink {
        RecSink { ev: vec![], stop_at: k }
    }
    fn go(&self) -> bool {
        Some(self.ev.len() - 1) != self.stop_at
    }
}

fn ln(n: Option<u64>) -> String {
    n.map_or("-".to_string(), |x| x.to_string())
}

impl Sink for RecSink {
    type Error = io::Error;
    fn matched(&mut self, _s: &Searcher, m: &SinkMatch<'_>) -> Result<bool, io::Error> {
        self.ev.push(format!("m {} {} {}", m.absolute_byte_offset(), ln(m.line_number()), hex(m.bytes())));
        Ok(self.go())
    }
    fn context(&mut self, _s: &Searcher, c: &SinkContext<'_>) -> Result<bool, io::Error> {
        let k = match c.kind() {
            SinkContextKind::Before => "B",
            SinkContextKind::After => "A",
            SinkContextKind::Other => "O",
        };
        self.ev.push(format!("c{} {} {} {}", k, c.absolute_byte_offset(), ln(c.line_number()), hex(c.bytes())));
        Ok(self.go())
    }
    fn context_break(&mut self, _s: &Searcher) -> Result<bool, io::Error> {
        self.ev.push("--".into());
        Ok(self.go())
    }
    fn binary_data(&mut self, _s: &Searcher, off: u64) -> Result<bool, io::Error> {
        self.ev.push(format!("bin {}", off));
        Ok(self.go())
    }
    fn begin(&mut self, _s: &Searcher) -> Result<bool, io::Error> {
        self.ev.push("begin".into());
        Ok(self.go())
    }
    fn finish(&mut self, _s: &Searcher, f: &SinkFinish) -> Result<(), io::Error> {
        self.ev.push(format!("finish {} {}", f.byte_count(), ln(f.binary_byte_offset())));
        Ok(())
    }
}

/// Map a search error to a small enum (never compare message texts).
pub fn err_class(e: &io::Error) -> &'static str {
    if e.kind() == io::ErrorKind::Interrupted {
        "err:interrupted"
    } else if e.to_string().contains("allocation limit") {
        "err:alloc"
    } else {
        "err:other"
    }
}

// ---------------------------------------------------------------- roll buffer probe vs model

#[derive(Clone, Copy, Debug, PartialEq, Eq)]
pub enum Bin {
    None,
    Quit(u8),
    Convert(u8),
}

impl Bin {
    pub fn case_str(&self) -> String {
        match self {
            Bin::None => "none".into(),
            Bin::Quit(b) => format!("q{}", b),
            Bin::Convert(b) => format!("c{}", b),
        }
    }
    pub fn parse(s: &str) -> Option<Bin> {
        if s == "none" {
            Some(Bin::None)
        } else if let Some(r) = s.strip_prefix('q') {
            r.parse().ok().map(Bin::Quit)
        } else if let Some(r) = s.strip_prefix('c') {
            r.parse().ok().map(Bin::Convert)
        } else {
            None
        }
    }
    pub fn sx(&self) -> String {
        match self {
            Bin::None => "(bin none)".into(),
            Bin::Quit(b) => format!("(bin quit {})", b),
            Bin::Convert(b) => format!("(bin convert {})", b),
        }
    }
}

#[derive(Clone, Copy, Debug, PartialEq, Eq)]
pub enum LbOp {
    Fill,
    Consume(usize),
}

#[derive(Clone, Debug)]
pub struct LbCase {
    pub cap: usize,
    pub lt: u8,
    pub alloc: Option<usize>,
    pub bin: Bin,
    pub inp: Vec<u8>,
    pub script: Vec<Step>,
    pub ops: Vec<LbOp>,
}

pub fn ops_str(ops: &[LbOp]) -> String {
    if ops.is_empty() {
        return "-".into();
    }
    ops.iter()
        .map(|o| match o {
            LbOp::Fill => "f".to_string(),
            LbOp::Consume(n) => format!("c{}", n),
        })
        .collect::<Vec<_>>()
        .join(",")
}

impl LbCase {
    pub fn case_str(&self) -> String {
        format!(
            "lb cap={} lt={} alloc={} bin={} inp={} script={} ops={}",
            self.cap,
            self.lt,
            self.alloc.map_or("e".to_string(), |n| n.to_string()),
            self.bin.case_str(),
            hex(&self.inp),
            script_str(&self.script),
            ops_str(&self.ops)
        )
    }
    pub fn parse(parts: &[&str]) -> Option<LbCase> {
        let get = |k: &str| parts.iter().find_map(|p| p.strip_prefix(k).and_then(|r| r.strip_prefix('=')));
        let ops = match get("ops")? {
            "-" => vec![],
            s => s
                .split(',')
                .map(|t| {
                    if t == "f" {
                        Some(LbOp::Fill)
                    } else {
                        t.strip_prefix('c').and_then(|n| n.parse().ok()).map(LbOp::Consume)
                    }
                })
                .collect::<Option<Vec<_>>>()?,
        };
        Some(LbCase {
            cap: get("cap")?.parse().ok()?,
            lt: get("lt")?.parse().ok()?,
            alloc: match get("alloc")? {
                "e" => None,
                s => Some(s.parse().ok()?),
            },
            bin: Bin::parse(get("bin")?)?,
            inp: unhex(get("inp")?)?,
            script: parse_script(get("script")?)?,
            ops,
        })
    }
    pub fn cfg_sx(&self) -> String {
        format!(
            "(cfg {} {} {} {})",
            self.cap,
            self.lt,
            self.alloc.map_or("e".to_string(), |n| n.to_string()),
            self.bin.sx()
        )
    }
}

/// `lb2` case line: the main case's fields plus the earlier reader's `pinp= pscript= pops=`.
pub fn lb2_case_str(c: &LbCase, pre: &LbCase) -> String {
    format!(
        "lb2 {} pinp={} pscript={} pops={}",
        &c.case_str()[3..],
        hex(&pre.inp),
        script_str(&pre.script),
        ops_str(&pre.ops)
    )
}

pub fn parse_lb2(parts: &[&str]) -> Option<(LbCase, LbCase)> {
    let c = LbCase::parse(parts)?;
    let get = |k: &str| parts.iter().find_map(|p| p.strip_prefix(k).and_then(|r| r.strip_prefix('=')));
    let renamed: Vec<String> = vec![
        format!("inp={}", get("pinp")?),
        format!("script={}", get("pscript")?),
        format!("ops={}", get("pops")?),
    ];
    let mut parts2: Vec<&str> = parts.iter().copied().filter(|p| !(p.starts_with("inp=") || p.starts_with("script=") || p.starts_with("ops="))).collect();
    for r in &renamed {
        parts2.push(r);
    }
    let pre = LbCase::parse(&parts2)?;
    Some((c, pre))
}

/// Two readers in sequence on one buffer: the first one usually leaves binary data / a grown vector behind.
pub fn gen_lb2_case(rng: &mut Rng, bin: Bin) -> (LbCase, LbCase) {
    let pre = gen_lb_case(rng, bin, false);
    let mut c = gen_lb_case(rng, bin, false);
    c.cap = pre.cap;
    c.lt = pre.lt;
    c.alloc = pre.alloc;
    c.ops = gen_ops_after(rng, &c, Some(&pre));
    (c, pre)
}

/// The input as the caller is promised to see it (Rust twin of the Lean `view`).
pub fn view(bin: Bin, lt: u8, inp: &[u8]) -> Vec<u8> {
    match bin {
        Bin::None => inp.to_vec(),
        Bin::Quit(b) => inp.iter().copied().take_while(|&x| x != b).collect(),
        Bin::Convert(b) => inp.iter().map(|&x| if x == b { lt } else { x }).collect(),
    }
}

pub struct LbState {
    pub res: String,
    pub abs: u64,
    pub bin: Option<u64>,
    pub buf: Vec<u8>,
    pub allocated: usize,
}

impl LbState {
    pub fn text(&self) -> String {
        format!("{} {} {} {} {}", self.res, self.abs, ln(self.bin), hex(&self.buf), self.allocated)
    }
}

fn probe_new(c: &LbCase) -> LineBufferProbe {
    LineBufferProbe::new(
        c.cap,
        c.lt,
        c.alloc,
        match c.bin {
            Bin::None => ProbeBinary::None,
            Bin::Quit(b) => ProbeBinary::Quit(b),
            Bin::Convert(b) => ProbeBinary::Convert(b),
        },
    )
}

/// Generate an op sequence *while* driving the real buffer (so that every `consume` is valid),
/// in the style of `ReadByLine` (consume a prefix of the buffer, refill) plus freer variations.
pub fn gen_ops(rng: &mut Rng, c: &LbCase) -> Vec<LbOp> {
    gen_ops_after(rng, c, None)
}

/// Drive `pre` on a probe (if given), `clear` it, return the probe ready for the next reader.
fn probe_after(c: &LbCase, pre: Option<&LbCase>) -> (LineBufferProbe, Vec<Step>) {
    let mut probe = probe_new(c);
    let mut log = vec![];
    if let Some(p) = pre {
        let mut rdr = ScriptedReader::new(&p.inp, &p.script);
        for op in &p.ops {
            match op {
                LbOp::Fill => {
                    let _ = probe.fill(&mut rdr);
                }
                LbOp::Consume(n) => {
                    if *n <= probe.buffer().len() {
                        probe.consume(*n);
                    }
                }
            }
        }
        log = rdr.log;
        probe.clear();
    }
    (probe, log)
}

pub fn gen_ops_after(rng: &mut Rng, c: &LbCase, pre: Option<&LbCase>) -> Vec<LbOp> {
    let (mut probe, _) = probe_after(c, pre);
    let mut rdr = ScriptedReader::new(&c.inp, &c.script);
    let mut ops = vec![];
    let style = rng.below(4);
    let max_ops = rng.range(1, 40);
    let mut eof_seen = 0;
    while ops.len() < max_ops && eof_seen < 2 {
        // fill
        ops.push(LbOp::Fill);
        match probe.fill(&mut rdr) {
            Ok(true) => {}
            Ok(false) => eof_seen += 1,
            Err(_) => {}
        }
        if rng.chance(1, 10) {
            continue; // fill twice in a row
        }
        let len = probe.buffer().len();
        let n = match style {
            0 => len, // max_context == 0: everything searched is consumed
            1 => {
                // keep the last k+1 lines (context), consume the rest
                let k = rng.range(0, 3);
                let b = probe.buffer();
                let mut starts = vec![0usize];
                for (i, &x) in b.iter().enumerate() {
                    if x == c.lt && i + 1 < len {
                        starts.push(i + 1);
                    }
                }
                if starts.len() > k + 1 {
                    starts[starts.len() - 1 - k]
                } else {
                    0
                }
            }
            2 => rng.range(0, len),
            _ => {
                if rng.chance(1, 2) {
                    len
                } else {
                    rng.range(0, len)
                }
            }
        };
        ops.push(LbOp::Consume(n));
        probe.consume(n);
        if rng.chance(1, 8) {
            let len = probe.buffer().len();
            let n = rng.range(0, len);
            ops.push(LbOp::Consume(n));
            probe.consume(n);
        }
    }
    ops
}

/// Run the case on the real `LineBuffer`; returns the states after each op and the read log.
pub fn run_probe(c: &LbCase) -> (Vec<LbState>, Vec<Step>, Vec<usize>) {
    let (st, log, asked, _) = run_probe_after(c, None);
    (st, log, asked)
}

/// Same after an earlier reader `pre` on the same buffer (then `clear`); also returns `pre`'s read log.
pub fn run_probe_after(c: &LbCase, pre: Option<&LbCase>) -> (Vec<LbState>, Vec<Step>, Vec<usize>, Vec<Step>) {
    let (st, log, asked, plog) = run_probe_impl(c, pre);
    (st, log, asked, plog)
}

fn run_probe_impl(c: &LbCase, pre: Option<&LbCase>) -> (Vec<LbState>, Vec<Step>, Vec<usize>, Vec<Step>) {
    let (mut probe, plog) = probe_after(c, pre);
    let mut rdr = ScriptedReader::new(&c.inp, &c.script);
    let mut out = vec![];
    for op in &c.ops {
        let res = match op {
            LbOp::Fill => match probe.fill(&mut rdr) {
                Ok(true) => "t".to_string(),
                Ok(false) => "f".to_string(),
                Err(e) => {
                    if e.kind() == io::ErrorKind::Interrupted {
                        "eintr".to_string()
                    } else if e.to_string().contains("allocation limit") {
                        "ealloc".to_string()
                    } else {
                        "eother".to_string()
                    }
                }
            },
            LbOp::Consume(n) => {
                if *n > probe.buffer().len() {
                    out.push(LbState { res: "panic".into(), abs: 0, bin: None, buf: vec![], allocated: 0 });
                    break;
                }
                probe.consume(*n);
                "c".to_string()
            }
        };
        out.push(LbState {
            res,
            abs: probe.absolute_byte_offset(),
            bin: probe.binary_byte_offset(),
            buf: probe.buffer().to_vec(),
            allocated: probe.allocated(),
        });
    }
    (out, rdr.log, rdr.asked, plog)
}

/// Correspondence + property check of one roll-buffer case.
/// `prop` is "C02" / "C14" (for the messages), `driver_cmd` the model command prefix ("c02" / "c14").
pub fn check_lb_case(case: &str, c: &LbCase, cmd: &str, drv: &mut Driver, rep: &mut Report) {
    check_lb_case_after(case, c, None, cmd, drv, rep)
}

/// `pre`: an earlier reader served by the same buffer (`LineBufferReader::new` clears it in between);
/// everything checked is about the second reader `c`.
pub fn check_lb_case_after(case: &str, c: &LbCase, pre: Option<&LbCase>, cmd: &str, drv: &mut Driver, rep: &mut Report) {
    rep.eval();
    let (states, log, _asked, plog) = run_probe_after(c, pre);
    if pre.is_some() {
        rep.branch("lb:reused-buffer");
    }
    // ---- impl vs model (the model is fed the sizes the reader really returned)
    let imp: Vec<String> = states
        .iter()
        .map(|s| if s.res == "panic" { "panic".to_string() } else { s.text() })
        .collect();
    let imp = imp.join(";");
    let sx = |x: String| x.replace(',', " ").replace('-', "");
    let req = match pre {
        None => format!(
            "{}.lb {} {} (script {}) (ops {})",
            cmd,
            c.cfg_sx(),
            hex(&c.inp),
            sx(script_str(&log)),
            sx(ops_str(&c.ops))
        ),
        Some(p) => format!(
            "{}.lb2 {} {} (script {}) (ops {}) {} (script {}) (ops {})",
            cmd,
            c.cfg_sx(),
            hex(&p.inp),
            sx(script_str(&plog)),
            sx(ops_str(&p.ops)),
            hex(&c.inp),
            sx(script_str(&log)),
            sx(ops_str(&c.ops))
        ),
    };
    let model = drv.ask(&req);
    if imp != model {
        rep.violation(Violation {
            kind: "impl_vs_model".into(),
            class: "".into(),
            tie: "LineBuffer::{fill,consume,buffer} (verif_linebuffer probe) vs Model.LineBuffer.run (theorems linebuffer_window, fill_progress, linebuffer_hides_byte)".into(),
            case: case.to_string(),
            detail: format!("impl {} model {}", imp, model),
        });
    }
    // ---- impl vs spec: the window property itself, the binary byte, the line boundary
    let v = view(c.bin, c.lt, &c.inp);
    let bbyte = match c.bin {
        Bin::None => None,
        Bin::Quit(b) => Some(b),
        Bin::Convert(b) => {
            if b == c.lt {
                None
            } else {
                Some(b)
            }
        }
    };
    let first = bbyte.and_then(|b| c.inp.iter().position(|&x| x == b));
    let mut bad: Option<String> = None;
    let mut rolled = false;
    let mut grew = false;
    let mut eof_or_stop = false;
    for (i, s) in states.iter().enumerate() {
        if s.res == "panic" {
            break;
        }
        let a = s.abs as usize;
        let want: Vec<u8> = v.iter().copied().skip(a).take(s.buf.len()).collect();
        if want != s.buf {
            bad.get_or_insert(format!(
                "after op {} buffer() = {:?} but input[{}..{}] is {:?}",
                i,
                show(&s.buf),
                a,
                a + s.buf.len(),
                show(&want)
            ));
        }
        if let Some(b) = bbyte {
            if s.buf.contains(&b) {
                bad.get_or_insert(format!("after op {} buffer() contains the binary byte {:#04x}", i, b));
            }
            if let Some(o) = s.bin {
                if Some(o as usize) != first {
                    bad.get_or_insert(format!(
                        "after op {} binary_byte_offset = {} but the first binary byte is at {:?}",
                        i, o, first
                    ));
                }
            } else if let Some(f) = first {
                // not yet reported: the byte must not have been delivered
                if f < a + s.buf.len() {
                    bad.get_or_insert(format!(
                        "after op {} the buffer covers offset {} (binary byte) but binary_byte_offset is unset",
                        i, f
                    ));
                }
            }
        }
        if s.res == "t" || s.res == "f" {
            if (s.res == "t") == s.buf.is_empty() {
                bad.get_or_insert(format!("after op {} fill returned {} with a buffer of {} bytes", i, s.res, s.buf.len()));
            }
            // ends at a line boundary unless everything visible was delivered (EOF / quit byte)
            let end_of_view = a + s.buf.len() == v.len();
            if !s.buf.is_empty() && !end_of_view && *s.buf.last().unwrap() != c.lt {
                bad.get_or_insert(format!("after op {} buffer() ends inside a line although data remains", i));
            }
            if end_of_view {
                eof_or_stop = true;
            }
        }
        if s.allocated > c.cap.max(1) && i > 0 {
            grew = true;
        }
        if a > 0 && !s.buf.is_empty() {
            rolled = true;
        }
        if let Some(l) = c.alloc {
            if s.allocated > c.cap + l && s.allocated > c.cap {
                bad.get_or_insert(format!("after op {} allocated {} exceeds capacity+limit {}", i, s.allocated, c.cap + l));
            }
        }
    }
    // ---- spec is executable in Lean too: ask it for the last state
    if let Some(s) = states.iter().rev().find(|s| s.res != "panic") {
        let sp = drv.ask(&format!("{}.spec {} {} {} {}", cmd, c.cfg_sx(), hex(&c.inp), s.abs, s.buf.len()));
        if sp != hex(&s.buf) && bad.is_none() {
            bad = Some(format!("final buffer() {} differs from Lean window spec {}", hex(&s.buf), sp));
        }
        // model vs spec (would contradict linebuffer_window)
        if let Some(last) = model.split(';').last() {
            let f: Vec<&str> = last.split(' ').collect();
            if f.len() == 5 {
                if let (Ok(ma), Some(mb)) = (f[1].parse::<usize>(), unhex(f[3])) {
                    let msp = drv.ask(&format!("{}.spec {} {} {} {}", cmd, c.cfg_sx(), hex(&c.inp), ma, mb.len()));
                    if msp != f[3] {
                        rep.violation(Violation {
                            kind: "model_vs_spec".into(),
                            class: "".into(),
                            tie: "theorem linebuffer_window contradicted".into(),
                            case: case.to_string(),
                            detail: format!("model buffer {} spec {}", f[3], msp),
                        });
                    }
                }
            }
        }
    }
    if let Some(d) = bad {
        rep.violation(Violation {
            kind: "impl_vs_spec".into(),
            class: "".into(),
            tie: "LineBuffer::buffer() vs window of the input".into(),
            case: case.to_string(),
            detail: d,
        });
    }
    // ---- evidence
    if rolled {
        rep.branch("lb:rolled");
    }
    if grew {
        rep.branch("lb:grew");
    }
    if eof_or_stop {
        rep.branch("lb:eof-or-stop");
    }
    if log.contains(&Step::Intr) {
        rep.branch("lb:interrupted");
    }
    if states.iter().any(|s| s.res == "ealloc") {
        rep.branch("lb:alloc-error");
    }
    if states.iter().any(|s| s.bin.is_some()) {
        rep.branch(match c.bin {
            Bin::Quit(_) => "lb:quit-detected",
            Bin::Convert(_) => "lb:convert-detected",
            Bin::None => "lb:bin?",
        });
    }
    if c.cap == 1 {
        rep.branch("lb:capacity-1");
    }
    if rolled && (grew || c.cap < c.inp.len()) {
        rep.nontrivial(case);
    }
}

/// Alphabet for records terminated by `lt`: ordinary bytes plus, regularly, the bytes that are a
/// terminator under *another* setting (LF / CR inside NUL records, NUL / bare CR inside LF lines,
/// bare CR in CRLF mode), so that a wrong terminator anywhere in the plumbing cuts differently.
pub fn alphabet_with_foreign(lt: u8, base: &[u8]) -> Vec<u8> {
    let mut a: Vec<u8> = vec![];
    for _ in 0..2 {
        a.extend_from_slice(base);
    }
    for &f in &[b'\n', b'\r', 0u8] {
        if f != lt {
            a.push(f);
        }
    }
    a
}

/// Random line-structured input.
pub fn gen_lines(rng: &mut Rng, lt: u8, crlf: bool, max_lines: usize, max_len: usize, alphabet: &[u8]) -> Vec<u8> {
    let mut out = vec![];
    let nl = rng.range(0, max_lines);
    for i in 0..nl {
        let len = if rng.chance(1, 10) { rng.range(0, max_len * 4) } else { rng.range(0, max_len) };
        for _ in 0..len {
            out.push(*rng.pick(alphabet));
        }
        if i + 1 < nl || rng.chance(3, 4) {
            if crlf && rng.chance(3, 4) {
                out.push(b'\r');
            }
            out.push(lt);
        }
    }
    out
}

/// Generate one roll-buffer case (ops are derived by driving the real buffer).
pub fn gen_lb_case(rng: &mut Rng, bin: Bin, boundary: bool) -> LbCase {
    let lt = *rng.pick(&[b'\n', b'\n', b'\n', 0u8, b';']);
    let mut alphabet: Vec<u8> = if rng.chance(1, 2) { alphabet_with_foreign(lt, b"abc x") } else { b"abc x".to_vec() };
    match bin {
        Bin::Quit(b) | Bin::Convert(b) => {
            if rng.chance(2, 3) {
                alphabet.push(b);
            }
        }
        Bin::None => alphabet.push(0),
    }
    let inp = if boundary {
        match rng.below(6) {
            0 => vec![],
            1 => vec![lt],
            2 => b"abc".to_vec(),
            3 => vec![lt, lt, lt],
            4 => {
                let mut v = vec![b'a'; rng.range(1, 70)];
                if rng.chance(1, 2) {
                    v.push(lt);
                }
                v
            }
            _ => gen_lines(rng, lt, false, 3, 4, &alphabet),
        }
    } else {
        gen_lines(rng, lt, false, 12, 12, &alphabet)
    };
    let cap = if boundary { *rng.pick(&[0usize, 1, 1, 2]) } else { *rng.pick(&[1usize, 2, 3, 5, 8, 13, 64, 4096]) };
    let alloc = if rng.chance(1, 4) { Some(*rng.pick(&[0usize, 1, 2, 7, 30, 1000])) } else { None };
    let intr = rng.chance(1, 4);
    let script = gen_script(rng, inp.len(), intr);
    let mut c = LbCase { cap, lt, alloc, bin, inp, script, ops: vec![] };
    c.ops = gen_ops(rng, &c);
    c
}
