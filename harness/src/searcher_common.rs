//! Shared code of the searcher properties' harnesses (C03, C16): the wire forms of configuration,
//! matcher, sink script and event stream defined in `lean/RgVerif/Driver/SearcherCommon.lean`, a
//! recording `Sink`, the three search strategies of the real `Searcher`, case lines and generators.
#![allow(dead_code)]
use std::io::{self, Read};
use std::panic::{catch_unwind, AssertUnwindSafe};
use std::path::{Path, PathBuf};

use grep_matcher::{ByteSet, LineMatchKind, LineTerminator, Match, Matcher, NoCaptures, NoError};
use grep_regex::{RegexMatcher, RegexMatcherBuilder};
use grep_searcher::{
    BinaryDetection, MmapChoice, Searcher, SearcherBuilder, Sink, SinkContext, SinkContextKind, SinkFinish,
    SinkMatch,
};
use rgverif_harness::*;

// ---------------------------------------------------------------- configuration

#[derive(Clone, Copy, Debug, PartialEq, Eq, PartialOrd, Ord)]
pub enum Lt {
    Lf,
    Crlf,
    Nul,
}

impl Lt {
    pub fn name(self) -> &'static str {
        match self {
            Lt::Lf => "lf",
            Lt::Crlf => "crlf",
            Lt::Nul => "nul",
        }
    }
    pub fn parse(s: &str) -> Option<Lt> {
        match s {
            "lf" => Some(Lt::Lf),
            "crlf" => Some(Lt::Crlf),
            "nul" => Some(Lt::Nul),
            _ => None,
        }
    }
    /// the byte that ends a line (`LineTerminator::as_byte`)
    pub fn byte(self) -> u8 {
        match self {
            Lt::Lf | Lt::Crlf => b'\n',
            Lt::Nul => 0,
        }
    }
    /// the preferred full terminator written by the generators
    pub fn bytes(self) -> &'static [u8] {
        match self {
            Lt::Lf => b"\n",
            Lt::Crlf => b"\r\n",
            Lt::Nul => b"\x00",
        }
    }
    pub fn to_line_terminator(self) -> LineTerminator {
        match self {
            Lt::Lf => LineTerminator::byte(b'\n'),
            Lt::Crlf => LineTerminator::crlf(),
            Lt::Nul => LineTerminator::byte(0),
        }
    }
}

pub fn opt_lt_name(t: Option<Lt>) -> &'static str {
    t.map_or("-", |t| t.name())
}

pub fn parse_opt_lt(s: &str) -> Option<Option<Lt>> {
    if s == "-" {
        Some(None)
    } else {
        Lt::parse(s).map(Some)
    }
}

/// Binary detection mode of the searcher (`BinaryDetection::{none,quit,convert}`).
#[derive(Clone, Copy, Debug, PartialEq, Eq)]
pub enum Bin {
    None,
    Quit(u8),
    Convert(u8),
}

impl Bin {
    pub fn to_sx(self) -> String {
        match self {
            Bin::None => "(bin none)".to_string(),
            Bin::Quit(b) => format!("(bin quit {})", b),
            Bin::Convert(b) => format!("(bin convert {})", b),
        }
    }
    fn detection(self) -> BinaryDetection {
        match self {
            Bin::None => BinaryDetection::none(),
            Bin::Quit(b) => BinaryDetection::quit(b),
            Bin::Convert(b) => BinaryDetection::convert(b),
        }
    }
}

#[derive(Clone, Debug, PartialEq, Eq)]
pub struct Cfg {
    pub lt: Lt,
    pub inv: bool,
    pub a: usize,
    pub b: usize,
    pub pt: bool,
    pub ln: bool,
    pub son: bool,
    pub ml: bool,
    pub bin: Bin,
}

impl Cfg {
    pub fn to_sx(&self) -> String {
        format!(
            "(cfg (lt {}) (inv {}) (a {}) (b {}) (pt {}) (ln {}) (son {}) (ml {}) {})",
            self.lt.name(),
            self.inv as u8,
            self.a,
            self.b,
            self.pt as u8,
            self.ln as u8,
            self.son as u8,
            self.ml as u8,
            self.bin.to_sx()
        )
    }
    /// The configuration as `SearcherBuilder::build` stores it (the model's `Config` is the built
    /// one): passthru resets both context sizes to 0.
    pub fn effective(&self) -> Cfg {
        let mut c = self.clone();
        if c.pt {
            c.a = 0;
            c.b = 0;
        }
        c
    }
    /// one-token text form used in case lines, e.g. `lf:i0:a1:b0:p0:n1:s0:m0`
    pub fn token(&self) -> String {
        let base = format!(
            "{}:i{}:a{}:b{}:p{}:n{}:s{}:m{}",
            self.lt.name(),
            self.inv as u8,
            self.a,
            self.b,
            self.pt as u8,
            self.ln as u8,
            self.son as u8,
            self.ml as u8
        );
        match self.bin {
            Bin::None => base,
            Bin::Quit(b) => format!("{}:q{}", base, b),
            Bin::Convert(b) => format!("{}:c{}", base, b),
        }
    }
    pub fn parse_token(s: &str) -> Option<Cfg> {
        let p: Vec<&str> = s.split(':').collect();
        if p.len() != 8 && p.len() != 9 {
            return None;
        }
        fn num(s: &str, pre: char) -> Option<usize> {
            let mut cs = s.chars();
            if cs.next()? != pre {
                return None;
            }
            cs.as_str().parse().ok()
        }
        fn flag(s: &str, pre: char) -> Option<bool> {
            match num(s, pre)? {
                0 => Some(false),
                1 => Some(true),
                _ => None,
            }
        }
        Some(Cfg {
            lt: Lt::parse(p[0])?,
            inv: flag(p[1], 'i')?,
            a: num(p[2], 'a')?,
            b: num(p[3], 'b')?,
            pt: flag(p[4], 'p')?,
            ln: flag(p[5], 'n')?,
            son: flag(p[6], 's')?,
            ml: flag(p[7], 'm')?,
            bin: if p.len() == 9 {
                if let Some(b) = num(p[8], 'q') {
                    Bin::Quit(b as u8)
                } else {
                    Bin::Convert(num(p[8], 'c')? as u8)
                }
            } else {
                Bin::None
            },
        })
    }
    fn builder(&self) -> SearcherBuilder {
        let mut b = SearcherBuilder::new();
        b.line_terminator(self.lt.to_line_terminator())
            .invert_match(self.inv)
            .after_context(self.a)
            .before_context(self.b)
            .passthru(self.pt)
            .line_number(self.ln)
            .stop_on_nonmatch(self.son)
            .multi_line(self.ml)
            .binary_detection(self.bin.detection())
            .bom_sniffing(false)
            .memory_map(MmapChoice::never());
        b
    }
    pub fn searcher(&self) -> Searcher {
        self.builder().build()
    }
    /// same, with a roll buffer of `SMALL_CAP` bytes
    pub fn searcher_small(&self) -> Searcher {
        let mut b = self.builder();
        b.verif_buffer_capacity(SMALL_CAP);
        b.build()
    }
    /// same, with a heap limit (the multi-line reader path then fills its buffer with its own read loop)
    pub fn searcher_heap(&self, limit: usize) -> Searcher {
        let mut b = self.builder();
        b.heap_limit(Some(limit));
        b.build()
    }
    /// same, with BOM sniffing switched on (the default of ripgrep; every other harness searcher has it off so that
    /// inputs are searched as they are): inputs that start with a byte-order mark are decoded first
    pub fn searcher_bom(&self, mmap: bool) -> Searcher {
        let mut b = self.builder();
        b.bom_sniffing(true);
        if mmap {
            b.memory_map(unsafe { MmapChoice::auto() });
        }
        b.build()
    }
    /// same, with an explicit encoding (`-E label`): every input is transcoded from it, mark or no mark
    pub fn searcher_enc(&self, label: &str, mmap: bool) -> Searcher {
        let mut b = self.builder();
        b.bom_sniffing(true).encoding(Some(grep_searcher::Encoding::new(label).expect("encoding label")));
        if mmap {
            b.memory_map(unsafe { MmapChoice::auto() });
        }
        b.build()
    }
    /// same, with memory maps enabled (used by the path strategy)
    pub fn searcher_mmap(&self) -> Searcher {
        let mut b = self.builder();
        b.memory_map(unsafe { MmapChoice::auto() });
        b.build()
    }
}

/// context size in 0..=max, biased towards small values (so that windows also leave gaps)
pub fn gen_ctx(rng: &mut Rng, max: usize) -> usize {
    if rng.chance(1, 2) {
        rng.range(0, max.min(1))
    } else {
        rng.range(0, max)
    }
}

pub fn gen_cfg(rng: &mut Rng, max_ctx: usize) -> Cfg {
    let lt = *rng.pick(&[Lt::Lf, Lt::Lf, Lt::Crlf, Lt::Nul]);
    Cfg {
        lt,
        inv: rng.chance(1, 4),
        a: gen_ctx(rng, max_ctx),
        b: gen_ctx(rng, max_ctx),
        pt: rng.chance(1, 6),
        ln: rng.chance(3, 4),
        son: rng.chance(1, 5),
        ml: false,
        bin: Bin::None,
    }
}

// ---------------------------------------------------------------- literal matcher

pub fn find_sub(h: &[u8], needle: &[u8]) -> Option<usize> {
    if needle.is_empty() {
        return Some(0);
    }
    if h.len() < needle.len() {
        return None;
    }
    h.windows(needle.len()).position(|w| w == needle)
}

/// "haystack contains needle", with the optional extras a matcher may announce to the searcher.
#[derive(Clone, Debug)]
pub struct LitMatcher {
    pub needle: Vec<u8>,
    pub term: Option<Lt>,
    pub nm: Option<Vec<u8>>,
    pub cand: Option<Vec<u8>>,
    nmset: Option<ByteSet>,
}

impl LitMatcher {
    pub fn new(needle: Vec<u8>, term: Option<Lt>, nm: Option<Vec<u8>>, cand: Option<Vec<u8>>) -> LitMatcher {
        let nmset = nm.as_ref().map(|bs| {
            let mut s = ByteSet::empty();
            for &b in bs {
                s.add(b);
            }
            s
        });
        LitMatcher { needle, term, nm, cand, nmset }
    }
    pub fn to_sx(&self) -> String {
        format!(
            "(lit {} (term {}) (nm {}) (cand {}))",
            hex(&self.needle),
            opt_lt_name(self.term),
            // `-` means "no set"; an empty set cannot be written in hex (it would read as `-`), so the
            // generators never produce Some(empty)
            self.nm.as_ref().map_or("-".to_string(), |b| hex(b)),
            // an empty candidate literal is written as the 0-length hex `-`, which would read as None:
            // the generators never produce Some(empty) either
            self.cand.as_ref().map_or("-".to_string(), |b| hex(b)),
        )
    }
}

impl Matcher for LitMatcher {
    type Captures = NoCaptures;
    type Error = NoError;

    fn find_at(&self, h: &[u8], at: usize) -> Result<Option<Match>, NoError> {
        if at > h.len() {
            return Ok(None);
        }
        Ok(find_sub(&h[at..], &self.needle).map(|i| Match::new(at + i, at + i + self.needle.len())))
    }
    fn new_captures(&self) -> Result<NoCaptures, NoError> {
        Ok(NoCaptures::new())
    }
    fn line_terminator(&self) -> Option<LineTerminator> {
        self.term.map(|t| t.to_line_terminator())
    }
    fn non_matching_bytes(&self) -> Option<&ByteSet> {
        self.nmset.as_ref()
    }
    fn find_candidate_line(&self, h: &[u8]) -> Result<Option<LineMatchKind>, NoError> {
        match &self.cand {
            None => Ok(self.shortest_match(h)?.map(LineMatchKind::Confirmed)),
            Some(c) => Ok(find_sub(h, c).map(LineMatchKind::Candidate)),
        }
    }
}

// ---------------------------------------------------------------- lines

/// Lines as the searcher cuts them: split after every terminator byte, terminator kept, the last
/// line may lack it, no empty line.
pub fn split_lines(input: &[u8], term: u8) -> Vec<&[u8]> {
    let mut out = vec![];
    let mut s = 0;
    for (i, &b) in input.iter().enumerate() {
        if b == term {
            out.push(&input[s..=i]);
            s = i + 1;
        }
    }
    if s < input.len() {
        out.push(&input[s..]);
    }
    out
}

/// The line without its terminator (and without the `\r` of a `\r\n` under CRLF).
pub fn content(line: &[u8], lt: Lt) -> &[u8] {
    let mut c = line;
    if c.last() == Some(&lt.byte()) {
        c = &c[..c.len() - 1];
        if lt == Lt::Crlf && c.last() == Some(&b'\r') {
            c = &c[..c.len() - 1];
        }
    }
    c
}

pub fn bits_str(bits: &[bool]) -> String {
    if bits.is_empty() {
        return "-".to_string();
    }
    bits.iter().map(|&b| if b { '1' } else { '0' }).collect()
}

/// Selection bits for a literal needle: bit i = (line i contains needle) != inv.
pub fn sel_bits_lit(needle: &[u8], cfg: &Cfg, input: &[u8]) -> Vec<bool> {
    split_lines(input, cfg.lt.byte())
        .iter()
        .map(|l| find_sub(content(l, cfg.lt), needle).is_some() != cfg.inv)
        .collect()
}

/// Selection bits by a matcher's verdict on the line content.
pub fn sel_bits_matcher<M: Matcher>(m: &M, cfg: &Cfg, input: &[u8]) -> Vec<bool> {
    split_lines(input, cfg.lt.byte())
        .iter()
        .map(|l| m.is_match(content(l, cfg.lt)).unwrap_or(false) != cfg.inv)
        .collect()
}

// ---------------------------------------------------------------- table of a real matcher

pub fn term_name(t: Option<LineTerminator>) -> String {
    match t {
        None => "-".to_string(),
        Some(t) if t.is_crlf() => "crlf".to_string(),
        Some(t) => match t.as_byte() {
            b'\n' => "lf".to_string(),
            0 => "nul".to_string(),
            b => format!("b{}", b),
        },
    }
}

pub fn nm_hex<M: Matcher>(m: &M) -> String {
    match m.non_matching_bytes() {
        None => "-".to_string(),
        Some(s) => {
            let bs: Vec<u8> = (0..=255u8).filter(|&b| s.contains(b)).collect();
            // an empty set and "no set" are the same to the searcher (no byte is announced)
            hex(&bs)
        }
    }
}

/// `(table (term …) (nm …) (sm) (cand) (fa))` — enough for `cXX.path`.
pub fn table_head_sx<M: Matcher>(m: &M) -> String {
    format!("(table (term {}) (nm {}) (sm) (cand) (fa))", term_name(m.line_terminator()), nm_hex(m))
}

/// The answers of a real matcher the model can need for `(cfg, input)`.
/// Also returns an inconsistency message if `is_match` and `shortest_match` disagree on a haystack
/// (the model derives `is_match` from `shortest_match`, as the trait's provided method does).
pub fn table_sx<M: Matcher>(m: &M, cfg: &Cfg, input: &[u8]) -> (String, Option<String>) {
    let mut incons = None;
    let lines = split_lines(input, cfg.lt.byte());
    let mut sm: Vec<String> = vec![];
    let mut seen: Vec<&[u8]> = vec![];
    for l in &lines {
        for k in 0..=2usize {
            if k > l.len() {
                continue;
            }
            let hay = &l[..l.len() - k];
            if seen.contains(&hay) {
                continue;
            }
            seen.push(hay);
            let r = m.shortest_match(hay).unwrap_or(None);
            let im = m.is_match(hay).unwrap_or(false);
            if im != r.is_some() && incons.is_none() {
                incons = Some(format!("is_match={} but shortest_match={:?} on {:?}", im, r, show(hay)));
            }
            sm.push(format!("({} {})", hex(hay), r.map_or("-".to_string(), |e| e.to_string())));
        }
    }
    let mut cand: Vec<String> = vec![];
    let mut starts: Vec<usize> = vec![];
    let mut s = 0;
    for l in &lines {
        starts.push(s);
        s += l.len();
    }
    starts.push(input.len());
    starts.dedup();
    for &s in &starts {
        let r = m.find_candidate_line(&input[s..]).unwrap_or(None);
        let v = match r {
            None => "-".to_string(),
            Some(LineMatchKind::Confirmed(i)) => format!("c {}", i),
            Some(LineMatchKind::Candidate(i)) => format!("k {}", i),
        };
        cand.push(format!("({} {})", input.len() - s, v));
    }
    let mut fa: Vec<String> = vec![];
    if cfg.ml {
        for pos in 0..=input.len() {
            let r = m.find_at(input, pos).unwrap_or(None);
            fa.push(format!("({} {})", pos, r.map_or("-".to_string(), |mm| format!("{} {}", mm.start(), mm.end()))));
        }
    }
    let sx = format!(
        "(table (term {}) (nm {}) (sm {}) (cand {}) (fa {}))",
        term_name(m.line_terminator()),
        nm_hex(m),
        sm.join(" "),
        cand.join(" "),
        fa.join(" ")
    )
    .replace("(sm )", "(sm)")
    .replace("(cand )", "(cand)")
    .replace("(fa )", "(fa)");
    (sx, incons)
}

// ---------------------------------------------------------------- recording sink

#[derive(Clone, Copy, Debug, PartialEq, Eq)]
pub enum Script {
    All,
    Stop(usize),
    Err(usize),
}

impl Script {
    pub fn to_sx(self) -> String {
        match self {
            Script::All => "(sink all)".to_string(),
            Script::Stop(k) => format!("(sink stop {})", k),
            Script::Err(k) => format!("(sink err {})", k),
        }
    }
    pub fn token(self) -> String {
        match self {
            Script::All => "@all".to_string(),
            Script::Stop(k) => format!("@stop:{}", k),
            Script::Err(k) => format!("@err:{}", k),
        }
    }
    pub fn parse_token(s: &str) -> Option<Script> {
        if s == "@all" {
            return Some(Script::All);
        }
        if let Some(k) = s.strip_prefix("@stop:") {
            return k.parse().ok().map(Script::Stop);
        }
        if let Some(k) = s.strip_prefix("@err:") {
            return k.parse().ok().map(Script::Err);
        }
        None
    }
}

pub struct RecSink {
    pub events: Vec<String>,
    script: Script,
    idx: usize,
}

fn optn(n: Option<u64>) -> String {
    n.map_or("-".to_string(), |n| n.to_string())
}

impl RecSink {
    pub fn new(script: Script) -> RecSink {
        RecSink { events: vec![], script, idx: 0 }
    }
    /// answer of the callback with the current index; `None` = error
    fn answer(&mut self) -> Result<bool, io::Error> {
        let i = self.idx;
        self.idx += 1;
        match self.script {
            Script::Stop(k) if k == i => Ok(false),
            Script::Err(k) if k == i => Err(io::Error::new(io::ErrorKind::Other, "scripted")),
            _ => Ok(true),
        }
    }
}

impl Sink for RecSink {
    type Error = io::Error;

    fn matched(&mut self, _s: &Searcher, m: &SinkMatch<'_>) -> Result<bool, io::Error> {
        self.events.push(format!("m {} {} {}", optn(m.line_number()), m.absolute_byte_offset(), hex(m.bytes())));
        self.answer()
    }
    fn context(&mut self, _s: &Searcher, c: &SinkContext<'_>) -> Result<bool, io::Error> {
        let k = match c.kind() {
            SinkContextKind::Before => "b",
            SinkContextKind::After => "a",
            SinkContextKind::Other => "o",
        };
        self.events.push(format!("c {} {} {} {}", k, optn(c.line_number()), c.absolute_byte_offset(), hex(c.bytes())));
        self.answer()
    }
    fn context_break(&mut self, _s: &Searcher) -> Result<bool, io::Error> {
        self.events.push("brk".to_string());
        self.answer()
    }
    fn binary_data(&mut self, _s: &Searcher, off: u64) -> Result<bool, io::Error> {
        self.events.push(format!("bin {}", off));
        self.answer()
    }
    fn begin(&mut self, _s: &Searcher) -> Result<bool, io::Error> {
        self.events.push("begin".to_string());
        self.answer()
    }
    fn finish(&mut self, _s: &Searcher, f: &SinkFinish) -> Result<(), io::Error> {
        self.events.push(format!("fin {} {}", f.byte_count(), optn(f.binary_byte_offset())));
        self.answer().map(|_| ())
    }
}

/// Forwards every callback to a real sink (e.g. a printer's) and records the callbacks and the first index at
/// which the inner sink answered "stop".
pub struct TapSink<S: Sink<Error = io::Error>> {
    pub inner: S,
    pub rec: RecSink,
    pub first_stop: Option<usize>,
}

impl<S: Sink<Error = io::Error>> TapSink<S> {
    pub fn new(inner: S) -> TapSink<S> {
        TapSink { inner, rec: RecSink::new(Script::All), first_stop: None }
    }
    fn note(&mut self, r: Result<bool, io::Error>) -> Result<bool, io::Error> {
        if let Ok(false) = r {
            if self.first_stop.is_none() {
                self.first_stop = Some(self.rec.events.len() - 1);
            }
        }
        r
    }
}

impl<S: Sink<Error = io::Error>> Sink for TapSink<S> {
    type Error = io::Error;
    fn matched(&mut self, s: &Searcher, m: &SinkMatch<'_>) -> Result<bool, io::Error> {
        let _ = self.rec.matched(s, m);
        let r = self.inner.matched(s, m);
        self.note(r)
    }
    fn context(&mut self, s: &Searcher, c: &SinkContext<'_>) -> Result<bool, io::Error> {
        let _ = self.rec.context(s, c);
        let r = self.inner.context(s, c);
        self.note(r)
    }
    fn context_break(&mut self, s: &Searcher) -> Result<bool, io::Error> {
        let _ = self.rec.context_break(s);
        let r = self.inner.context_break(s);
        self.note(r)
    }
    fn binary_data(&mut self, s: &Searcher, off: u64) -> Result<bool, io::Error> {
        let _ = self.rec.binary_data(s, off);
        let r = self.inner.binary_data(s, off);
        self.note(r)
    }
    fn begin(&mut self, s: &Searcher) -> Result<bool, io::Error> {
        let _ = self.rec.begin(s);
        let r = self.inner.begin(s);
        self.note(r)
    }
    fn finish(&mut self, s: &Searcher, f: &SinkFinish) -> Result<(), io::Error> {
        let _ = self.rec.finish(s, f);
        self.inner.finish(s, f)
    }
}

/// one character per callback of a run: b begin, m matched, a/c/o after/before/other context, k break,
/// n binary notice, f finish
pub fn kinds_str(evs: &[&str]) -> String {
    evs.iter()
        .map(|e| {
            if *e == "begin" {
                'b'
            } else if e.starts_with("m ") {
                'm'
            } else if e.starts_with("c a") {
                'a'
            } else if e.starts_with("c b") {
                'c'
            } else if e.starts_with("c o") {
                'o'
            } else if *e == "brk" {
                'k'
            } else if e.starts_with("bin ") {
                'n'
            } else {
                'f'
            }
        })
        .collect()
}

// ---------------------------------------------------------------- strategies

/// `Read` wrapper handing out at most `chunk` bytes per call; optionally fails at read call `fail_at`.
pub struct ChunkReader<'a> {
    data: &'a [u8],
    pos: usize,
    chunk: usize,
    pub reads: usize,
    fail_at: Option<(usize, io::ErrorKind)>,
}

impl<'a> ChunkReader<'a> {
    pub fn new(data: &'a [u8], chunk: usize, fail_at: Option<(usize, io::ErrorKind)>) -> ChunkReader<'a> {
        ChunkReader { data, pos: 0, chunk: chunk.max(1), reads: 0, fail_at }
    }
}

impl<'a> Read for ChunkReader<'a> {
    fn read(&mut self, buf: &mut [u8]) -> io::Result<usize> {
        let i = self.reads;
        self.reads += 1;
        if let Some((j, kind)) = self.fail_at {
            if i == j {
                return Err(io::Error::new(kind, "scripted read failure"));
            }
        }
        let n = buf.len().min(self.chunk).min(self.data.len() - self.pos);
        buf[..n].copy_from_slice(&self.data[self.pos..self.pos + n]);
        self.pos += n;
        Ok(n)
    }
}

#[derive(Clone, Debug)]
pub enum Strategy {
    Slice,
    /// `search_reader` over a reader that returns at most n bytes per call
    Reader(usize),
    /// `search_reader` whose reader fails at the given read call
    FaultReader { chunk: usize, fail_at: usize, interrupted: bool },
    /// `search_path` on a file holding the input (the searcher decides mmap or not)
    Path(PathBuf),
}

impl Strategy {
    pub fn name(&self) -> String {
        match self {
            Strategy::Slice => "slice".to_string(),
            Strategy::Reader(n) => format!("reader{}", n),
            Strategy::FaultReader { chunk, .. } => format!("faultreader{}", chunk),
            Strategy::Path(_) => "path".to_string(),
        }
    }
}

/// A pair of searchers for one configuration (built once, reused over runs).
pub struct Searchers {
    pub plain: Searcher,
    pub mmap: Searcher,
    /// roll buffer of `SMALL_CAP` bytes (hook `verif_buffer_capacity`): the buffer rolls and grows on tiny inputs
    pub small: Searcher,
}

/// initial capacity of the roll buffer of `Searchers::small`
pub const SMALL_CAP: usize = 7;

impl Searchers {
    pub fn new(cfg: &Cfg) -> Searchers {
        Searchers { plain: cfg.searcher(), mmap: cfg.searcher_mmap(), small: cfg.searcher_small() }
    }
}

/// Run the real searcher; the result is the event stream joined by `;` plus `|ok`, `|err` or `|panic`.
/// Also returns the number of `read` calls for the reader strategies.
pub fn run_with<M: Matcher>(
    searcher: &mut Searcher,
    m: &M,
    input: &[u8],
    script: Script,
    strat: &Strategy,
) -> (String, usize) {
    let mut sink = RecSink::new(script);
    let mut reads = 0usize;
    let res = catch_unwind(AssertUnwindSafe(|| match strat {
        Strategy::Slice => searcher.search_slice(m, input, &mut sink),
        Strategy::Reader(n) => {
            let mut r = ChunkReader::new(input, *n, None);
            let x = searcher.search_reader(m, &mut r, &mut sink);
            reads = r.reads;
            x
        }
        Strategy::FaultReader { chunk, fail_at, interrupted } => {
            let kind = if *interrupted { io::ErrorKind::Interrupted } else { io::ErrorKind::Other };
            let mut r = ChunkReader::new(input, *chunk, Some((*fail_at, kind)));
            let x = searcher.search_reader(m, &mut r, &mut sink);
            reads = r.reads;
            x
        }
        Strategy::Path(p) => searcher.search_path(m, p, &mut sink),
    }));
    let status = match res {
        Ok(Ok(())) => "ok",
        Ok(Err(_)) => "err",
        Err(_) => "panic",
    };
    (format!("{}|{}", sink.events.join(";"), status), reads)
}

/// One-shot variant building the searcher from the configuration.
pub fn run_impl<M: Matcher>(cfg: &Cfg, m: &M, input: &[u8], script: Script, strat: &Strategy, mmap: bool) -> String {
    let mut s = if mmap { cfg.searcher_mmap() } else { cfg.searcher() };
    run_with(&mut s, m, input, script, strat).0
}

/// Write the input to a file of the scratch directory (for the path strategy).
pub fn scratch_file(dir: &Path, name: &str, input: &[u8]) -> PathBuf {
    std::fs::create_dir_all(dir).ok();
    let p = dir.join(name);
    std::fs::write(&p, input).expect("write scratch file");
    p
}

// ---------------------------------------------------------------- event streams

/// `events;…|status` → (events, status)
pub fn split_run(s: &str) -> (Vec<&str>, &str) {
    let (ev, st) = match s.rfind('|') {
        Some(i) => (&s[..i], &s[i + 1..]),
        None => (s, ""),
    };
    let evs: Vec<&str> = if ev.is_empty() { vec![] } else { ev.split(';').collect() };
    (evs, st)
}

/// Replace the byte count of every `fin N x` by `_` (after an early stop the count is unspecified).
pub fn strip_fin_count(s: &str) -> String {
    let (evs, st) = split_run(s);
    let evs: Vec<String> = evs
        .iter()
        .map(|e| {
            if let Some(rest) = e.strip_prefix("fin ") {
                match rest.split_once(' ') {
                    Some((_, bo)) => format!("fin _ {}", bo),
                    None => "fin _".to_string(),
                }
            } else {
                e.to_string()
            }
        })
        .collect();
    format!("{}|{}", evs.join(";"), st)
}

/// event kind used for branch names: begin, m, c b, c a, c o, brk, bin, fin
pub fn event_kind(e: &str) -> &str {
    if e.starts_with("c ") && e.len() >= 3 {
        &e[..3]
    } else {
        e.split(' ').next().unwrap_or("")
    }
}

pub fn is_driver_error(s: &str) -> bool {
    s == "bad-op" || s == "table-miss" || s == "bad-sel" || !s.contains('|')
}

/// File the three comparisons of the guide. `known_class` is the known-finding class whose predicate the
/// case satisfies ("" if none): it labels `impl_vs_spec` and suppresses `model_vs_spec` (the theorem's
/// guard excludes the class). Returns true when everything agreed.
pub fn compare3(
    rep: &mut Report,
    case: &str,
    what: &str,
    imp: &str,
    model: Option<&str>,
    spec: Option<&str>,
    known_class: &str,
    ctx: &str,
) -> bool {
    let mut ok = true;
    if let Some(model) = model {
        if imp != model {
            ok = false;
            rep.violation(Violation {
                kind: "impl_vs_model".into(),
                class: "".into(),
                tie: format!("{}: Sink event stream of the real Searcher vs Lean model searchSlice", what),
                case: case.to_string(),
                detail: format!("{} impl {} model {}", ctx, imp, model),
            });
        }
    }
    if let Some(spec) = spec {
        if imp != spec {
            ok = false;
            rep.violation(Violation {
                kind: "impl_vs_spec".into(),
                class: known_class.into(),
                tie: format!("{}: Sink event stream of the real Searcher vs grep model (Spec/Grep.lean)", what),
                case: case.to_string(),
                detail: format!("{} impl {} spec {}", ctx, imp, spec),
            });
        }
        if let Some(model) = model {
            if model != spec && known_class.is_empty() && !is_driver_error(model) {
                ok = false;
                rep.violation(Violation {
                    kind: "model_vs_spec".into(),
                    class: "".into(),
                    tie: format!("{}: Lean model searchSlice vs grep model (theorem contradicted)", what),
                    case: case.to_string(),
                    detail: format!("{} model {} spec {}", ctx, model, spec),
                });
            }
        }
    }
    ok
}

// ---------------------------------------------------------------- case lines

#[derive(Clone, Copy, Debug, PartialEq, Eq)]
pub enum ReMode {
    /// RegexMatcherBuilder with the configuration's line terminator (`crlf(true)` under CRLF)
    Term,
    /// no line terminator announced (the searcher may still learn it from `non_matching_bytes`)
    Plain,
}

#[derive(Clone, Debug)]
pub enum MatcherSpec {
    Lit { needle: Vec<u8>, term: Option<Lt>, nm: Option<Vec<u8>>, cand: Option<Vec<u8>> },
    Re { mode: ReMode, pattern: String },
}

#[derive(Clone, Debug)]
pub struct Case {
    pub cfg: Cfg,
    pub m: MatcherSpec,
    pub input: Vec<u8>,
    /// optional restriction to one sink script (C16 replays)
    pub script: Option<Script>,
}

fn opt_hex(b: &Option<Vec<u8>>) -> String {
    b.as_ref().map_or("-".to_string(), |b| hex(b))
}

fn parse_opt_hex(s: &str) -> Option<Option<Vec<u8>>> {
    if s == "-" {
        Some(None)
    } else {
        unhex(s).map(Some)
    }
}

impl Case {
    /// `lit <cfg> <needle-hex> term=<-|lt> nm=<-|hex> cand=<-|hex> <input-hex> [@stop:k|@err:k|@all]`
    /// `re <cfg> term|plain <pattern-hex> <input-hex> [@…]`
    pub fn line(&self) -> String {
        let mut s = match &self.m {
            MatcherSpec::Lit { needle, term, nm, cand } => format!(
                "lit {} {} term={} nm={} cand={} {}",
                self.cfg.token(),
                hex(needle),
                opt_lt_name(*term),
                opt_hex(nm),
                opt_hex(cand),
                hex(&self.input)
            ),
            MatcherSpec::Re { mode, pattern } => format!(
                "re {} {} {} {}",
                self.cfg.token(),
                if *mode == ReMode::Term { "term" } else { "plain" },
                hex(pattern.as_bytes()),
                hex(&self.input)
            ),
        };
        if let Some(sc) = self.script {
            s.push(' ');
            s.push_str(&sc.token());
        }
        s
    }
    pub fn parse(line: &str) -> Option<Case> {
        let mut p: Vec<&str> = line.split_whitespace().collect();
        let mut script = None;
        if let Some(last) = p.last() {
            if last.starts_with('@') {
                script = Some(Script::parse_token(last)?);
                p.pop();
            }
        }
        match p.first().copied() {
            Some("lit") if p.len() == 7 => Some(Case {
                cfg: Cfg::parse_token(p[1])?,
                m: MatcherSpec::Lit {
                    needle: unhex(p[2])?,
                    term: parse_opt_lt(p[3].strip_prefix("term=")?)?,
                    nm: parse_opt_hex(p[4].strip_prefix("nm=")?)?,
                    cand: parse_opt_hex(p[5].strip_prefix("cand=")?)?,
                },
                input: unhex(p[6])?,
                script,
            }),
            Some("re") if p.len() == 5 => Some(Case {
                cfg: Cfg::parse_token(p[1])?,
                m: MatcherSpec::Re {
                    mode: match p[2] {
                        "term" => ReMode::Term,
                        "plain" => ReMode::Plain,
                        _ => return None,
                    },
                    pattern: String::from_utf8(unhex(p[3])?).ok()?,
                },
                input: unhex(p[4])?,
                script,
            }),
            _ => None,
        }
    }
    pub fn with_script(&self, s: Script) -> Case {
        let mut c = self.clone();
        c.script = Some(s);
        c
    }
    pub fn with_input(&self, input: Vec<u8>) -> Case {
        let mut c = self.clone();
        c.input = input;
        c
    }
    pub fn lit_matcher(&self) -> Option<LitMatcher> {
        match &self.m {
            MatcherSpec::Lit { needle, term, nm, cand } => {
                Some(LitMatcher::new(needle.clone(), *term, nm.clone(), cand.clone()))
            }
            _ => None,
        }
    }
}

/// The real regex matcher of a `re` case. The regex flag `m` is always on (as in ripgrep), so `^`/`$`
/// are line anchors.
pub fn build_regex(mode: ReMode, lt: Lt, pattern: &str) -> Result<RegexMatcher, String> {
    let mut b = RegexMatcherBuilder::new();
    b.multi_line(true);
    if mode == ReMode::Term {
        match lt {
            Lt::Lf => {
                b.line_terminator(Some(b'\n'));
            }
            Lt::Crlf => {
                b.crlf(true);
            }
            Lt::Nul => {
                b.line_terminator(Some(0));
            }
        }
    }
    b.build(pattern).map_err(|e| e.to_string())
}

// ---------------------------------------------------------------- generators

/// One line body of 0..=max bytes over an alphabet that avoids the terminator byte.
fn gen_body(rng: &mut Rng, lt: Lt, max: usize) -> Vec<u8> {
    let base: &[u8] = match lt {
        Lt::Lf => b"aab y\x00\xff\xc3\r",
        Lt::Crlf => b"aab y\x00\xff\r\r",
        Lt::Nul => b"aab y\n\xff\xc3\r",
    };
    let n = rng.range(0, max);
    (0..n).map(|_| *rng.pick(base)).collect()
}

/// Structured input for a literal needle: 0..=nmax lines, each selected with probability pnum/pden.
pub fn gen_lit_input(rng: &mut Rng, lt: Lt, needle: &[u8], nmax: usize, pnum: usize, pden: usize) -> Vec<u8> {
    let n = rng.range(0, nmax);
    let mut out = vec![];
    for i in 0..n {
        let mut body = gen_body(rng, lt, 4);
        if rng.chance(pnum, pden) {
            let at = rng.range(0, body.len());
            let tail = body.split_off(at);
            body.extend_from_slice(needle);
            body.extend(tail);
        }
        out.extend(body);
        let last = i + 1 == n;
        if !last || rng.chance(3, 4) {
            match lt {
                Lt::Crlf => {
                    if rng.chance(3, 4) {
                        out.extend_from_slice(b"\r\n");
                    } else {
                        out.push(b'\n');
                    }
                }
                _ => out.push(lt.byte()),
            }
        }
    }
    out
}

/// matcher flavour for a literal case: slow (nothing announced), fast by terminator, fast by non-matching bytes
pub fn gen_lit_matcher(rng: &mut Rng, cfg: &Cfg, needle: &[u8]) -> MatcherSpec {
    let flavour = rng.below(3);
    let (term, nm) = match flavour {
        0 => (None, None),
        1 => (Some(cfg.lt), None),
        _ => {
            let mut nm = vec![cfg.lt.byte()];
            if rng.chance(1, 3) {
                nm.push(b'\r');
            }
            if rng.chance(1, 6) {
                // a set that does not contain the terminator: announces nothing useful
                nm = vec![b'\r'];
            }
            (None, Some(nm))
        }
    };
    let cand = match rng.below(8) {
        0..=3 => None,
        4 | 5 => Some(needle[..1.min(needle.len())].to_vec()),
        6 => Some(needle.to_vec()),
        _ => Some(needle[needle.len().saturating_sub(1)..].to_vec()),
    };
    let cand = cand.filter(|c| !c.is_empty());
    MatcherSpec::Lit { needle: needle.to_vec(), term, nm, cand }
}

/// SAFE patterns: literals, classes, `.`, alternation, repetition; anchors only when `anchors`.
/// Nothing here can match `\r`, `\n` (and `.` is only produced when `dot`).
pub fn gen_safe_pattern(rng: &mut Rng, depth: usize, dot: bool) -> String {
    let k = rng.below(if depth == 0 { 6 } else { 12 });
    match k {
        0 => "x".into(),
        1 => "y".into(),
        2 => "[xy]".into(),
        3 => "[ab]".into(),
        4 => {
            if dot {
                ".".into()
            } else {
                "a".into()
            }
        }
        5 => "xy".into(),
        6 | 7 => format!("{}{}", gen_safe_pattern(rng, depth - 1, dot), gen_safe_pattern(rng, depth - 1, dot)),
        8 => format!("(?:{}|{})", gen_safe_pattern(rng, depth - 1, dot), gen_safe_pattern(rng, depth - 1, dot)),
        9 => format!("(?:{})+", gen_safe_pattern(rng, depth - 1, dot)),
        10 => format!("(?:{})*", gen_safe_pattern(rng, depth - 1, dot)),
        _ => format!("(?:{})?", gen_safe_pattern(rng, depth - 1, dot)),
    }
}

pub fn gen_anchored(rng: &mut Rng, p: String) -> String {
    match rng.below(6) {
        0 => format!("^{}", p),
        1 => format!("{}$", p),
        2 => format!("^{}$", p),
        3 => "^$".to_string(),
        _ => p,
    }
}

/// Plain text lines over `x y a b space` for the regex stream (no `\r` except as part of `\r\n`).
pub fn gen_text_input(rng: &mut Rng, lt: Lt, nmax: usize) -> Vec<u8> {
    let n = rng.range(0, nmax);
    let mut out = vec![];
    for i in 0..n {
        for _ in 0..rng.range(0, 4) {
            out.push(*rng.pick(b"xxyab "));
        }
        if i + 1 < n || rng.chance(3, 4) {
            out.extend_from_slice(lt.bytes());
        }
    }
    out
}

// ---------------------------------------------------------------- misc

pub fn lens_str(v: &[usize]) -> String {
    v.iter().map(|n| n.to_string()).collect::<Vec<_>>().join(" ")
}
