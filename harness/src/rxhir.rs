//! Shared by the C11 / C01-regex harness bins: `regex_syntax::hir::Hir` <-> S-expression wire
//! format of the Lean driver, rebuilding through the real smart constructors, sampling of witness
//! strings from an HIR, harvesting of patterns from the repository's sources.
#![allow(dead_code)]
use regex_syntax::hir::{self, Class, ClassBytes, ClassBytesRange, ClassUnicode, ClassUnicodeRange, Hir, HirKind, Look};

use crate::Rng;

pub fn look_name(l: Look) -> &'static str {
    match l {
        Look::Start => "Start",
        Look::End => "End",
        Look::StartLF => "StartLF",
        Look::EndLF => "EndLF",
        Look::StartCRLF => "StartCRLF",
        Look::EndCRLF => "EndCRLF",
        Look::WordAscii => "WordAscii",
        Look::WordAsciiNegate => "WordAsciiNegate",
        Look::WordUnicode => "WordUnicode",
        Look::WordUnicodeNegate => "WordUnicodeNegate",
        Look::WordStartAscii => "WordStartAscii",
        Look::WordEndAscii => "WordEndAscii",
        Look::WordStartUnicode => "WordStartUnicode",
        Look::WordEndUnicode => "WordEndUnicode",
        Look::WordStartHalfAscii => "WordStartHalfAscii",
        Look::WordEndHalfAscii => "WordEndHalfAscii",
        Look::WordStartHalfUnicode => "WordStartHalfUnicode",
        Look::WordEndHalfUnicode => "WordEndHalfUnicode",
    }
}

pub fn look_of(s: &str) -> Option<Look> {
    Some(match s {
        "Start" => Look::Start,
        "End" => Look::End,
        "StartLF" => Look::StartLF,
        "EndLF" => Look::EndLF,
        "StartCRLF" => Look::StartCRLF,
        "EndCRLF" => Look::EndCRLF,
        "WordAscii" => Look::WordAscii,
        "WordAsciiNegate" => Look::WordAsciiNegate,
        "WordUnicode" => Look::WordUnicode,
        "WordUnicodeNegate" => Look::WordUnicodeNegate,
        "WordStartAscii" => Look::WordStartAscii,
        "WordEndAscii" => Look::WordEndAscii,
        "WordStartUnicode" => Look::WordStartUnicode,
        "WordEndUnicode" => Look::WordEndUnicode,
        "WordStartHalfAscii" => Look::WordStartHalfAscii,
        "WordEndHalfAscii" => Look::WordEndHalfAscii,
        "WordStartHalfUnicode" => Look::WordStartHalfUnicode,
        "WordEndHalfUnicode" => Look::WordEndHalfUnicode,
        _ => return None,
    })
}

/// Serialise an HIR for the driver (capture names are dropped).
pub fn to_sx(h: &Hir) -> String {
    let mut s = String::new();
    write_sx(h, &mut s);
    s
}

fn write_sx(h: &Hir, out: &mut String) {
    use std::fmt::Write;
    match h.kind() {
        HirKind::Empty => out.push_str("(empty)"),
        HirKind::Literal(hir::Literal(b)) => {
            let _ = write!(out, "(lit {})", crate::hex(b));
        }
        HirKind::Class(Class::Bytes(c)) => {
            out.push_str("(cb");
            for r in c.ranges() {
                let _ = write!(out, " {}-{}", r.start(), r.end());
            }
            out.push(')');
        }
        HirKind::Class(Class::Unicode(c)) => {
            out.push_str("(cu");
            for r in c.ranges() {
                let _ = write!(out, " {}-{}", r.start() as u32, r.end() as u32);
            }
            out.push(')');
        }
        HirKind::Look(l) => {
            let _ = write!(out, "(look {})", look_name(*l));
        }
        HirKind::Repetition(r) => {
            let _ = write!(
                out,
                "(rep {} {} {} ",
                r.min,
                r.max.map_or("-".to_string(), |m| m.to_string()),
                r.greedy as u8
            );
            write_sx(&r.sub, out);
            out.push(')');
        }
        HirKind::Capture(c) => {
            let _ = write!(out, "(cap {} ", c.index);
            write_sx(&c.sub, out);
            out.push(')');
        }
        HirKind::Concat(xs) => {
            out.push_str("(concat");
            for x in xs {
                out.push(' ');
                write_sx(x, out);
            }
            out.push(')');
        }
        HirKind::Alternation(xs) => {
            out.push_str("(alt");
            for x in xs {
                out.push(' ');
                write_sx(x, out);
            }
            out.push(')');
        }
    }
}

#[derive(Debug, Clone)]
pub enum Sx {
    Atom(String),
    List(Vec<Sx>),
}

pub fn parse_sx(s: &str) -> Option<Sx> {
    let mut toks: Vec<String> = vec![];
    let mut cur = String::new();
    for c in s.chars() {
        match c {
            '(' | ')' => {
                if !cur.is_empty() {
                    toks.push(std::mem::take(&mut cur));
                }
                toks.push(c.to_string());
            }
            ' ' | '\t' => {
                if !cur.is_empty() {
                    toks.push(std::mem::take(&mut cur));
                }
            }
            _ => cur.push(c),
        }
    }
    if !cur.is_empty() {
        toks.push(cur);
    }
    let mut stack: Vec<Vec<Sx>> = vec![vec![]];
    for t in toks {
        if t == "(" {
            stack.push(vec![]);
        } else if t == ")" {
            let top = stack.pop()?;
            stack.last_mut()?.push(Sx::List(top));
        } else {
            stack.last_mut()?.push(Sx::Atom(t));
        }
    }
    if stack.len() != 1 {
        return None;
    }
    let mut top = stack.pop()?;
    if top.len() != 1 {
        return None;
    }
    top.pop()
}

fn atom(x: &Sx) -> Option<&str> {
    match x {
        Sx::Atom(s) => Some(s),
        _ => None,
    }
}

fn range_of(x: &Sx) -> Option<(u32, u32)> {
    let s = atom(x)?;
    let (a, b) = s.split_once('-')?;
    Some((a.parse().ok()?, b.parse().ok()?))
}

/// Rebuild an HIR from the wire format **through regex-syntax's smart constructors**, bottom-up:
/// exactly what `strip_from_match_ascii` does with the stripped children.
pub fn rebuild(x: &Sx) -> Option<Hir> {
    let xs = match x {
        Sx::List(xs) => xs,
        _ => return None,
    };
    let head = atom(xs.first()?)?;
    Some(match head {
        "empty" => Hir::empty(),
        "lit" => Hir::literal(crate::unhex(atom(xs.get(1)?)?)?),
        "cb" => {
            let mut rs = vec![];
            for r in &xs[1..] {
                let (a, b) = range_of(r)?;
                rs.push(ClassBytesRange::new(u8::try_from(a).ok()?, u8::try_from(b).ok()?));
            }
            Hir::class(Class::Bytes(ClassBytes::new(rs)))
        }
        "cu" => {
            let mut rs = vec![];
            for r in &xs[1..] {
                let (a, b) = range_of(r)?;
                rs.push(ClassUnicodeRange::new(char::from_u32(a)?, char::from_u32(b)?));
            }
            Hir::class(Class::Unicode(ClassUnicode::new(rs)))
        }
        "look" => Hir::look(look_of(atom(xs.get(1)?)?)?),
        "rep" => {
            let min: u32 = atom(xs.get(1)?)?.parse().ok()?;
            let max = match atom(xs.get(2)?)? {
                "-" => None,
                m => Some(m.parse::<u32>().ok()?),
            };
            let greedy = atom(xs.get(3)?)? == "1";
            let sub = rebuild(xs.get(4)?)?;
            Hir::repetition(hir::Repetition { min, max, greedy, sub: Box::new(sub) })
        }
        "cap" => {
            let index: u32 = atom(xs.get(1)?)?.parse().ok()?;
            let sub = rebuild(xs.get(2)?)?;
            Hir::capture(hir::Capture { index, name: None, sub: Box::new(sub) })
        }
        "concat" => {
            let mut v = vec![];
            for y in &xs[1..] {
                v.push(rebuild(y)?);
            }
            Hir::concat(v)
        }
        "alt" => {
            let mut v = vec![];
            for y in &xs[1..] {
                v.push(rebuild(y)?);
            }
            Hir::alternation(v)
        }
        _ => return None,
    })
}

pub fn rebuild_str(s: &str) -> Option<Hir> {
    rebuild(&parse_sx(s)?)
}

/// Number of nodes and number of distinct node kinds.
pub fn shape(h: &Hir) -> (usize, usize) {
    fn go(h: &Hir, n: &mut usize, kinds: &mut [bool; 9]) {
        *n += 1;
        match h.kind() {
            HirKind::Empty => kinds[0] = true,
            HirKind::Literal(_) => kinds[1] = true,
            HirKind::Class(Class::Bytes(_)) => kinds[2] = true,
            HirKind::Class(Class::Unicode(_)) => kinds[3] = true,
            HirKind::Look(_) => kinds[4] = true,
            HirKind::Repetition(r) => {
                kinds[5] = true;
                go(&r.sub, n, kinds)
            }
            HirKind::Capture(c) => {
                kinds[6] = true;
                go(&c.sub, n, kinds)
            }
            HirKind::Concat(xs) => {
                kinds[7] = true;
                for x in xs {
                    go(x, n, kinds)
                }
            }
            HirKind::Alternation(xs) => {
                kinds[8] = true;
                for x in xs {
                    go(x, n, kinds)
                }
            }
        }
    }
    let mut n = 0;
    let mut kinds = [false; 9];
    go(h, &mut n, &mut kinds);
    (n, kinds.iter().filter(|&&k| k).count())
}

/// nesting depth of repetitions
pub fn rep_depth(h: &Hir) -> usize {
    match h.kind() {
        HirKind::Repetition(r) => 1 + rep_depth(&r.sub),
        HirKind::Capture(c) => rep_depth(&c.sub),
        HirKind::Concat(xs) | HirKind::Alternation(xs) => xs.iter().map(rep_depth).max().unwrap_or(0),
        _ => 0,
    }
}

pub fn has_look(h: &Hir, p: &dyn Fn(Look) -> bool) -> bool {
    match h.kind() {
        HirKind::Look(l) => p(*l),
        HirKind::Repetition(r) => has_look(&r.sub, p),
        HirKind::Capture(c) => has_look(&c.sub, p),
        HirKind::Concat(xs) | HirKind::Alternation(xs) => xs.iter().any(|x| has_look(x, p)),
        _ => false,
    }
}

pub fn is_unicode_word_look(l: Look) -> bool {
    matches!(
        l,
        Look::WordUnicode
            | Look::WordUnicodeNegate
            | Look::WordStartUnicode
            | Look::WordEndUnicode
            | Look::WordStartHalfUnicode
            | Look::WordEndHalfUnicode
    )
}

/// Names of the look kinds occurring in the HIR (for the branch histogram).
pub fn look_kinds(h: &Hir, out: &mut Vec<&'static str>) {
    match h.kind() {
        HirKind::Look(l) => out.push(look_name(*l)),
        HirKind::Repetition(r) => look_kinds(&r.sub, out),
        HirKind::Capture(c) => look_kinds(&c.sub, out),
        HirKind::Concat(xs) | HirKind::Alternation(xs) => xs.iter().for_each(|x| look_kinds(x, out)),
        _ => {}
    }
}

/// The non-ASCII part of `\w` of the linked regex-syntax, as `(word lo-hi …)`.
pub fn word_table_sx() -> &'static str {
    static TABLE: std::sync::OnceLock<String> = std::sync::OnceLock::new();
    TABLE.get_or_init(|| {
        let h = regex_syntax::ParserBuilder::new().build().parse(r"\w").unwrap();
        let mut s = String::from("(word");
        if let HirKind::Class(Class::Unicode(c)) = h.kind() {
            for r in c.ranges() {
                if (r.end() as u32) >= 128 {
                    s.push_str(&format!(" {}-{}", (r.start() as u32).max(128), r.end() as u32));
                }
            }
        }
        s.push(')');
        s
    })
}

/// Bytes that are interesting for this HIR: literal bytes, class end points (and neighbours).
pub fn alphabet(h: &Hir, out: &mut Vec<Vec<u8>>) {
    fn push_char(c: u32, out: &mut Vec<Vec<u8>>) {
        if let Some(ch) = char::from_u32(c) {
            let mut b = [0u8; 4];
            out.push(ch.encode_utf8(&mut b).as_bytes().to_vec());
        }
    }
    match h.kind() {
        HirKind::Literal(hir::Literal(b)) => {
            for x in b.iter() {
                out.push(vec![*x]);
            }
        }
        HirKind::Class(Class::Bytes(c)) => {
            for r in c.ranges().iter().take(6) {
                out.push(vec![r.start()]);
                out.push(vec![r.end()]);
                out.push(vec![r.end().wrapping_add(1)]);
            }
        }
        HirKind::Class(Class::Unicode(c)) => {
            for r in c.ranges().iter().take(6) {
                push_char(r.start() as u32, out);
                push_char(r.end() as u32, out);
                push_char(r.end() as u32 + 1, out);
            }
        }
        HirKind::Repetition(r) => alphabet(&r.sub, out),
        HirKind::Capture(c) => alphabet(&c.sub, out),
        HirKind::Concat(xs) | HirKind::Alternation(xs) => xs.iter().for_each(|x| alphabet(x, out)),
        _ => {}
    }
}

/// A random string derived from the HIR (looks are ignored, so it is only *likely* to match).
pub fn sample(h: &Hir, rng: &mut Rng, out: &mut Vec<u8>, depth: usize) {
    if out.len() > 64 {
        return;
    }
    match h.kind() {
        HirKind::Empty | HirKind::Look(_) => {}
        HirKind::Literal(hir::Literal(b)) => out.extend_from_slice(b),
        HirKind::Class(Class::Bytes(c)) => {
            if !c.ranges().is_empty() {
                let r = c.ranges()[rng.below(c.ranges().len())];
                let span = (r.end() - r.start()) as usize;
                let off = match rng.below(3) {
                    0 => 0,
                    1 => span,
                    _ => rng.below(span + 1),
                };
                out.push(r.start() + off as u8);
            }
        }
        HirKind::Class(Class::Unicode(c)) => {
            if !c.ranges().is_empty() {
                let r = c.ranges()[rng.below(c.ranges().len())];
                let (a, b) = (r.start() as u32, r.end() as u32);
                let span = (b - a) as usize;
                let off = match rng.below(3) {
                    0 => 0,
                    1 => span,
                    _ => rng.below(span + 1),
                };
                let mut cp = a + off as u32;
                if (0xD800..0xE000).contains(&cp) {
                    cp = a;
                }
                if let Some(ch) = char::from_u32(cp) {
                    let mut buf = [0u8; 4];
                    out.extend_from_slice(ch.encode_utf8(&mut buf).as_bytes());
                }
            }
        }
        HirKind::Repetition(r) => {
            let min = r.min as usize;
            let max = r.max.map_or(min + 2, |m| (m as usize).min(min + 2));
            let n = if depth > 3 { min.min(2) } else { rng.range(min.min(12), max.min(12).max(min.min(12))) };
            for _ in 0..n {
                sample(&r.sub, rng, out, depth + 1);
            }
        }
        HirKind::Capture(c) => sample(&c.sub, rng, out, depth),
        HirKind::Concat(xs) => xs.iter().for_each(|x| sample(x, rng, out, depth)),
        HirKind::Alternation(xs) => sample(&xs[rng.below(xs.len())], rng, out, depth),
    }
}

// ---------------------------------------------------------------- harvesting

/// All string literals (plain and raw) of a Rust source text, with the common escapes resolved.
pub fn rust_string_literals(src: &str) -> Vec<String> {
    let b: Vec<char> = src.chars().collect();
    let mut out = vec![];
    let mut i = 0;
    while i < b.len() {
        let c = b[i];
        // line comments
        if c == '/' && i + 1 < b.len() && b[i + 1] == '/' {
            while i < b.len() && b[i] != '\n' {
                i += 1;
            }
            continue;
        }
        // char literals like '"' or '\''
        if c == '\'' {
            if i + 2 < b.len() && b[i + 1] == '\\' {
                let mut j = i + 2;
                while j < b.len() && j < i + 12 && b[j] != '\'' {
                    j += 1;
                }
                if j < b.len() && b[j] == '\'' {
                    i = j + 1;
                    continue;
                }
            } else if i + 2 < b.len() && b[i + 2] == '\'' {
                i += 3;
                continue;
            }
            i += 1;
            continue;
        }
        if c == 'r' && i + 1 < b.len() && (b[i + 1] == '"' || b[i + 1] == '#') {
            let prev_ident = i > 0 && (b[i - 1].is_alphanumeric() || b[i - 1] == '_');
            let mut j = i + 1;
            let mut hashes = 0;
            while j < b.len() && b[j] == '#' {
                hashes += 1;
                j += 1;
            }
            if !prev_ident && j < b.len() && b[j] == '"' {
                j += 1;
                let start = j;
                'scan: while j < b.len() {
                    if b[j] == '"' {
                        let mut k = 0;
                        while k < hashes && j + 1 + k < b.len() && b[j + 1 + k] == '#' {
                            k += 1;
                        }
                        if k == hashes {
                            out.push(b[start..j].iter().collect());
                            j += 1 + hashes;
                            break 'scan;
                        }
                    }
                    j += 1;
                }
                i = j;
                continue;
            }
        }
        if c == '"' {
            let mut j = i + 1;
            let mut s = String::new();
            let mut ok = true;
            while j < b.len() && b[j] != '"' {
                if b[j] == '\\' && j + 1 < b.len() {
                    j += 1;
                    match b[j] {
                        'n' => s.push('\n'),
                        'r' => s.push('\r'),
                        't' => s.push('\t'),
                        '0' => s.push('\0'),
                        '\\' => s.push('\\'),
                        '"' => s.push('"'),
                        '\'' => s.push('\''),
                        'x' => {
                            if j + 2 < b.len() {
                                let hx: String = b[j + 1..j + 3].iter().collect();
                                match u8::from_str_radix(&hx, 16) {
                                    Ok(v) if v < 0x80 => s.push(v as char),
                                    _ => ok = false,
                                }
                                j += 2;
                            }
                        }
                        'u' => {
                            let mut k = j + 1;
                            let mut hx = String::new();
                            if k < b.len() && b[k] == '{' {
                                k += 1;
                                while k < b.len() && b[k] != '}' {
                                    hx.push(b[k]);
                                    k += 1;
                                }
                                match u32::from_str_radix(&hx, 16).ok().and_then(char::from_u32) {
                                    Some(ch) => s.push(ch),
                                    None => ok = false,
                                }
                                j = k;
                            }
                        }
                        '\n' => {
                            while j + 1 < b.len() && b[j + 1].is_whitespace() {
                                j += 1;
                            }
                        }
                        other => {
                            s.push('\\');
                            s.push(other);
                        }
                    }
                    j += 1;
                } else {
                    s.push(b[j]);
                    j += 1;
                }
            }
            if ok {
                out.push(s);
            }
            i = j + 1;
            continue;
        }
        i += 1;
    }
    out
}

fn walk_rs(dir: &std::path::Path, out: &mut Vec<std::path::PathBuf>) {
    if let Ok(rd) = std::fs::read_dir(dir) {
        let mut es: Vec<_> = rd.flatten().map(|e| e.path()).collect();
        es.sort();
        for p in es {
            if p.is_dir() {
                walk_rs(&p, out);
            } else if p.extension().map_or(false, |x| x == "rs") {
                out.push(p);
            }
        }
    }
}

/// Every string literal of the repository's tests and crate sources that regex-syntax accepts as
/// a pattern (deduplicated, deterministic order; strings with a regex meta character first).
pub fn harvest_patterns(repo: &str) -> Vec<String> {
    let mut files = vec![];
    walk_rs(&std::path::Path::new(repo).join("tests"), &mut files);
    for c in ["regex", "searcher", "printer", "matcher", "core", "globset", "ignore", "cli"] {
        walk_rs(&std::path::Path::new(repo).join("crates").join(c), &mut files);
    }
    let mut seen = std::collections::BTreeSet::new();
    let mut meta = vec![];
    let mut plain = vec![];
    for f in files {
        let Ok(src) = std::fs::read_to_string(&f) else { continue };
        for s in rust_string_literals(&src) {
            if s.is_empty() || s.len() > 80 || s.contains('\u{0}') && s.len() > 20 {
                continue;
            }
            if !seen.insert(s.clone()) {
                continue;
            }
            let ok = regex_syntax::ParserBuilder::new().utf8(false).build().parse(&s).is_ok();
            if !ok {
                continue;
            }
            if s.chars().any(regex_syntax::is_meta_character) {
                meta.push(s);
            } else {
                plain.push(s);
            }
        }
    }
    // plain words are all alike for the extractor: keep a bounded, evenly spread share
    let step = (plain.len() / 150).max(1);
    let mut out = meta;
    out.extend(plain.into_iter().step_by(step));
    out
}
