//! C18 — preprocessor / decompression output is what gets searched; failures surface; stderr never blocks.
//!
//! lib  … `grep_cli::CommandReader` (the real process.rs) driving real `sh` children; every read is recorded
//!         and replayed through the Lean model (`c18.consume`: read/close/eof state machine).
//! pre  … the `rg` binary with `--pre <generated sh script>`: per file the script echoes, transforms, replaces,
//!         writes up to 4 MiB to stderr, exits non-zero before / during / after its output, is killed, or is missing;
//!         rg stops early through -m1 / -l / -q / binary detection.
//! z    … `rg -z` on gzip / bzip2 / xz files, valid, truncated, corrupted, empty, unrecognised, decompressor missing.
//! sel  … which files go through --pre / -z / are searched directly, for --pre-glob sets (`c18.select`).
//! pipes… replays of random schedules of the two-pipe model: a stuck state is never reached with the drainer.
//! Reference for "the bytes the command writes": the harness runs the same command itself, writes its stdout
//! to a mirror tree and runs rg (no --pre / -z) on the mirror.
use rgverif_harness::*;
use std::collections::{BTreeMap, BTreeSet};
use std::io::Read;
use std::path::{Path, PathBuf};
use std::process::Command;

#[path = "../cli_common.rs"]
mod cli_common;
use cli_common::*;

const CLASS_ZFALLBACK: &str = "decompressor-missing-falls-back-to-raw";
const CLASS_STDERR_EARLY: &str = "stopped-early-command-with-stderr-output-is-reported-as-failed";

/// Set when a run hit the watchdog: the remaining generated cases are skipped (each would take as long).
static HUNG: std::sync::atomic::AtomicBool = std::sync::atomic::AtomicBool::new(false);

struct Ctx {
    rg: PathBuf,
    scratch: PathBuf,
    counter: usize,
    have_zstd: bool,
}

// ------------------------------------------------------------------ lib: CommandReader vs model

fn gen_lib(rng: &mut Rng) -> String {
    let early = rng.chance(1, 2);
    let out = *rng.pick(&[0usize, 1, 5, 100, 5000, 70000, 300000]);
    let mut err = *rng.pick(&[0usize, 0, 0, 3, 200, 3000, 3000, 100000, 100000, 1 << 20, 4 << 20]);
    let code = *rng.pick(&[0usize, 0, 1, 3, 255]);
    let sig = rng.chance(1, 10);
    let asyn = !rng.chance(1, 4);
    if !asyn && err > 3000 {
        err = 3000; // the synchronous reader really deadlocks on more (theorem sync_stderr_can_deadlock)
    }
    let stop = if early { format!("{}", rng.range(0, 3)) } else { "-".to_string() };
    // stopping early: stderr is written first, so that its content does not depend on when the pipe closes
    let errfirst = early || rng.chance(1, 2);
    format!(
        "lib out={} err={} errfirst={} code={} sig={} async={} stop={} buf={}",
        out, err, errfirst as u8, code, sig as u8, asyn as u8, stop, *rng.pick(&[1usize, 7, 4096, 65536])
    )
}

fn run_lib(case: &str, drv: &mut Driver, rep: &mut Report) {
    let f = fields(case);
    let num = |k: &str| f.get(k).and_then(|v| v.parse::<usize>().ok());
    let (Some(out), Some(err), Some(errfirst), Some(code), Some(sig), Some(asyn), Some(stop), Some(buf)) =
        (num("out"), num("err"), num("errfirst"), num("code"), num("sig"), num("async"), f.get("stop"), num("buf")) else {
        rep.notes.push(format!("unparsable case: {}", case));
        return;
    };
    if asyn == 0 && err > 4096 {
        rep.notes.push(format!("skipped (would deadlock the synchronous reader): {}", case));
        return;
    }
    let stop: Option<usize> = if stop == "-" { None } else { stop.parse().ok() };
    rep.eval();
    let w_out = format!("head -c {} /dev/zero | tr '\\0' o", out);
    let w_err = format!("head -c {} /dev/zero | tr '\\0' e >&2", err);
    let end = if sig == 1 { "kill -9 $$".to_string() } else { format!("exit {}", code) };
    let script = if errfirst == 1 { format!("{}; {}; {}", w_err, w_out, end) } else { format!("{}; {}; {}", w_out, w_err, end) };
    // the reader runs in a thread of its own: a reader that never comes back (e.g. close() waiting for a child
    // that is blocked on a full pipe) is noticed by the watchdog, its children are killed, the case is reported
    struct Obs { reads: Vec<usize>, got: usize, read_err: Option<String>, saw_eof: bool, close_res: std::io::Result<()>, second: std::io::Result<()> }
    let attempt = |limit: std::time::Duration| -> Option<Result<Obs, String>> {
        let (tx, rx) = std::sync::mpsc::channel();
        let script = script.clone();
        std::thread::spawn(move || {
            let mut cmd = Command::new("sh");
            cmd.arg("-c").arg(&script).stdin(std::process::Stdio::null());
            let mut b = grep_cli::CommandReaderBuilder::new();
            b.async_stderr(asyn == 1);
            let mut rdr = match b.build(&mut cmd) {
                Ok(r) => r,
                Err(e) => { let _ = tx.send(Err(format!("cannot spawn sh: {}", e))); return; }
            };
            let mut bufv = vec![0u8; buf.max(1)];
            let mut reads: Vec<usize> = vec![];
            let mut got = 0usize;
            let mut read_err: Option<String> = None;
            let mut saw_eof = false;
            loop {
                if let Some(k) = stop {
                    if reads.len() >= k { break; }
                }
                match rdr.read(&mut bufv) {
                    Ok(0) => { saw_eof = true; break; }
                    Ok(n) => {
                        if bufv[..n].iter().any(|&c| c != b'o') { read_err = Some("foreign byte in the stream".into()); }
                        got += n;
                        reads.push(n);
                    }
                    Err(e) => {
                        saw_eof = true; // the model reports the failure of close-at-EOF through the read
                        read_err = Some(e.to_string());
                        break;
                    }
                }
            }
            let close_res = rdr.close();
            let second = rdr.close();
            let _ = tx.send(Ok(Obs { reads, got, read_err, saw_eof, close_res, second }));
        });
        match rx.recv_timeout(limit) {
            Ok(r) => Some(r),
            Err(_) => { kill_descendants(&["sh", "head", "tr"]); None }
        }
    };
    let obs = match attempt(WATCHDOG) {
        Some(r) => Some(r),
        None => { note_retry(); attempt(WATCHDOG * 2) }
    };
    let Obs { reads, got, read_err, saw_eof, close_res, second } = match obs {
        Some(Ok(o)) => o,
        Some(Err(e)) => { rep.notes.push(e); return; }
        None => {
            HUNG.store(true, std::sync::atomic::Ordering::SeqCst);
            rep.violation(Violation {
                kind: "impl_vs_spec".into(), class: "".into(),
                tie: "CommandReader: reading / closing a command's output finishes (stopping early never waits for a blocked child)".into(),
                case: case.to_string(),
                detail: format!("the search did not finish: read/close did not return within {:?} (twice: re-run with a doubled limit); child: sh -c {:?}", WATCHDOG, script),
            });
            return;
        }
    };
    let model_stop = if saw_eof { "-".to_string() } else { format!("{}", reads.len()) };
    // the status is `sh`'s own: a SIGPIPE only kills the inner `tr`, the script still runs to its `exit`
    let wait = if sig == 1 || code != 0 { "fail" } else { "ok" };
    let child = format!("(child {} {})", wait, hex(&vec![b'e'; err.min(4)]));
    let reply = drv.ask(&format!(
        "c18.consume {} (reads {}) {}",
        child,
        reads.iter().map(|n| n.to_string()).collect::<Vec<_>>().join(" "),
        model_stop
    ));
    let imp = format!(
        "got {} readerr {} close {}",
        got,
        read_err.is_some() as u8,
        if close_res.is_ok() { "ok" } else { "err" }
    );
    rep.branch(if saw_eof { "lib:read-to-eof" } else { "lib:stopped-early" });
    rep.branch(&format!("lib:{}", if read_err.is_some() || close_res.is_err() { "error" } else { "no-error" }));
    if err >= 100000 { rep.branch("lib:large-stderr"); }
    if (code != 0 || sig == 1) && out > 0 { rep.nontrivial(case); }
    // correspondence
    if reply != imp {
        rep.violation(Violation {
            kind: "impl_vs_model".into(), class: "".into(),
            tie: "grep_cli::CommandReader::{read,close} vs Model.Process.consume (theorems close_table, searched_bytes_and_failures)".into(),
            case: case.to_string(),
            detail: format!("real reader: {} ({:?} / {:?}); model: {}", imp, read_err, close_res.as_ref().err().map(|e| e.to_string()), reply),
        });
    }
    // contract: all bytes delivered when read to the end; failure surfaces iff unsuccessful and (consumed or complained)
    let unsuccessful = sig == 1 || code != 0;
    let want_err = unsuccessful && (saw_eof || err > 0);
    let is_err = read_err.is_some() || close_res.is_err();
    let mut problems = vec![];
    if saw_eof && got != out { problems.push(format!("read {} of {} bytes", got, out)); }
    if want_err != is_err { problems.push(format!("error reported: {}, owed: {}", is_err, want_err)); }
    if second.is_err() { problems.push("second close failed".into()); }
    if is_err && err > 0 {
        let msg = read_err.clone().or(close_res.as_ref().err().map(|e| e.to_string())).unwrap_or_default();
        if !msg.contains("ee") && err >= 2 { problems.push("the error does not carry the command's stderr".into()); }
    }
    if !problems.is_empty() {
        rep.violation(Violation {
            kind: "impl_vs_spec".into(), class: "".into(),
            tie: "CommandReader: bytes of the command's stdout are delivered; failures surface".into(),
            case: case.to_string(), detail: problems.join("; "),
        });
    }
}

// ------------------------------------------------------------------ rg --pre / -z on generated trees

fn file_lines(seed: u64, i: usize) -> Vec<String> {
    let mut rng = Rng::new(seed ^ ((i as u64 + 3) * 0x9E3779B1));
    let n = rng.range(2, 7);
    (0..n)
        .map(|k| if rng.chance(1, 3) { format!("needle {} of f{} w{}", k, i, rng.below(50)) } else { format!("plain {} of f{} w{}", k, i, rng.below(50)) })
        .collect()
}

struct Ran {
    stdout: Vec<u8>,
    stderr: Vec<u8>,
    code: i32,
}

fn run_plain(cmd: &mut Command) -> Ran {
    let o = run_cmd(cmd, None);
    Ran { code: o.exit(), stdout: o.stdout, stderr: o.stderr }
}

/// script fragment for behaviour `b` (the file is on stdin and its path is "$1")
fn beh_script(b: char) -> &'static str {
    match b {
        'e' => "cat",
        't' => "sed 's/plain/needle was plain/'",
        'x' => "printf 'needle made up for %s\\nsecond line\\n' \"$(basename \"$1\")\"",
        's' => "echo 'a harmless remark' >&2; cat",
        'S' => "head -c 4194304 /dev/zero | tr '\\0' 'E' >&2; cat",
        'I' => "while IFS= read -r l; do printf '%s\\n' \"$l\"; head -c 150000 /dev/zero | tr '\\0' 'E' >&2; done",
        'b' => "exit 3",
        'B' => "echo 'cannot convert this file' >&2; exit 3",
        'a' => "cat; exit 3",
        'A' => "cat; echo 'failed at the very end' >&2; exit 3",
        'd' => "head -n 2; exit 3",
        'D' => "head -n 2; echo 'gave up half way' >&2; exit 3",
        'k' => "cat; kill -9 $$",
        'h' => "echo 'needle first line'; head -c 1000000 /dev/zero | tr '\\0' 'y' | fold -w 60; exit 3",
        'H' => "echo 'loud failure' >&2; echo 'needle first line'; head -c 1000000 /dev/zero | tr '\\0' 'y' | fold -w 60; exit 3",
        'o' => "echo 'needle first line'; head -c 1000000 /dev/zero | tr '\\0' 'y' | fold -w 60",
        'O' => "echo 'a progress note' >&2; echo 'needle first line'; head -c 1000000 /dev/zero | tr '\\0' 'y' | fold -w 60",
        'z' => "echo 'needle before nul'; head -c 300000 /dev/zero | tr '\\0' 'y' | fold -w 60; printf 'nul \\000 here\\n'; head -c 1000000 /dev/zero | tr '\\0' 'y' | fold -w 60; exit 3",
        // more shapes of commands: output only after a pause, stderr only, stdin never read (closed at once)
        'W' => "echo 'needle first line'; sleep 0.3; echo 'needle late line'",
        'E' => "echo 'only a remark, no output' >&2",
        'N' => "exec 0<&-; printf 'needle without reading stdin for %s\\n' \"$(basename \"$1\")\"",
        // stdout closed long before the exit (failing / succeeding), other signals, killed half way, a grandchild that
        // keeps the pipe open and writes after the command itself has exited
        'L' => "cat; exec 1>&-; sleep 0.2; exit 3",
        'l' => "cat; exec 1>&-; sleep 0.2",
        'T' => "cat; kill -15 $$",
        'P' => "head -n 1; kill -9 $$",
        'G' => "cat; (sleep 0.2; echo 'needle from a grandchild') &",
        _ => "cat",
    }
}

const BEHS: &[char] = &['e', 'e', 'e', 't', 't', 'x', 'x', 's', 's', 'S', 'I', 'b', 'b', 'B', 'B', 'a', 'a', 'A', 'A', 'd', 'd', 'D', 'D', 'k', 'k', 'h', 'H', 'o', 'O', 'z', 'W', 'E', 'N', 'L', 'l', 'T', 'P', 'G'];

fn gen_pre(rng: &mut Rng) -> String {
    let n = rng.range(1, 5);
    let behs: String = (0..n).map(|_| *rng.pick(BEHS)).collect();
    format!(
        "pre seed={} j={} flag={} u={} behs={}",
        rng.below(1 << 30),
        if rng.chance(1, 2) { 1 } else { 4 },
        rng.pick(&["none", "none", "m1", "l", "q"]),
        rng.chance(1, 3) as u8,
        behs
    )
}

fn flag_args(flag: &str) -> Vec<&'static str> {
    match flag {
        "m1" => vec!["-m1"],
        "l" => vec!["-l"],
        "q" => vec!["-q"],
        _ => vec![],
    }
}

/// Lines of `out` that belong to file `name` (`t/<name>:…` or the bare path for -l).
fn lines_of(out: &[u8], name: &str) -> Vec<Vec<u8>> {
    let p1 = format!("t/{}:", name).into_bytes();
    let p2 = format!("t/{}", name).into_bytes();
    let p3 = format!("t/{}-", name).into_bytes();
    out.split(|&b| b == b'\n')
        .filter(|l| l.starts_with(&p1) || *l == &p2[..] || l.starts_with(&p3) || (l.starts_with(b"Binary file") && contains(l, &p2)))
        .map(|l| l.to_vec())
        .collect()
}

fn contains(h: &[u8], n: &[u8]) -> bool {
    !n.is_empty() && h.windows(n.len()).any(|w| w == n)
}

/// Expected verdict for one file.
#[derive(Clone, Copy, PartialEq, Debug)]
enum Verdict {
    Ok,
    Err,
    Either,
}

struct FileSpec {
    name: String,
    /// stdout / exit status / stderr of the command when the harness runs it to the end
    out: Vec<u8>,
    success: bool,
    stderr_empty: bool,
    /// rg certainly stops reading long before the end of `out` under an early-stop flag
    huge_after_match: bool,
    /// first line of what the command writes to stderr when left alone
    stderr_line: String,
    /// rg may stop reading this file's command early (early-stop flag and a match, or binary detection)
    stops_early: bool,
}

/// The model's decision for one file: `consume` (read script, stop) then `search_preprocessor`, for every
/// combination of "rg saw EOF or not" and "the child ran to its own end or was killed by SIGPIPE" that the
/// case allows.  One answer ⇒ determined, otherwise `Either`.
fn verdict_model(fs: &FileSpec, flag: &str, has_match: bool, binary_stop: bool, drv: &mut Driver) -> Verdict {
    let stops_early = (flag != "none" && has_match) || binary_stop;
    let stderr = if fs.stderr_empty { "-" } else { "65" };
    let mut ask = |success: bool, eof: bool| -> bool {
        let child = format!("(child {} {})", if success { "ok" } else { "fail" }, stderr);
        let (reads, stop) = if eof { (if fs.out.is_empty() { "" } else { "1 1" }, "-") } else { ("1 1", "1") };
        let r = drv.ask(&format!("c18.consume {} (reads {}) {}", child, reads, stop));
        let close = if r.contains("readerr 1") || r.ends_with("close err") { "err" } else { "ok" };
        drv.ask(&format!("c18.pre 1 1 ok {}", close)) == "err"
    };
    let mut answers: Vec<bool> = vec![];
    if !stops_early {
        answers.push(ask(fs.success, true));
    } else if fs.huge_after_match {
        // the child is certainly still writing when rg closes the pipe: it dies of SIGPIPE (or fails later on its own)
        answers.push(ask(false, false));
    } else {
        answers.push(ask(fs.success, true));
        if !fs.out.is_empty() {
            answers.push(ask(fs.success, false));
            answers.push(ask(false, false));
        }
    }
    if answers.iter().all(|a| *a) { Verdict::Err } else if answers.iter().all(|a| !*a) { Verdict::Ok } else { Verdict::Either }
}

/// The contract's decision: a command that succeeds when left alone is never an error (if it dies, it is
/// because rg stopped reading); one that fails on its own is an error once its output was consumed, is not
/// when rg certainly stopped early and it stayed silent, and is left open otherwise.
fn verdict_spec(fs: &FileSpec, flag: &str, has_match: bool, binary_stop: bool) -> Verdict {
    let stops_early = (flag != "none" && has_match) || binary_stop;
    if fs.success {
        Verdict::Ok
    } else if !stops_early || fs.out.is_empty() {
        Verdict::Err
    } else if fs.huge_after_match && fs.stderr_empty {
        Verdict::Ok
    } else {
        Verdict::Either
    }
}

/// Shared evaluation of a run of rg over `t/` against the mirror run.
#[allow(clippy::too_many_arguments)]
fn judge(
    case: &str, what: &str, files: &[FileSpec], verdicts: &[Verdict], mverdicts: &[Verdict], flag: &str, out: &RunOut, reference: &RunOut,
    class_of: &dyn Fn(&str) -> &'static str, check_exit: bool, ml: bool, rep: &mut Report,
) {
    let se = out.stderr_str();
    let mut problems: Vec<(String, &'static str)> = vec![];
    let mut mproblems: Vec<String> = vec![];
    if out.timed_out {
        problems.push((format!("rg did not terminate within {:?} (twice: re-run with a doubled limit) (a child blocked on a full stderr pipe?)", WATCHDOG), ""));
        HUNG.store(true, std::sync::atomic::Ordering::SeqCst);
    }
    let mut any_err = false;
    for ((fs, v), mv) in files.iter().zip(verdicts).zip(mverdicts) {
        let named = se.lines().any(|l| l.contains(&format!("t/{}:", fs.name)) || l.contains(&format!("t/{} ", fs.name)) || l.ends_with(&format!("t/{}", fs.name)));
        let named = named || se.contains(&format!("t/{}", fs.name));
        if named { any_err = true; }
        // class stopped-early-command-with-stderr-output-is-reported-as-failed — mechanism test, all in this very
        // case: the command succeeds when left alone, it writes to stderr, rg may stop reading it early (early-stop
        // flag with a match, or binary detection), the model's close() can then fail (its verdict is not Ok), and the
        // diagnostic rg printed for this file carries the command's own stderr line (close() took the "stderr is
        // not empty" branch)
        // (its beginning: a command that is killed early may not get to write all of it)
        let head: String = fs.stderr_line.trim().chars().take(40).collect();
        let diag_has_stderr = !head.is_empty() && se.contains(&head);
        let mechanism = *v == Verdict::Ok && *mv != Verdict::Ok && fs.success && !fs.stderr_empty && fs.stops_early && named && diag_has_stderr;
        let class = if mechanism { CLASS_STDERR_EARLY } else { class_of(&fs.name) };
        if *v == Verdict::Ok && named {
            rep.branch(&format!("class:{}:{}", CLASS_STDERR_EARLY, if mechanism { "attributed" } else { "mechanism-absent" }));
        }
        match v {
            Verdict::Err if !named && flag != "q" => problems.push((format!("{}: the command failed but no error names the file", fs.name), class)),
            Verdict::Ok if named => problems.push((format!("{}: an error is reported although the command succeeds when left alone (it was only stopped early): {}", fs.name,
                se.lines().find(|l| l.contains(&fs.name)).unwrap_or("")), class)),
            _ => {}
        }
        match mv {
            Verdict::Err if !named && flag != "q" => mproblems.push(format!("{}: the model reports an error, rg does not", fs.name)),
            Verdict::Ok if named => mproblems.push(format!("{}: rg reports an error, the model does not", fs.name)),
            _ => {}
        }
        // results: exactly those of searching the command's stdout — also for a file whose command failed
        // (what it wrote before failing was searched; both drivers print it since 1ed0364)
        // (multi-line: the whole output is read before anything is searched, so a failing command — its error
        // arrives with the end of its output — yields no results at all: left open by the property)
        if flag != "q" && !(ml && named) {
            let got = lines_of(&out.stdout, &fs.name);
            let want = lines_of(&reference.stdout, &fs.name);
            // a failing command whose output does not end in a line terminator: the error arrives before the
            // end of input is known, so the last, unterminated line is never searched — a prefix is owed
            let unterminated_failure = named && !fs.out.is_empty() && fs.out.last() != Some(&b'\n');
            let ok = if unterminated_failure { want.starts_with(&got) } else { got == want };
            if !ok {
                problems.push((format!("{}: results differ from searching the command's output: got {:?} want {:?}", fs.name,
                    got.iter().take(4).map(|l| show(&l[..l.len().min(80)])).collect::<Vec<_>>(),
                    want.iter().take(4).map(|l| show(&l[..l.len().min(80)])).collect::<Vec<_>>()), class_of(&fs.name)));
            }
        }
    }
    // exit status: 2 exactly when an error was reported (quiet: a match wins)
    let all_determined = verdicts.iter().all(|v| *v != Verdict::Either) && !any_err;
    let owed_err = verdicts.iter().any(|v| *v == Verdict::Err);
    if !check_exit {
    } else if flag != "q" {
        if any_err != (out.exit() == 2) {
            problems.push((format!("exit status {} with{} error diagnostics", out.exit(), if any_err { "" } else { "out" }), ""));
        }
        if all_determined && !owed_err && out.exit() != reference.exit() {
            problems.push((format!("exit status {} but searching the commands' output gives {}", out.exit(), reference.exit()), ""));
        }
    } else if all_determined && !owed_err && out.exit() != reference.exit() {
        problems.push((format!("exit status {} but searching the commands' output gives {} (--quiet)", out.exit(), reference.exit()), ""));
    }
    if !mproblems.is_empty() {
        rep.violation(Violation {
            kind: "impl_vs_model".into(), class: "".into(),
            tie: format!("{}: per-file error verdict vs Model.Process.consume/searchPreprocessor (theorems close_table, result_kept_iff_close_ok)", what),
            case: case.to_string(),
            detail: format!("{} | rg exit {} stderr {}", mproblems.join("; "), out.exit(), show(&out.stderr[..out.stderr.len().min(300)])),
        });
    }
    for (p, class) in problems {
        rep.violation(Violation {
            kind: "impl_vs_spec".into(), class: class.to_string(),
            tie: format!("{}: results = results of searching the command's stdout; failures surface with exit 2", what),
            case: case.to_string(),
            detail: format!("{} | rg exit {} stderr {}", p, out.exit(), show(&out.stderr[..out.stderr.len().min(300)])),
        });
    }
}

fn run_pre(case: &str, ctx: &mut Ctx, drv: &mut Driver, rep: &mut Report) {
    let f = fields(case);
    let (Some(seed), Some(j), Some(flag), Some(behs)) = (f.get("seed").and_then(|v| v.parse::<u64>().ok()), f.get("j"), f.get("flag"), f.get("behs")) else {
        rep.notes.push(format!("unparsable case: {}", case));
        return;
    };
    let behs: Vec<char> = behs.chars().collect();
    rep.eval();
    ctx.counter += 1;
    let dir = fresh_dir(&ctx.scratch, &format!("p{}", ctx.counter));
    let t = dir.join("t");
    let mirror = dir.join("mirror");
    std::fs::create_dir_all(&t).unwrap();
    std::fs::create_dir_all(mirror.join("t")).unwrap();
    // the preprocessor: dispatch on the file name
    let mut body = String::from("case \"$1\" in\n");
    for (i, b) in behs.iter().enumerate() {
        body.push_str(&format!("  *f{}.txt) {} ;;\n", i, beh_script(*b)));
    }
    body.push_str("  *) cat ;;\nesac");
    let script = dir.join("pre.sh");
    write_script(&script, &body);
    let mut files: Vec<FileSpec> = vec![];
    for (i, b) in behs.iter().enumerate() {
        let name = format!("f{}.txt", i);
        let p = t.join(&name);
        std::fs::write(&p, file_lines(seed, i).join("\n") + "\n").unwrap();
        // what the command writes, by running it ourselves
        let mut c = Command::new(&script);
        c.arg(format!("t/{}", name)).current_dir(&dir);
        let input = std::fs::read(&p).unwrap();
        let o = run_cmd(&mut c, Some(&input));
        std::fs::write(mirror.join("t").join(&name), &o.stdout).unwrap();
        files.push(FileSpec {
            name,
            success: o.code == Some(0),
            stderr_empty: o.stderr.is_empty(),
            huge_after_match: matches!(b, 'h' | 'H' | 'o' | 'O' | 'z'),
            stderr_line: String::from_utf8_lossy(&o.stderr).lines().next().unwrap_or("").to_string(),
            stops_early: false,
            out: o.stdout,
        });
        rep.branch(&format!("pre:beh:{}", b));
    }
    let base = ["--color", "never", "--no-config", "--no-heading", "--with-filename", "--no-line-number", "--no-mmap"];
    let mut cmd = Command::new(&ctx.rg);
    // u=1: multi-line search (-U with a pattern that may match the line terminator): every file's command output is
    // read to its end into the searcher's (reused) buffer before it is searched, so nothing stops early
    let u = f.get("u").map_or(false, |v| v == "1");
    let (uargs, pattern): (Vec<&str>, &str) = if u { (vec!["-U"], "needle[^\\n]*\\n?") } else { (vec![], "needle") };
    if u { rep.branch("pre:multi-line"); }
    cmd.current_dir(&dir).args(base).arg(format!("-j{}", j)).args(flag_args(flag)).args(&uargs).arg("--pre").arg(&script).arg(pattern).arg("t");
    let out = run_cmd(&mut cmd, None);
    let mut rcmd = Command::new(&ctx.rg);
    rcmd.current_dir(&mirror).args(base).arg(format!("-j{}", j)).args(flag_args(flag)).args(&uargs).arg(pattern).arg("t");
    let reference = run_cmd(&mut rcmd, None);
    let mut verdicts: Vec<Verdict> = vec![];
    let mut mverdicts: Vec<Verdict> = vec![];
    let flag_v: &str = if u { "none" } else { flag }; // for the early-stop reasoning only
    for fs in files.iter_mut() {
        let has_match = contains(&fs.out, b"needle");
        let binary_stop = fs.out.contains(&0);
        let binary_stop = binary_stop && !u;
        fs.stops_early = (flag_v != "none" && has_match) || binary_stop;
        let fs = &*fs;
        mverdicts.push(verdict_model(fs, flag_v, has_match, binary_stop, drv));
        verdicts.push(verdict_spec(fs, flag_v, has_match, binary_stop));
    }
    for (v, mv) in verdicts.iter().zip(&mverdicts) {
        rep.branch(&format!("pre:verdict:spec-{:?}:model-{:?}", v, mv));
    }
    rep.branch(&format!("pre:flag:{}", flag));
    if verdicts.iter().any(|v| *v == Verdict::Err) && verdicts.iter().any(|v| *v == Verdict::Ok) {
        rep.nontrivial(case);
    }
    judge(case, "rg --pre", &files, &verdicts, &mverdicts, flag, &out, &reference, &|_| "", true, u, rep);
    remove_tree(&dir);
}

/// stdin is not a named file: neither --pre nor -z applies to it (it is "not selected / not recognised": searched directly)
fn run_stdin(case: &str, ctx: &mut Ctx, rep: &mut Report) {
    let f = fields(case);
    let (Some(seed), Some(z), Some(pre), Some(fmt)) = (f.get("seed").and_then(|v| v.parse::<u64>().ok()), f.get("z"), f.get("pre"), f.get("fmt")) else {
        rep.notes.push(format!("unparsable case: {}", case));
        return;
    };
    rep.eval();
    ctx.counter += 1;
    let dir = fresh_dir(&ctx.scratch, &format!("i{}", ctx.counter));
    let text: String = file_lines(seed, 0).join("\n") + "\n";
    std::fs::write(dir.join("plain.txt"), &text).unwrap();
    let bytes: Vec<u8> = if fmt == "gz" {
        let mut c = Command::new("gzip");
        c.current_dir(&dir).args(["-c", "plain.txt"]);
        run_cmd(&mut c, None).stdout
    } else {
        text.clone().into_bytes()
    };
    let script = dir.join("pre.sh");
    write_script(&script, "echo 'needle made up by the preprocessor'");
    let mk = |with: bool| {
        let mut c = Command::new(&ctx.rg);
        c.current_dir(&dir).args(["--color", "never", "--no-config", "-a", "-c"]);
        if with && z == "1" { c.arg("-z"); }
        if with && pre == "1" { c.arg("--pre").arg(&script); }
        c.args(["needle", "-"]);
        c
    };
    let reference = run_cmd(&mut mk(false), Some(&bytes));
    let out = run_cmd(&mut mk(true), Some(&bytes));
    rep.branch(&format!("stdin:z{}:pre{}:{}", z, pre, fmt));
    rep.nontrivial(case);
    if out.stdout != reference.stdout || out.exit() != reference.exit() || !out.stderr.is_empty() {
        rep.violation(Violation {
            kind: "impl_vs_spec".into(), class: "".into(),
            tie: "stdin is searched directly: --pre / -z apply to named files only".into(),
            case: case.to_string(),
            detail: format!("with the flags: {} (exit {}, stderr {}); without: {} (exit {})", show(&out.stdout), out.exit(), show(&out.stderr[..out.stderr.len().min(120)]), show(&reference.stdout), reference.exit()),
        });
    }
    remove_tree(&dir);
}

fn run_premissing(case: &str, ctx: &mut Ctx, drv: &mut Driver, rep: &mut Report) {
    let f = fields(case);
    let kind = f.get("kind").cloned().unwrap_or_default();
    let j = f.get("j").cloned().unwrap_or("1".into());
    rep.eval();
    ctx.counter += 1;
    let dir = fresh_dir(&ctx.scratch, &format!("m{}", ctx.counter));
    std::fs::create_dir_all(dir.join("t")).unwrap();
    std::fs::write(dir.join("t/a.txt"), "needle a\n").unwrap();
    std::fs::write(dir.join("t/b.txt"), "needle b\n").unwrap();
    let pre: PathBuf = match kind.as_str() {
        "absent" => dir.join("no-such-command"),
        "directory" => dir.join("t"),
        "notexec" => {
            let p = dir.join("plain.sh");
            std::fs::write(&p, "#!/bin/sh\ncat\n").unwrap();
            chmod(&p, 0o644);
            p
        }
        _ => {
            rep.notes.push(format!("unparsable case: {}", case));
            return;
        }
    };
    let mut cmd = Command::new(&ctx.rg);
    cmd.current_dir(&dir).args(["--color", "never", "--no-config"]).arg(format!("-j{}", j)).arg("--pre").arg(&pre).arg("needle").arg("t");
    if kind == "notexec" && is_root() {
        drop_privs(&mut cmd); // root may still not exec a 0644 file, but keep the case honest
    }
    let out = run_cmd(&mut cmd, None);
    let model = drv.ask("c18.pre 1 0 ok ok");
    rep.branch(&format!("premissing:{}", kind));
    rep.nontrivial(case);
    let se = out.stderr_str();
    let ok = out.exit() == 2 && se.contains("t/a.txt") && se.contains("t/b.txt") && out.stdout.is_empty() && !out.timed_out;
    if model != "err" {
        rep.violation(Violation { kind: "model_vs_spec".into(), class: "".into(), tie: "theorem pre_spawn_failure_is_error".into(), case: case.to_string(), detail: model });
    }
    if !ok {
        rep.violation(Violation {
            kind: "impl_vs_spec".into(), class: "".into(),
            tie: "a preprocessor that cannot be started: an error naming each file, exit 2".into(),
            case: case.to_string(),
            detail: format!("rg exit {} stdout {} stderr {}", out.exit(), show(&out.stdout), show(&out.stderr[..out.stderr.len().min(400)])),
        });
    }
    remove_tree(&dir);
}

// ------------------------------------------------------------------ -z

const ZKINDS: &[char] = &['g', 'b', 'x', 'G', 'B', 'X', 'c', 'p', 'n', 'u', 'Z', 'e', 'g', 'x', 'a', 'q', 'w', 'm', 'U', 'd', 'C', 'K', 'r', 'E'];

fn gen_z(rng: &mut Rng) -> String {
    let n = rng.range(1, 5);
    let kinds: String = (0..n).map(|_| *rng.pick(ZKINDS)).collect();
    format!("z seed={} j={} flag={} u={} kinds={}", rng.below(1 << 30), if rng.chance(1, 2) { 1 } else { 4 }, rng.pick(&["none", "none", "m1", "l"]), rng.chance(1, 3) as u8, kinds)
}

fn compress(tool: &str, data: &[u8]) -> Vec<u8> {
    let mut c = Command::new(tool);
    c.arg("-c");
    run_cmd(&mut c, Some(data)).stdout
}

fn run_z(case: &str, ctx: &mut Ctx, drv: &mut Driver, rep: &mut Report) {
    let f = fields(case);
    let (Some(seed), Some(j), Some(flag), Some(kinds)) = (f.get("seed").and_then(|v| v.parse::<u64>().ok()), f.get("j"), f.get("flag"), f.get("kinds")) else {
        rep.notes.push(format!("unparsable case: {}", case));
        return;
    };
    let kinds: Vec<char> = kinds.chars().collect();
    let u = f.get("u").map_or(false, |v| v == "1");
    let flag_v: &str = if u { "none" } else { flag };
    if kinds.contains(&'Z') && ctx.have_zstd {
        rep.notes.push("zstd is installed: the missing-decompressor kind is skipped".into());
        return;
    }
    rep.eval();
    ctx.counter += 1;
    let dir = fresh_dir(&ctx.scratch, &format!("z{}", ctx.counter));
    let t = dir.join("t");
    let mirror = dir.join("mirror");
    std::fs::create_dir_all(&t).unwrap();
    std::fs::create_dir_all(mirror.join("t")).unwrap();
    let mut files: Vec<FileSpec> = vec![];
    let mut verdicts: Vec<Verdict> = vec![];
    let mut mverdicts: Vec<Verdict> = vec![];
    let mut zfallback: BTreeSet<String> = BTreeSet::new();
    for (i, k) in kinds.iter().enumerate() {
        let mut lines = file_lines(seed, i);
        if matches!(k, 'G' | 'B' | 'X') {
            // long enough that cutting the compressed file loses data
            for r in 0..400 { lines.push(format!("filler {} {} of f{}", r, (seed >> (r % 13)) & 0xfff, i)); }
            lines.push(format!("needle at the very end of f{}", i));
        }
        let text = (lines.join("\n") + "\n").into_bytes();
        let (name, bytes, tool): (String, Vec<u8>, Option<&str>) = match k {
            'g' => (format!("f{}.gz", i), compress("gzip", &text), Some("gzip")),
            'b' => (format!("f{}.bz2", i), compress("bzip2", &text), Some("bzip2")),
            'x' => (format!("f{}.xz", i), compress("xz", &text), Some("xz")),
            'G' => { let c = compress("gzip", &text); (format!("f{}.gz", i), c[..c.len() * 2 / 3].to_vec(), Some("gzip")) }
            'B' => { let c = compress("bzip2", &text); (format!("f{}.bz2", i), c[..c.len() * 2 / 3].to_vec(), Some("bzip2")) }
            'X' => { let c = compress("xz", &text); (format!("f{}.xz", i), c[..c.len() * 2 / 3].to_vec(), Some("xz")) }
            'c' => { let mut c = compress("gzip", &text); let m = c.len() / 2; c[m] ^= 0x55; (format!("f{}.gz", i), c, Some("gzip")) }
            'e' => (format!("f{}.gz", i), vec![], Some("gzip")),
            // the alias extensions of the table: one real round trip each
            'a' => (format!("f{}.tgz", i), compress("gzip", &text), Some("gzip")),
            'q' => (format!("f{}.tbz2", i), compress("bzip2", &text), Some("bzip2")),
            'w' => (format!("f{}.txz", i), compress("xz", &text), Some("xz")),
            'm' => {
                let mut c = Command::new("xz");
                c.args(["--format=lzma", "-c"]);
                (format!("f{}.lzma", i), run_cmd(&mut c, Some(&text)).stdout, Some("xz"))
            }
            'p' => (format!("f{}.txt", i), text.clone(), None),
            'n' => (format!("f{}.gz.txt", i), text.clone(), None),
            // suffix in upper case: the globs are case sensitive, the file is searched as it is
            'U' => (format!("f{}.GZ", i), compress("gzip", &text), None),
            // double suffix
            'd' => (format!("f{}.tar.gz", i), compress("gzip", &text), Some("gzip")),
            // several compressed members / streams in one file
            'C' => { let mut c = compress("gzip", &text); c.extend(compress("gzip", b"needle in the second member\n")); (format!("f{}.gz", i), c, Some("gzip")) }
            'K' => { let mut c = compress("xz", &text); c.extend(compress("xz", b"needle in the second stream\n")); (format!("f{}.xz", i), c, Some("xz")) }
            // trailing garbage after the compressed data
            'r' => { let mut c = compress("gzip", &text); c.extend(b"trailing garbage"); (format!("f{}.gz", i), c, Some("gzip")) }
            // empty files with the other suffixes
            'E' => (format!("f{}.{}", i, if i % 2 == 0 { "xz" } else { "bz2" }), vec![], Some(if i % 2 == 0 { "xz" } else { "bzip2" })),
            'u' => (format!("f{}.bin", i), compress("gzip", &text), None),
            _ => (format!("f{}.zst", i), text.clone(), None), // 'Z': recognised, but zstd is not installed
        };
        std::fs::write(t.join(&name), &bytes).unwrap();
        rep.branch(&format!("z:kind:{}", k));
        let mut fs = match tool {
            Some(tool) => {
                // the command the model's rule table gives for this name (program and arguments)
                let line = drv.ask(&format!("c18.command {}", hex(name.as_bytes())));
                let toks: Vec<&str> = line.split(' ').collect();
                if toks.first().map_or(true, |t| *t != tool) {
                    rep.violation(Violation { kind: "model_vs_spec".into(), class: "".into(), tie: "Model.Process.decompCommand".into(), case: case.to_string(),
                        detail: format!("{}: the model's rule table answers {:?}, the harness created the file with {}", name, line, tool) });
                }
                let mut c = Command::new(toks[0]);
                c.args(&toks[1..]).arg(format!("t/{}", name)).current_dir(&dir);
                let o = run_cmd(&mut c, None);
                FileSpec { name: name.clone(), success: o.code == Some(0), stderr_empty: o.stderr.is_empty(), huge_after_match: false, stderr_line: String::from_utf8_lossy(&o.stderr).lines().next().unwrap_or("").to_string(), stops_early: false, out: o.stdout }
            }
            None => FileSpec { name: name.clone(), success: true, stderr_empty: true, huge_after_match: false, stderr_line: String::new(), stops_early: false, out: bytes.clone() },
        };
        std::fs::write(mirror.join("t").join(&name), &fs.out).unwrap();
        let v = if *k == 'Z' {
            // the contract: a command that cannot be started is an error
            let d = drv.ask("c18.decomp 1 0 1 ok ok");
            if d != "reader:passthru ok" {
                rep.violation(Violation { kind: "model_vs_spec".into(), class: "".into(), tie: "theorem decompress_spawn_failure_falls_back".into(), case: case.to_string(), detail: d });
            }
            zfallback.insert(name.clone());
            mverdicts.push(Verdict::Ok);
            Verdict::Err
        } else if tool.is_some() {
            let has_match = contains(&fs.out, b"needle");
            let bstop = fs.out.contains(&0) && !u;
            fs.stops_early = (flag_v != "none" && has_match) || bstop;
            mverdicts.push(verdict_model(&fs, flag_v, has_match, bstop, drv));
            verdict_spec(&fs, flag_v, has_match, bstop)
        } else {
            mverdicts.push(Verdict::Ok);
            Verdict::Ok
        };
        verdicts.push(v);
        files.push(fs);
    }
    let base = ["--color", "never", "--no-config", "--no-heading", "--with-filename", "--no-line-number", "--no-mmap"];
    let mut cmd = Command::new(&ctx.rg);
    let (uargs, pattern): (Vec<&str>, &str) = if u { (vec!["-U"], "needle[^\\n]*\\n?") } else { (vec![], "needle") };
    if u { rep.branch("z:multi-line"); }
    cmd.current_dir(&dir).args(base).arg(format!("-j{}", j)).args(flag_args(flag)).args(&uargs).arg("-z").arg(pattern).arg("t");
    let out = run_cmd(&mut cmd, None);
    let mut rcmd = Command::new(&ctx.rg);
    rcmd.current_dir(&mirror).args(base).arg(format!("-j{}", j)).args(flag_args(flag)).args(&uargs).arg(pattern).arg("t");
    let reference = run_cmd(&mut rcmd, None);
    for v in &verdicts { rep.branch(&format!("z:verdict:{:?}", v)); }
    if verdicts.iter().any(|v| *v == Verdict::Err) && verdicts.iter().any(|v| *v == Verdict::Ok) { rep.nontrivial(case); }
    // a decompressor that cannot be started: the model (and the code) fall back to the raw file
    let zf = zfallback.clone();
    let class_of = move |name: &str| -> &'static str { let _ = (&zf, name); "" };
    if !zfallback.is_empty() {
        // with a fallback file in the run the exit status / diagnostics are judged per file only
        let se = out.stderr_str();
        for fs in files.iter().filter(|fs| zfallback.contains(&fs.name)) {
            let named = se.contains(&format!("t/{}", fs.name));
            let raw_results = lines_of(&out.stdout, &fs.name) == lines_of(&reference.stdout, &fs.name);
            // class decompressor-missing-falls-back-to-raw — mechanism test: the rule table names a program for this
            // file, that program is not installed here, no error names the file, and its results are exactly those
            // of searching the raw file
            let cmdline = drv.ask(&format!("c18.command {}", hex(fs.name.as_bytes())));
            let prog = cmdline.split(' ').next().unwrap_or("-").to_string();
            let prog_missing = prog != "-" && {
                let mut c = Command::new("sh");
                c.args(["-c", &format!("command -v {}", prog)]);
                run_cmd(&mut c, None).code != Some(0)
            };
            let mechanism = prog_missing && !named && raw_results;
            if !named {
                rep.branch(&format!("class:{}:{}", CLASS_ZFALLBACK, if mechanism { "attributed" } else { "mechanism-absent" }));
                rep.violation(Violation {
                    kind: "impl_vs_spec".into(), class: (if mechanism { CLASS_ZFALLBACK } else { "" }).into(),
                    tie: "rg -z: a decompression command that cannot be started".into(), case: case.to_string(),
                    detail: format!("{}: zstd is not installed, yet no error is reported; the raw file is searched instead (results equal raw search: {})", fs.name, raw_results),
                });
            }
            if !raw_results && !named {
                rep.violation(Violation {
                    kind: "impl_vs_model".into(), class: "".into(),
                    tie: "DecompressionReaderBuilder::build falls back to the raw file (Model.Process.decompBuild)".into(), case: case.to_string(),
                    detail: format!("{}: neither an error nor the raw file's results", fs.name),
                });
            }
        }
        let keep: Vec<usize> = (0..files.len()).filter(|i| !zfallback.contains(&files[*i].name)).collect();
        let files2: Vec<FileSpec> = keep.iter().map(|i| FileSpec { name: files[*i].name.clone(), out: files[*i].out.clone(), success: files[*i].success, stderr_empty: files[*i].stderr_empty, huge_after_match: false, stderr_line: files[*i].stderr_line.clone(), stops_early: files[*i].stops_early }).collect();
        let verdicts2: Vec<Verdict> = keep.iter().map(|i| verdicts[*i]).collect();
        let mverdicts2: Vec<Verdict> = keep.iter().map(|i| mverdicts[*i]).collect();
        // the whole-run exit status is not compared here (the fallback file contributes matches of its own)
        judge(case, "rg -z", &files2, &verdicts2, &mverdicts2, flag, &out, &reference, &class_of, false, u, rep);
    } else {
        judge(case, "rg -z", &files, &verdicts, &mverdicts, flag, &out, &reference, &class_of, true, u, rep);
    }
    remove_tree(&dir);
}

// ------------------------------------------------------------------ selection

const GLOBSETS: &[&str] = &["-", "*.txt", "!*.log", "*.txt,!a.txt", "!a.txt,*.txt", "*.gz", "!*.gz", "*.log,*.dat", "!*.txt,!*.log", "a.txt", "*.txt,!*.txt", "!*.txt,*.txt"];

fn gen_sel(rng: &mut Rng) -> String {
    format!(
        "sel globs={} pre={} z={} zlast={} j={}",
        rng.pick(GLOBSETS),
        rng.chance(4, 5) as u8,
        rng.chance(1, 2) as u8,
        rng.chance(1, 2) as u8,
        if rng.chance(1, 2) { 1 } else { 4 }
    )
}

fn glob_hit(glob: &str, name: &str) -> bool {
    match glob.strip_prefix('*') {
        Some(suffix) => name.ends_with(suffix),
        None => glob == name,
    }
}

fn run_sel(case: &str, ctx: &mut Ctx, drv: &mut Driver, rep: &mut Report) {
    let f = fields(case);
    let (Some(globs), Some(pre), Some(z), Some(j)) = (f.get("globs"), f.get("pre"), f.get("z"), f.get("j")) else {
        rep.notes.push(format!("unparsable case: {}", case));
        return;
    };
    let zlast = f.get("zlast").map_or(true, |v| v == "1");
    rep.eval();
    ctx.counter += 1;
    let dir = fresh_dir(&ctx.scratch, &format!("s{}", ctx.counter));
    let t = dir.join("t");
    std::fs::create_dir_all(&t).unwrap();
    // F.TXT / g.GZ differ from the globs (*.txt, *.gz) only by case: globs are case sensitive
    let names = ["a.txt", "b.log", "c.txt.gz", "d.dat", "e.gz", "F.TXT", "g.GZ"];
    for n in names {
        let text = format!("needle direct {}\n", n).into_bytes();
        let bytes = if n.ends_with(".gz") { compress("gzip", format!("needle unzipped {}\n", n).as_bytes()) } else { text };
        std::fs::write(t.join(n), bytes).unwrap();
    }
    let script = dir.join("pre.sh");
    write_script(&script, "printf 'needle PRE %s\\n' \"$(basename \"$1\")\"");
    let globs: Vec<String> = if globs == "-" { vec![] } else { globs.split(',').map(|s| s.to_string()).collect() };
    let mut cmd = Command::new(&ctx.rg);
    cmd.current_dir(&dir).args(["--color", "never", "--no-config", "--no-heading", "--with-filename", "--no-line-number", "-a"]).arg(format!("-j{}", j));
    if z == "1" && !zlast { cmd.arg("-z"); }
    if pre == "1" { cmd.arg("--pre").arg(&script); }
    for g in &globs { cmd.arg("--pre-glob").arg(g); }
    if z == "1" && zlast { cmd.arg("-z"); }
    cmd.arg("needle").arg("t");
    // flag parsing (defs.rs, not modelled): --pre and -z switch each other off, the later one wins
    let (pre, z) = if pre == "1" && z == "1" { if zlast { ("0", "1") } else { ("1", "0") } } else { (pre.as_str(), z.as_str()) };
    let out = run_cmd(&mut cmd, None);
    let so = out.stdout_str();
    let mut problems_m = vec![];
    let mut problems_s = vec![];
    for n in names {
        let gsx: Vec<String> = globs.iter().map(|g| {
            let (neg, pat) = match g.strip_prefix('!') { Some(p) => (true, p), None => (false, g.as_str()) };
            format!("({} {})", neg as u8, glob_hit(pat, n) as u8)
        }).collect();
        let recognised = drv.ask(&format!("c18.recognised {}", hex(n.as_bytes())));
        let reply = drv.ask(&format!("c18.select (cfg 0 {} {} {}) (globs {})", pre, z, recognised, gsx.join(" ")));
        let parts: Vec<&str> = reply.split(' ').collect();
        if parts.len() != 4 {
            problems_m.push(format!("driver reply {}", reply));
            continue;
        }
        let (model, spec) = (parts[1], parts[3]);
        let observed = if so.contains(&format!("t/{}:needle PRE {}", n, n)) { "preprocessor" }
            else if so.contains(&format!("t/{}:needle unzipped {}", n, n)) { "decompress" }
            else if so.contains(&format!("t/{}:needle direct {}", n, n)) || (n.ends_with(".gz") && !so.contains(&format!("t/{}:", n))) { "direct" }
            else { "unknown" };
        rep.branch(&format!("sel:{}", observed));
        if observed != model { problems_m.push(format!("{}: searched via {}, model {}", n, observed, model)); }
        if observed != spec { problems_s.push(format!("{}: searched via {}, contract {}", n, observed, spec)); }
    }
    rep.nontrivial(case);
    if !problems_m.is_empty() {
        rep.violation(Violation {
            kind: "impl_vs_model".into(), class: "".into(), tie: "SearchWorker::search strategy vs Model.Process.select (theorem selection)".into(),
            case: case.to_string(), detail: format!("{} | stdout {}", problems_m.join("; "), show(so.as_bytes())),
        });
    }
    if !problems_s.is_empty() {
        rep.violation(Violation {
            kind: "impl_vs_spec".into(), class: "".into(), tie: "files not selected by --pre-glob / not recognised as compressed are searched directly".into(),
            case: case.to_string(), detail: format!("{} | stdout {}", problems_s.join("; "), show(so.as_bytes())),
        });
    }
    remove_tree(&dir);
}

// ------------------------------------------------------------------ pipe model replays

fn run_pipes(case: &str, drv: &mut Driver, rep: &mut Report) {
    let f = fields(case);
    let (Some(k), Some(asyn), Some(prog), Some(seed)) = (f.get("K").and_then(|v| v.parse::<usize>().ok()), f.get("async"), f.get("prog"), f.get("sched").and_then(|v| v.parse::<u64>().ok())) else {
        rep.notes.push(format!("unparsable case: {}", case));
        return;
    };
    rep.eval();
    let mut rng = Rng::new(seed);
    let n = prog.len();
    let mut sched: Vec<String> = vec![];
    for _ in 0..(4 * n + 8) {
        sched.push(match rng.below(10) {
            0..=3 => "c".to_string(),
            4 => "k".to_string(),
            5 | 6 => format!("r{}", rng.range(1, 3)),
            7 => if rng.chance(1, 6) { "x".to_string() } else { "c".to_string() },
            _ => format!("d{}", rng.range(1, 3)),
        });
    }
    let prog_sx: Vec<String> = prog.chars().map(|c| if c == 'e' { "1".to_string() } else { "0".to_string() }).collect();
    let reply = drv.ask(&format!("c18.pipes {} {} (prog {}) (sched {})", k, asyn, prog_sx.join(" "), sched.join(" ")));
    let done = reply.contains("done 1");
    let can = reply.contains("canstep 1");
    rep.branch(if done { "pipes:done" } else if can { "pipes:running" } else { "pipes:stuck" });
    if asyn == "1" && !done && !can {
        rep.violation(Violation {
            kind: "model_vs_spec".into(), class: "".into(), tie: "theorem async_stderr_no_deadlock".into(),
            case: case.to_string(), detail: format!("stuck state reached with the drainer: {}", reply),
        });
    }
    if !reply.starts_with("prog ") {
        rep.violation(Violation { kind: "model_vs_spec".into(), class: "".into(), tie: "driver protocol".into(), case: case.to_string(), detail: reply });
    }
}

fn gen_pipes(rng: &mut Rng) -> String {
    let n = rng.range(0, 12);
    let prog: String = (0..n).map(|_| if rng.chance(1, 2) { 'e' } else { 'o' }).collect();
    format!("pipes K={} async={} prog={} sched={}", rng.range(1, 3), rng.chance(3, 4) as u8, if prog.is_empty() { "o".to_string() } else { prog }, rng.below(1 << 30))
}

fn run_case(case: &str, ctx: &mut Ctx, drv: &mut Driver, rep: &mut Report) {
    if HUNG.load(std::sync::atomic::Ordering::SeqCst) {
        rep.branch("skipped-after-hang");
        return;
    }
    match case.split(' ').next() {
        Some("lib") => run_lib(case, drv, rep),
        Some("pre") => run_pre(case, ctx, drv, rep),
        Some("premissing") => run_premissing(case, ctx, drv, rep),
        Some("stdin") => run_stdin(case, ctx, rep),
        Some("z") => run_z(case, ctx, drv, rep),
        Some("sel") => run_sel(case, ctx, drv, rep),
        Some("pipes") => run_pipes(case, drv, rep),
        _ => rep.notes.push(format!("unparsable case: {}", case)),
    }
}

fn main() {
    let args = parse_args();
    let mut drv = Driver::spawn(&args.driver);
    let mut rep = Report::new(
        "C18",
        "lib: real sh children (0-300000 bytes of stdout, 0-4 MiB of stderr before/after, exit 0/1/3/255 or SIGKILL) read through \
         grep_cli::CommandReader to EOF or closed after 0-3 reads, sync and async stderr, read buffers 1-65536; pre: rg --pre with a \
         generated script whose behaviour per file is echo/transform/replace/small+4MiB+interleaved stderr/exit 3 before, during, \
         after output (silent or not)/SIGKILL after all or part of the output/SIGTERM/stdout closed long before a failing or succeeding exit/a grandchild that keeps the pipe open/output after a pause/stderr only/stdin never read/huge output after the first match/NUL byte, flags none,-m1,-l,-q, each also as a multi-line search (-U, pattern that may match the terminator: several files through the same worker's reused buffer), -j1/-j4, plus a \
         missing/non-executable/directory command; z: rg -z on gzip/bzip2/xz valid, truncated, corrupted, empty (gz/xz/bz2), several members per file, trailing garbage, double suffix .tar.gz, upper-case suffix .GZ, unrecognised names, the alias extensions .tgz .tbz2 .txz .lzma, \
         .zst without zstd (the reference command comes from the model's rule table); sel: 12 --pre-glob sets (with negations, in both orders) x --pre x -z on 5 files; stdin: gzip / plain text on stdin with and without -z / --pre (searched directly either way); pipes: random schedules of the two-pipe model. \
         Non-trivial: a failing and a succeeding command in the same run (pre, z), a failing child with output (lib), every sel case. \
         Excluded from comparison: the error verdict when rg may or may not have seen EOF \
         before stopping (small output with a match under -m1/-l/-q).",
    );
    let rg = args.rg.clone().expect("C18 needs --rg");
    let rg = std::fs::canonicalize(&rg).unwrap_or(rg);
    std::fs::create_dir_all(&args.scratch).expect("scratch");
    let have_zstd = {
        let mut c = Command::new("sh");
        c.args(["-c", "command -v zstd"]);
        run_cmd(&mut c, None).code == Some(0)
    };
    let mut ctx = Ctx { rg, scratch: args.scratch.clone(), counter: 0, have_zstd };
    for c in corpus_cases(&args) {
        run_case(&c, &mut ctx, &mut drv, &mut rep);
    }
    if args.replay.is_none() {
        let mut rng = Rng::new(args.seed);
        let n = args.cases.unwrap_or(if args.thorough { 5000 } else { 450 });
        for i in 0..n {
            let case = match i % 9 {
                0 | 1 => gen_lib(&mut rng),
                2 | 3 | 4 => gen_pre(&mut rng),
                5 | 6 => gen_z(&mut rng),
                7 => gen_sel(&mut rng),
                _ => gen_pipes(&mut rng),
            };
            if i < 9 { rep.sample(case.clone()); }
            run_case(&case, &mut ctx, &mut drv, &mut rep);
        }
        for k in 0..8u64 {
            run_case(&format!("stdin seed={} z={} pre={} fmt={}", rng.below(1 << 30), k & 1, (k >> 1) & 1, if k & 4 == 0 { "gz" } else { "txt" }), &mut ctx, &mut drv, &mut rep);
        }
        for kind in ["absent", "directory", "notexec"] {
            for j in [1, 4] {
                run_case(&format!("premissing kind={} j={}", kind, j), &mut ctx, &mut drv, &mut rep);
            }
        }
        // every glob set x pre x z (exhaustive for the sel grid)
        for g in GLOBSETS {
            for pre in 0..2 {
                for z in 0..2 {
                    for zlast in 0..2 {
                        run_case(&format!("sel globs={} pre={} z={} zlast={} j=1", g, pre, z, zlast), &mut ctx, &mut drv, &mut rep);
                    }
                }
            }
        }
    }
    let _ = (BTreeMap::<u8, u8>::new(), Path::new("/"));
    if watchdog_retries() > 0 {
        rep.branches.insert("watchdog-retries".to_string(), watchdog_retries());
        rep.notes.push(format!("{} child process(es) exceeded the {:?} watchdog and were re-run with twice the limit", watchdog_retries(), WATCHDOG));
    }
    rep.write(&args);
}
