//! C05 — which files are searched follows the documented precedence of filters.
//!
//! Per case: a tree `p2/p1/R/...` under `args.scratch` carrying any subset of the seven rule sources
//! (`.rgignore`, `.ignore`, `.gitignore`, `.git/info/exclude`, global gitignore, `--ignore-file`, `-g`) plus
//! `-t/-T/--type-add`, `.git` directories at depths -2…+3 relative to the search root, conflicting ignore /
//! whitelist lines, the flag set, the way the root is named (none, relative, absolute, plus an explicit file).
//!   impl_vs_model  `rg --files [flags]`  vs  Model.IgnoreDir.entryVisited (theorem C05 speaks about it)
//!   impl_vs_spec   `rg --files [flags]`  vs  the same decision with the documented re-basing of paths for
//!                  ignore files above the search root (class parent-ignore-rebased-path when it differs)
use rgverif_harness::*;
use std::collections::{BTreeMap, BTreeSet};
use std::path::{Path, PathBuf};
use std::process::Command;

const TIE: &str = "rg --files [flags] (ignore::dir::Ignore::matched_dir_entry, walk.rs skip_entry, hiargs.rs walk_builder) vs Model.IgnoreDir.entryVisited (theorems C05, source_order, flag_*)";
const TIE_DOC: &str = "rg --files [flags] vs the documented precedence with ignore files of parent directories applied to the entry's real path";

const FLAG_NAMES: [&str; 8] = [
    "--hidden",
    "--no-ignore-dot",
    "--no-ignore-exclude",
    "--no-ignore-files",
    "--no-ignore-global",
    "--no-ignore-parent",
    "--no-ignore-vcs",
    "--no-require-git",
];

#[derive(Clone, Debug, PartialEq, Eq, PartialOrd, Ord)]
enum Loc {
    P2,
    P1,
    R,
    Sub(Vec<u8>),
}

impl Loc {
    fn enc(&self) -> String {
        match self {
            Loc::P2 => "P2".into(),
            Loc::P1 => "P1".into(),
            Loc::R => "R".into(),
            Loc::Sub(p) => format!("S{}", hex(p)),
        }
    }
    fn dec(s: &str) -> Option<Loc> {
        match s {
            "P2" => Some(Loc::P2),
            "P1" => Some(Loc::P1),
            "R" => Some(Loc::R),
            _ => Some(Loc::Sub(unhex(s.strip_prefix('S')?)?)),
        }
    }
    fn abs(&self, base: &Path) -> PathBuf {
        use std::os::unix::ffi::OsStrExt;
        match self {
            Loc::P2 => base.join("p2"),
            Loc::P1 => base.join("p2/p1"),
            Loc::R => base.join("p2/p1/R"),
            Loc::Sub(p) => base.join("p2/p1/R").join(std::ffi::OsStr::from_bytes(p)),
        }
    }
}

#[derive(Clone, Debug)]
struct Case {
    flags: [bool; 8],
    unrestricted: usize, // 0..=2: additional -u's
    no_ignore: bool,
    mode: usize,
    j1: bool,
    entries: BTreeMap<Vec<u8>, bool>,
    rules: Vec<(Loc, usize, Vec<u8>)>, // kind 0 .rgignore 1 .ignore 2 .gitignore 3 .git/info/exclude
    dotgit: BTreeSet<Loc>,
    global: Option<Vec<u8>>,
    igfiles: Vec<Vec<u8>>,
    globs: Vec<String>,
    types: Vec<(bool, String)>,
    explicit: Option<Vec<u8>>,
    /// the explicitly named path is a FIFO (`mkfifo`) instead of a regular file
    explicit_fifo: bool,
    /// `/dev/null` (a character device) is named on the command line as well
    devnull: bool,
    /// when not empty: the filter switches exactly as written on the command line, in order, negations and
    /// repetitions included (tokens of the driver op `c05.flags`); replaces `flags` / `unrestricted` / `no_ignore`
    flagseq: Vec<String>,
    /// per entry of `globs`: 0 = `-g`, 2 = `--iglob` (command-line order is the order of `globs`)
    globkinds: Vec<u8>,
    /// `--glob-case-insensitive`
    gci: bool,
    /// the explicitly named path is a symbolic link to a regular file outside the tree
    explicit_symlink: bool,
    /// `--ignore-file-case-insensitive`
    ifci: bool,
    /// the global gitignore is named by `core.excludesFile = ~/…` in `$HOME/.gitconfig` instead of living at
    /// `$XDG_CONFIG_HOME/git/ignore`
    gl_cfg: bool,
}

const TOKS: [(&str, &str); 19] = [
    ("h1", "--hidden"), ("h0", "--no-hidden"), ("n1", "--no-ignore"), ("n0", "--ignore"),
    ("d1", "--no-ignore-dot"), ("d0", "--ignore-dot"), ("e1", "--no-ignore-exclude"), ("e0", "--ignore-exclude"),
    ("f1", "--no-ignore-files"), ("f0", "--ignore-files"), ("g1", "--no-ignore-global"), ("g0", "--ignore-global"),
    ("p1", "--no-ignore-parent"), ("p0", "--ignore-parent"), ("v1", "--no-ignore-vcs"), ("v0", "--ignore-vcs"),
    ("r1", "--no-require-git"), ("r0", "--require-git"), ("u", "-u"),
];

fn list_or_dash(v: Vec<String>) -> String {
    if v.is_empty() {
        "-".into()
    } else {
        v.join(",")
    }
}

impl Case {
    fn line(&self) -> String {
        let f: String = self.flags.iter().map(|b| if *b { '1' } else { '0' }).collect();
        format!(
            "walk F={} U={} N={} M={} J={} E={} R={} G={} GL={} IF={} GB={} TY={} X={} XF={} DN={} FS={} GK={} GCI={} XS={} IC={} GC={}",
            f,
            self.unrestricted,
            self.no_ignore as u8,
            self.mode,
            self.j1 as u8,
            list_or_dash(self.entries.iter().map(|(p, d)| format!("{}:{}", hex(p), if *d { "d" } else { "f" })).collect()),
            list_or_dash(self.rules.iter().map(|(l, k, c)| format!("{}:{}:{}", l.enc(), k, hex(c))).collect()),
            list_or_dash(self.dotgit.iter().map(|l| l.enc()).collect()),
            self.global.as_ref().map(|g| hex(g)).unwrap_or("~".into()),
            list_or_dash(self.igfiles.iter().map(|g| hex(g)).collect()),
            list_or_dash(self.globs.iter().map(|g| hex(g.as_bytes())).collect()),
            list_or_dash(self.types.iter().map(|(n, g)| format!("{}{}", *n as u8, hex(g.as_bytes()))).collect()),
            self.explicit.as_ref().map(|g| hex(g)).unwrap_or("~".into()),
            self.explicit_fifo as u8,
            self.devnull as u8,
            list_or_dash(self.flagseq.clone()),
            list_or_dash(self.globkinds.iter().map(|k| k.to_string()).collect()),
            self.gci as u8,
            self.explicit_symlink as u8,
            self.ifci as u8,
            self.gl_cfg as u8,
        )
    }
    fn parse(s: &str) -> Option<Case> {
        let mut kv: BTreeMap<&str, &str> = BTreeMap::new();
        let mut it = s.split_whitespace();
        if it.next()? != "walk" {
            return None;
        }
        for p in it {
            let (k, v) = p.split_once('=')?;
            kv.insert(k, v);
        }
        let items = |k: &str| -> Vec<&str> {
            let v = kv.get(k).copied().unwrap_or("-");
            if v == "-" {
                vec![]
            } else {
                v.split(',').collect()
            }
        };
        let fb = kv.get("F")?.as_bytes();
        if fb.len() != 8 {
            return None;
        }
        let mut flags = [false; 8];
        for i in 0..8 {
            flags[i] = fb[i] == b'1';
        }
        let mut entries = BTreeMap::new();
        for e in items("E") {
            let (p, k) = e.split_once(':')?;
            entries.insert(unhex(p)?, k == "d");
        }
        let mut rules = vec![];
        for r in items("R") {
            let parts: Vec<&str> = r.split(':').collect();
            if parts.len() != 3 {
                return None;
            }
            rules.push((Loc::dec(parts[0])?, parts[1].parse().ok()?, unhex(parts[2])?));
        }
        let mut dotgit = BTreeSet::new();
        for g in items("G") {
            dotgit.insert(Loc::dec(g)?);
        }
        let opt = |k: &str| -> Option<Option<Vec<u8>>> {
            let v = kv.get(k).copied().unwrap_or("~");
            if v == "~" {
                Some(None)
            } else {
                Some(Some(unhex(v)?))
            }
        };
        let mut types = vec![];
        for t in items("TY") {
            types.push((t.starts_with('1'), String::from_utf8(unhex(&t[1..])?).ok()?));
        }
        Some(Case {
            flags,
            unrestricted: kv.get("U")?.parse().ok()?,
            no_ignore: *kv.get("N")? == "1",
            mode: kv.get("M")?.parse().ok()?,
            j1: *kv.get("J")? == "1",
            entries,
            rules,
            dotgit,
            global: opt("GL")?,
            igfiles: items("IF").into_iter().map(unhex).collect::<Option<Vec<_>>>()?,
            globs: items("GB").into_iter().map(|g| unhex(g).and_then(|b| String::from_utf8(b).ok())).collect::<Option<Vec<_>>>()?,
            types,
            explicit: opt("X")?,
            explicit_fifo: kv.get("XF").copied() == Some("1"),
            devnull: kv.get("DN").copied() == Some("1"),
            flagseq: items("FS").into_iter().map(|s| s.to_string()).collect(),
            globkinds: items("GK").into_iter().map(|s| s.parse().unwrap_or(0)).collect(),
            gci: kv.get("GCI").copied() == Some("1"),
            explicit_symlink: kv.get("XS").copied() == Some("1"),
            ifci: kv.get("IC").copied() == Some("1"),
            gl_cfg: kv.get("GC").copied() == Some("1"),
        })
    }
    /// the flag record the command line amounts to (the model's `Flags`)
    fn effective_flags(&self) -> [bool; 8] {
        let mut f = self.flags;
        if self.no_ignore || self.unrestricted >= 1 {
            // --no-ignore: dot, exclude, global, parent, vcs
            f[1] = true;
            f[2] = true;
            f[4] = true;
            f[5] = true;
            f[6] = true;
        }
        if self.unrestricted >= 2 {
            f[0] = true;
        }
        f
    }
}

// ---------------------------------------------------------------- generator

const NAMES: &[&str] = &["a", "b", "x.a", "y.b", ".h", "a.", "c", "d.a", ".k.a", "B"];

fn gen_entries(rng: &mut Rng, out: &mut BTreeMap<Vec<u8>, bool>, dir: &[u8], depth: usize) {
    let n = rng.range(2, 4);
    for _ in 0..n {
        let name = *rng.pick(NAMES);
        let mut p = dir.to_vec();
        if !p.is_empty() {
            p.push(b'/');
        }
        p.extend(name.as_bytes());
        if out.contains_key(&p) {
            continue;
        }
        let is_dir = depth < 3 && rng.chance(2, 5) && !name.contains(".a") && !name.contains(".b");
        out.insert(p.clone(), is_dir);
        if is_dir {
            gen_entries(rng, out, &p, depth + 1);
        }
    }
}

/// path of `loc` relative to the location of a rule file at `from` (None if `loc` is not below `from`)
fn rel_from(from: &Loc, entry: &[u8]) -> Vec<u8> {
    let mut pre: Vec<u8> = match from {
        Loc::P2 => b"p1/R/".to_vec(),
        Loc::P1 => b"R/".to_vec(),
        Loc::R => vec![],
        Loc::Sub(_) => vec![],
    };
    if let Loc::Sub(s) = from {
        if entry.len() > s.len() + 1 && entry.starts_with(s) && entry[s.len()] == b'/' {
            return entry[s.len() + 1..].to_vec();
        }
        return entry.to_vec();
    }
    pre.extend(entry);
    pre
}

fn gen_rule_line(rng: &mut Rng, c: &Case, from: &Loc) -> String {
    let keys: Vec<&Vec<u8>> = c.entries.keys().collect();
    let e = (*rng.pick(&keys)).clone();
    let is_dir = c.entries[&e];
    let name = String::from_utf8_lossy(e.rsplit(|b| *b == b'/').next().unwrap()).to_string();
    let rel = String::from_utf8_lossy(&rel_from(from, &e)).to_string();
    let mut l = match rng.below(14) {
        0 | 1 | 2 => name.clone(),
        // lifted restrictions: bracket classes, `**`, a lone `!`, case variants (for --ignore-file-case-insensitive)
        10 => format!("[{}x]{}", &name[..1], &name[1..]),
        11 => format!("**/{}", name),
        12 => ["!", "**", "a/**", "*/"][rng.below(4)].to_string(),
        13 => name.to_uppercase(),
        3 => "*.a".to_string(),
        4 => format!("/{}", rel),
        5 => rel.clone(),
        6 => "*".to_string(),
        7 => format!("{}*", &name[..1]),
        8 => ".*".to_string(),
        _ => "*.b".to_string(),
    };
    if is_dir && rng.chance(1, 3) {
        l.push('/');
    }
    if rng.chance(1, 3) {
        l.insert(0, '!');
    }
    l
}

fn gen_case(rng: &mut Rng) -> Case {
    let mut c = Case {
        flags: [false; 8],
        unrestricted: 0,
        no_ignore: false,
        mode: rng.below(4),
        j1: rng.chance(1, 2),
        entries: BTreeMap::new(),
        rules: vec![],
        dotgit: BTreeSet::new(),
        global: None,
        igfiles: vec![],
        globs: vec![],
        types: vec![],
        explicit: None,
        explicit_fifo: false,
        devnull: false,
        flagseq: vec![],
        globkinds: vec![],
        gci: false,
        explicit_symlink: false,
        ifci: false,
        gl_cfg: false,
    };
    gen_entries(rng, &mut c.entries, b"", 0);
    for i in 0..8 {
        c.flags[i] = rng.chance(1, 6);
    }
    if rng.chance(1, 3) {
        // the switches as a sequence: negations, repetitions, any order; at most three `-u`
        c.flags = [false; 8];
        let n = rng.range(1, 6);
        let mut us = 0;
        for _ in 0..n {
            let t = TOKS[rng.below(TOKS.len())].0;
            if t == "u" {
                us += 1;
                if us > 3 {
                    continue;
                }
            }
            c.flagseq.push(t.to_string());
        }
    }
    match rng.below(if c.flagseq.is_empty() { 12 } else { 1000 }) {
        0 => c.unrestricted = 1,
        1 => c.unrestricted = 2,
        2 => c.no_ignore = true,
        _ => {}
    }
    // repositories
    let mut locs = vec![Loc::P2, Loc::P1, Loc::R];
    locs.extend(c.entries.iter().filter(|(_, d)| **d).map(|(p, _)| Loc::Sub(p.clone())));
    match rng.below(6) {
        0 => {}
        1 => {
            c.dotgit.insert(Loc::P1);
        }
        2 => {
            c.dotgit.insert(Loc::P2);
        }
        3 => {
            c.dotgit.insert(rng.pick(&locs).clone());
        }
        _ => {
            c.dotgit.insert(Loc::R);
        }
    }
    if rng.chance(1, 8) {
        c.dotgit.insert(rng.pick(&locs).clone());
    }
    // rule files
    let nrules = rng.range(1, 5);
    for _ in 0..nrules {
        let loc = if rng.chance(1, 2) { rng.pick(&[Loc::P2, Loc::P1, Loc::R]).clone() } else { rng.pick(&locs).clone() };
        let mut kind = rng.below(4);
        if kind == 3 && !c.dotgit.contains(&loc) {
            kind = 2;
        }
        if c.rules.iter().any(|(l, k, _)| *l == loc && *k == kind) {
            continue;
        }
        let n = rng.range(1, 3);
        let lines: Vec<String> = (0..n).map(|_| gen_rule_line(rng, &c, &loc)).collect();
        c.rules.push((loc, kind, (lines.join("\n") + "\n").into_bytes()));
    }
    if rng.chance(1, 3) {
        let l = gen_rule_line(rng, &c, &Loc::R);
        c.global = Some((l + "\n").into_bytes());
    }
    if rng.chance(1, 3) {
        let l = gen_rule_line(rng, &c, &Loc::R);
        c.igfiles.push((l + "\n").into_bytes());
    }
    if rng.chance(1, 4) {
        let n = rng.range(1, 2);
        for _ in 0..n {
            // for -g the sense is inverted: a plain glob whitelists, `!glob` ignores
            let mut g = gen_rule_line(rng, &c, &Loc::R);
            if g.starts_with('/') || g.starts_with("!/") {
                g = g.replace('/', "");
            }
            if g.is_empty() || g == "!" {
                g = "*.a".into();
            }
            c.globs.push(g);
        }
    }
    if rng.chance(1, 4) {
        c.types.push((rng.chance(1, 3), ["*.a", "*.b", "a*", ".*"][rng.below(4)].to_string()));
        if rng.chance(1, 3) {
            c.types.push((rng.chance(1, 2), ["*.a", "*.b", "x*"][rng.below(3)].to_string()));
        }
    }
    if rng.chance(1, 5) {
        let files: Vec<&Vec<u8>> = c.entries.iter().filter(|(_, d)| !**d).map(|(p, _)| p).collect();
        if !files.is_empty() {
            c.explicit = Some((*rng.pick(&files)).clone());
            // explicitly named paths that are neither regular files nor directories
            c.explicit_fifo = rng.chance(1, 3);
            c.explicit_symlink = !c.explicit_fifo && rng.chance(1, 3);
        }
    }
    c.devnull = rng.chance(1, 12);
    // `--iglob` among the `-g` globs, in any command-line position; `--glob-case-insensitive`
    c.globkinds = c.globs.iter().map(|_| if rng.chance(1, 4) { 2 } else { 0 }).collect();
    if c.globs.len() >= 1 && rng.chance(1, 6) {
        // an upper-case spelling of a name pattern so that case matters
        let i = rng.below(c.globs.len());
        c.globs[i] = c.globs[i].to_uppercase();
        c.globkinds[i] = 2;
    }
    c.gci = !c.globs.is_empty() && rng.chance(1, 10);
    c.ifci = rng.chance(1, 6);
    c.gl_cfg = c.global.is_some() && rng.chance(1, 3);
    c
}

// ---------------------------------------------------------------- running

fn cps(line: &str) -> String {
    let v: Vec<String> = line.chars().map(|c| (c as u32).to_string()).collect();
    format!("(l {})", v.join(" ")).replace(" )", ")")
}

fn lines_sx(content: &[u8]) -> String {
    String::from_utf8_lossy(content).lines().map(cps).collect::<Vec<_>>().join(" ")
}

fn os(p: &[u8]) -> &std::ffi::OsStr {
    use std::os::unix::ffi::OsStrExt;
    std::ffi::OsStr::from_bytes(p)
}

struct Env {
    scratch: PathBuf,
    rg: PathBuf,
    counter: u64,
}

fn run_case(c: &Case, env: &mut Env, drv: &mut Driver, rep: &mut Report, quiet: bool) -> Vec<Violation> {
    use std::os::unix::ffi::OsStrExt;
    let mut out = vec![];
    let case = c.line();
    let mk = |kind: &str, class: &str, tie: &str, detail: String| Violation {
        kind: kind.into(),
        class: class.into(),
        tie: tie.into(),
        case: case.clone(),
        detail,
    };
    env.counter += 1;
    let base = env.scratch.join(format!("c{}", env.counter));
    let root = base.join("p2/p1/R");
    std::fs::create_dir_all(&root).unwrap();
    std::fs::create_dir_all(base.join("home")).unwrap();
    std::fs::create_dir_all(base.join("xdg/git")).unwrap();
    // every entry of the tree below R, including the rule files and .git directories that live there
    let mut entries = c.entries.clone();
    for (p, d) in &c.entries {
        let full = root.join(os(p));
        if *d {
            std::fs::create_dir_all(&full).unwrap();
        } else {
            std::fs::create_dir_all(full.parent().unwrap()).unwrap();
            if c.explicit_symlink && c.explicit.as_ref() == Some(p) {
                let target = base.join("link-target.txt");
                std::fs::write(&target, b"x\n").unwrap();
                std::os::unix::fs::symlink(&target, &full).unwrap();
            } else if c.explicit_fifo && c.explicit.as_ref() == Some(p) {
                // `--files` only lists it; nothing opens the FIFO, so no writer is needed
                let st = Command::new("mkfifo").arg(&full).status();
                if !st.map(|s| s.success()).unwrap_or(false) {
                    std::fs::write(&full, b"x\n").unwrap();
                }
            } else {
                std::fs::write(&full, b"x\n").unwrap();
            }
        }
    }
    let add_entry = |entries: &mut BTreeMap<Vec<u8>, bool>, loc: &Loc, rel: &str, is_dir: bool| {
        let pre: Option<Vec<u8>> = match loc {
            Loc::R => Some(vec![]),
            Loc::Sub(p) => Some(p.clone()),
            _ => None,
        };
        if let Some(mut p) = pre {
            if !p.is_empty() {
                p.push(b'/');
            }
            p.extend(rel.as_bytes());
            entries.insert(p, is_dir);
        }
    };
    for loc in &c.dotgit {
        let d = loc.abs(&base);
        std::fs::create_dir_all(d.join(".git/info")).unwrap();
        add_entry(&mut entries, loc, ".git", true);
        add_entry(&mut entries, loc, ".git/info", true);
    }
    for (loc, kind, content) in &c.rules {
        let d = loc.abs(&base);
        std::fs::create_dir_all(&d).unwrap();
        let name = [".rgignore", ".ignore", ".gitignore", ".git/info/exclude"][*kind];
        if *kind == 3 {
            std::fs::create_dir_all(d.join(".git/info")).unwrap();
        }
        std::fs::write(d.join(name), content).unwrap();
        add_entry(&mut entries, loc, name, false);
    }
    if let Some(g) = &c.global {
        if c.gl_cfg {
            std::fs::write(base.join("home/.gitconfig"), b"[user]\n\tname = x\n[core]\n\texcludesFile = ~/my-global-ignore\n").unwrap();
            std::fs::write(base.join("home/my-global-ignore"), g).unwrap();
        } else {
            std::fs::write(base.join("xdg/git/ignore"), g).unwrap();
        }
    }
    let mut igfile_paths = vec![];
    for (i, g) in c.igfiles.iter().enumerate() {
        let p = base.join(format!("extra{}.ign", i));
        std::fs::write(&p, g).unwrap();
        igfile_paths.push(p);
    }
    // ---- command line
    let (cwd, root_arg): (PathBuf, Option<Vec<u8>>) = match c.mode {
        0 => (root.clone(), None),
        1 => (base.clone(), Some(b"p2/p1/R".to_vec())),
        2 => (base.clone(), Some(root.as_os_str().as_bytes().to_vec())),
        _ => (root.clone(), Some(b".".to_vec())),
    };
    let root_given: Vec<u8> = root_arg.clone().unwrap_or(b"./".to_vec());
    let mut cmd = Command::new(&env.rg);
    cmd.current_dir(&cwd)
        .env("HOME", base.join("home"))
        .env("XDG_CONFIG_HOME", base.join("xdg"))
        .env_remove("RIPGREP_CONFIG_PATH")
        .args(["--files", "--no-config"]);
    if c.j1 {
        cmd.arg("-j1");
    }
    if c.flagseq.is_empty() {
        for i in 0..8 {
            if c.flags[i] {
                cmd.arg(FLAG_NAMES[i]);
            }
        }
        if c.no_ignore {
            cmd.arg("--no-ignore");
        }
        for _ in 0..c.unrestricted {
            cmd.arg("-u");
        }
    } else {
        for t in &c.flagseq {
            if let Some((_, name)) = TOKS.iter().find(|(k, _)| k == t) {
                cmd.arg(name);
            }
        }
    }
    if c.gci {
        cmd.arg("--glob-case-insensitive");
    }
    if c.ifci {
        cmd.arg("--ignore-file-case-insensitive");
    }
    for p in &igfile_paths {
        cmd.arg("--ignore-file").arg(p);
    }
    for (i, g) in c.globs.iter().enumerate() {
        cmd.arg(if c.globkinds.get(i) == Some(&2) { "--iglob" } else { "-g" }).arg(g);
    }
    for (i, (_, g)) in c.types.iter().enumerate() {
        cmd.arg("--type-add").arg(format!("vt{}:{}", i, g));
    }
    for (i, (neg, _)) in c.types.iter().enumerate() {
        cmd.arg(if *neg { "-T" } else { "-t" }).arg(format!("vt{}", i));
    }
    let explicit_arg: Option<Vec<u8>> = c.explicit.as_ref().map(|p| {
        let mut a = root_given.clone();
        if !a.ends_with(b"/") {
            a.push(b'/');
        }
        a.extend(p);
        a
    });
    if root_arg.is_some() || explicit_arg.is_some() {
        cmd.arg(os(&root_given));
    }
    if let Some(a) = &explicit_arg {
        cmd.arg(os(a));
    }
    if c.devnull {
        if !(root_arg.is_some() || explicit_arg.is_some()) {
            cmd.arg(os(&root_given));
        }
        cmd.arg("/dev/null");
    }
    let o = cmd.output().expect("run rg");
    if !(o.status.success() || o.status.code() == Some(1)) {
        out.push(mk("impl_vs_model", "", TIE, format!("rg failed: {}", String::from_utf8_lossy(&o.stderr))));
        std::fs::remove_dir_all(&base).ok();
        return out;
    }
    // listed files, as paths below R
    let mut listed: BTreeSet<Vec<u8>> = BTreeSet::new();
    let mut pre = root_given.clone();
    if !pre.ends_with(b"/") {
        pre.push(b'/');
    }
    for l in o.stdout.split(|b| *b == b'\n').filter(|l| !l.is_empty()) {
        let rel = if let Some(r) = l.strip_prefix(&pre[..]) {
            r.to_vec()
        } else if root_arg.is_none() {
            l.strip_prefix(b"./").unwrap_or(l).to_vec()
        } else {
            l.to_vec()
        };
        listed.insert(rel);
    }
    if c.devnull {
        if !quiet {
            rep.branch("root:explicit-/dev/null-too");
        }
        if !listed.contains(&b"/dev/null"[..]) {
            out.push(mk("impl_vs_spec", "", "a path named on the command line is always searched (theorem explicit_always_searched): /dev/null, a character device", "/dev/null was named explicitly but rg --files does not list it".to_string()));
        }
    }
    // ---- the model
    // the flag record the command line amounts to: for a switch sequence it is computed by the MODEL (`foldToks`)
    let eff: [bool; 8] = if c.flagseq.is_empty() {
        c.effective_flags()
    } else {
        let r = drv.ask(&format!("c05.flags (toks {})", c.flagseq.join(" ")));
        let rb = r.as_bytes();
        if rb.len() != 8 {
            out.push(mk("impl_vs_model", "", TIE, format!("model reply {:?} to c05.flags", r)));
            std::fs::remove_dir_all(&base).ok();
            return out;
        }
        let mut e = [false; 8];
        for i in 0..8 {
            e[i] = rb[i] == b'1';
        }
        e
    };
    let f: String = eff.iter().map(|b| if *b { '1' } else { '0' }).collect();
    let mut dirs: BTreeMap<PathBuf, (bool, [Vec<u8>; 4])> = BTreeMap::new();
    for loc in &c.dotgit {
        dirs.entry(loc.abs(&base)).or_insert((false, Default::default())).0 = true;
    }
    for (loc, kind, content) in &c.rules {
        dirs.entry(loc.abs(&base)).or_insert((false, Default::default())).1[*kind] = content.clone();
    }
    let dirs_sx: Vec<String> = dirs
        .iter()
        .map(|(p, (g, k))| {
            format!(
                "(d {} {} (rg {}) (ig {}) (gi {}) (ex {}))",
                hex(p.as_os_str().as_bytes()),
                *g as u8,
                lines_sx(&k[0]),
                lines_sx(&k[1]),
                lines_sx(&k[2]),
                lines_sx(&k[3])
            )
            .replace(" )", ")")
        })
        .collect();
    let files: Vec<(&Vec<u8>, &bool)> = entries.iter().filter(|(_, d)| !**d).collect();
    let ents: Vec<String> = files.iter().map(|(p, _)| format!("(0 {})", p.split(|b| *b == b'/').map(hex).collect::<Vec<_>>().join(" "))).collect();
    let req = format!(
        "c05.walk (flags {}) (ci {}) (cwd {}) (global {}) (igfiles {}) (globs {}) (types {}) (typessel {}) (root {} {}) (dirs {}) (entries {})",
        f,
        c.ifci as u8,
        hex(cwd.as_os_str().as_bytes()),
        c.global.as_ref().map(|g| lines_sx(g)).unwrap_or_default(),
        c.igfiles.iter().map(|g| format!("(f {})", lines_sx(g)).replace(" )", ")")).collect::<Vec<_>>().join(" "),
        c.globs
            .iter()
            .enumerate()
            .map(|(i, g)| {
                let kind = if c.globkinds.get(i) == Some(&2) { "(li " } else if c.gci { "(lg " } else { "(l " };
                cps(g).replacen("(l ", kind, 1).replacen("(l)", &format!("{})", kind.trim_end()), 1)
            })
            .collect::<Vec<_>>()
            .join(" "),
        c.types.iter().map(|(n, g)| format!("(t {} {})", *n as u8, g.chars().map(|ch| (ch as u32).to_string()).collect::<Vec<_>>().join(" "))).collect::<Vec<_>>().join(" "),
        c.types.iter().any(|(n, _)| !*n) as u8,
        hex(&root_given),
        hex(root.as_os_str().as_bytes()),
        dirs_sx.join(" "),
        ents.join(" ")
    )
    .replace(" )", ")");
    let m = drv.ask(&req);
    let mb = m.as_bytes();
    if mb.len() != 5 * files.len() {
        out.push(mk("impl_vs_model", "", TIE, format!("model reply {:?} for {}", m, req)));
        std::fs::remove_dir_all(&base).ok();
        return out;
    }
    let parent_anchored = c.rules.iter().any(|(l, _, content)| {
        matches!(l, Loc::P1 | Loc::P2) && String::from_utf8_lossy(content).lines().any(|l| l.trim_start_matches('!').trim_end_matches('/').contains('/'))
    });
    let mut conflict = false;
    for (i, (p, _)) in files.iter().enumerate() {
        if !quiet {
            rep.eval();
        }
        let imp = listed.contains(*p);
        let ex = c.explicit.as_ref() == Some(*p);
        let mm = mb[5 * i] == b'1' || ex;
        let ms = mb[5 * i + 1] == b'1' || ex;
        // the model with exactly one repair: re-basing / --ignore-file files folded (the override order was repaired in /repo)
        let m_rebase = mb[5 * i + 2] == b'1' || ex;
        let m_xci = mb[5 * i + 4] == b'1' || ex;
        if imp != mm {
            out.push(mk("impl_vs_model", "", TIE, format!("file {:?}: rg lists = {}, model = {}", show(p), imp, mm)));
        }
        if imp != ms {
            // `parent-ignore-rebased-path` is attributed only when its mechanism is at work for THIS file: the model
            // (which re-bases paths like dir.rs does) predicts rg's answer, the spec — the same model with the one
            // switch `fixRebase` — answers differently (so re-basing is what decides this file), an ignore file ABOVE
            // the search root carries an anchored rule, and parent ignore files are in force
            let class = if !(imp == mm && mm != ms) {
                ""
            } else if m_rebase == ms && parent_anchored && !eff[5] {
                "parent-ignore-rebased-path"
            } else if m_xci == ms && c.ifci && !c.igfiles.is_empty() && !eff[3] {
                // `explicit-ignore-file-case-sensitive`: --ignore-file files are matched case-sensitively even under
                // --ignore-file-case-insensitive; attributed only when both are on this command line, --no-ignore-files
                // is not in force, and folding those files ALONE yields the documented answer for this file
                "explicit-ignore-file-case-sensitive"
            } else if parent_anchored && !eff[5] {
                // several repairs are needed for this file; the preconditions of this one hold
                "parent-ignore-rebased-path"
            } else if c.ifci && !c.igfiles.is_empty() && !eff[3] {
                "explicit-ignore-file-case-sensitive"
            } else {
                ""
            };
            if !quiet {
                if class.is_empty() {
                    rep.branch("class:none:unclassified-deviation");
                } else {
                    rep.branch(&format!("class:{}:attributed", class));
                }
            }
            out.push(mk("impl_vs_spec", class, TIE_DOC, format!("file {:?}: rg lists = {}, documented precedence (parent ignore files applied to the real path) = {}", show(p), imp, ms)));
        }
        if imp != (mb[5 * i] == b'1') {
            conflict = true;
        }
    }
    if !quiet {
        let kinds: BTreeSet<usize> = c.rules.iter().map(|(_, k, _)| *k).collect();
        let nsrc = kinds.len() + c.global.is_some() as usize + !c.igfiles.is_empty() as usize + !c.globs.is_empty() as usize;
        let some_listed = files.iter().any(|(p, _)| listed.contains(*p));
        let some_hidden = files.iter().any(|(p, _)| !listed.contains(*p));
        if nsrc >= 2 && some_listed && some_hidden {
            rep.nontrivial(&case);
        }
        rep.branch(&format!("sources:{}", nsrc.min(5)));
        for (l, k, _) in &c.rules {
            rep.branch(&format!("rule:{}:{}", [".rgignore", ".ignore", ".gitignore", "exclude"][*k], match l {
                Loc::P2 => "depth-2",
                Loc::P1 => "depth-1",
                Loc::R => "root",
                Loc::Sub(_) => "below-root",
            }));
        }
        for l in &c.dotgit {
            rep.branch(&format!("repo-at:{}", match l {
                Loc::P2 => "depth-2",
                Loc::P1 => "depth-1",
                Loc::R => "root",
                Loc::Sub(_) => "below-root",
            }));
        }
        if c.dotgit.is_empty() {
            rep.branch("repo-at:none");
        }
        for i in 0..8 {
            if c.flags[i] {
                rep.branch(&format!("flag:{}", FLAG_NAMES[i]));
            }
        }
        if c.no_ignore {
            rep.branch("flag:--no-ignore");
        }
        if c.unrestricted > 0 {
            rep.branch(&format!("flag:-{}", "u".repeat(c.unrestricted)));
        }
        rep.branch(&format!("root:{}", ["none(./)", "relative", "absolute", "dot"][c.mode]));
        if c.explicit.is_some() {
            rep.branch("root:explicit-file-too");
            if c.explicit_fifo {
                rep.branch("root:explicit-path-is-a-FIFO");
            }
            if c.explicit_symlink {
                rep.branch("root:explicit-path-is-a-symlink");
            }
            if let Some(p) = &c.explicit {
                let idx = files.iter().position(|(q, _)| *q == p);
                if let Some(i) = idx {
                    if mb[5 * i] == b'0' {
                        rep.branch("explicit-file-would-have-been-filtered");
                    }
                }
            }
        }
        if !c.globs.is_empty() {
            rep.branch("source:-g");
        }
        if !c.types.is_empty() {
            rep.branch("source:-t/-T");
        }
        if c.global.is_some() {
            rep.branch("source:global-gitignore");
        }
        if !c.igfiles.is_empty() {
            rep.branch("source:--ignore-file");
        }
        let _ = conflict;
    }
    std::fs::remove_dir_all(&base).ok();
    out
}

static SHRUNK: std::sync::Mutex<BTreeMap<String, usize>> = std::sync::Mutex::new(BTreeMap::new());

fn run_and_report(c: &Case, env: &mut Env, drv: &mut Driver, rep: &mut Report) {
    let vs = run_case(c, env, drv, rep, false);
    let mut seen: Vec<(String, String)> = vec![];
    for v in vs {
        let key = (v.kind.clone(), v.class.clone());
        if seen.contains(&key) {
            continue;
        }
        seen.push(key);
        // a recorded class is shrunk only the first two times it shows up in a run (shrinking re-runs rg many times)
        if !v.class.is_empty() {
            let mut m = SHRUNK.lock().unwrap();
            let n = m.entry(v.class.clone()).or_insert(0);
            *n += 1;
            if *n > 2 {
                drop(m);
                rep.violation(v);
                continue;
            }
        }
        // shrink: drop rule files, flags, sources, entries
        let mut cur = c.clone();
        let mut best = v.clone();
        let same = |cand: &Case, env: &mut Env, drv: &mut Driver, rep: &mut Report| -> Option<Violation> {
            run_case(cand, env, drv, rep, true).into_iter().find(|x| x.kind == v.kind && x.class == v.class)
        };
        let mut cands: Vec<Box<dyn Fn(&Case) -> Option<Case>>> = vec![];
        for i in 0..8 {
            cands.push(Box::new(move |c: &Case| {
                if c.flags[i] {
                    let mut d = c.clone();
                    d.flags[i] = false;
                    Some(d)
                } else {
                    None
                }
            }));
        }
        cands.push(Box::new(|c: &Case| c.global.as_ref().map(|_| { let mut d = c.clone(); d.global = None; d })));
        cands.push(Box::new(|c: &Case| if c.igfiles.is_empty() { None } else { let mut d = c.clone(); d.igfiles.clear(); Some(d) }));
        cands.push(Box::new(|c: &Case| if c.globs.is_empty() { None } else { let mut d = c.clone(); d.globs.clear(); Some(d) }));
        cands.push(Box::new(|c: &Case| if c.types.is_empty() { None } else { let mut d = c.clone(); d.types.clear(); Some(d) }));
        cands.push(Box::new(|c: &Case| c.explicit.as_ref().map(|_| { let mut d = c.clone(); d.explicit = None; d })));
        cands.push(Box::new(|c: &Case| if c.unrestricted > 0 || c.no_ignore { let mut d = c.clone(); d.unrestricted = 0; d.no_ignore = false; Some(d) } else { None }));
        for f in &cands {
            if let Some(cand) = f(&cur) {
                if let Some(b) = same(&cand, env, drv, rep) {
                    cur = cand;
                    best = b;
                }
            }
        }
        let mut i = 0;
        while i < cur.rules.len() {
            let mut cand = cur.clone();
            cand.rules.remove(i);
            if let Some(b) = same(&cand, env, drv, rep) {
                cur = cand;
                best = b;
            } else {
                i += 1;
            }
        }
        let gits: Vec<Loc> = cur.dotgit.iter().cloned().collect();
        for g in gits {
            let mut cand = cur.clone();
            cand.dotgit.remove(&g);
            cand.rules.retain(|(l, k, _)| !(*l == g && *k == 3));
            if let Some(b) = same(&cand, env, drv, rep) {
                cur = cand;
                best = b;
            }
        }
        let paths: Vec<Vec<u8>> = cur.entries.keys().rev().cloned().collect();
        for p in paths {
            let mut cand = cur.clone();
            let mut pre = p.clone();
            pre.push(b'/');
            cand.entries.retain(|q, _| q != &p && !q.starts_with(&pre));
            cand.rules.retain(|(l, _, _)| match l {
                Loc::Sub(s) => s != &p && !s.starts_with(&pre),
                _ => true,
            });
            cand.dotgit.retain(|l| match l {
                Loc::Sub(s) => s != &p && !s.starts_with(&pre),
                _ => true,
            });
            if cand.explicit.as_ref().map(|e| e == &p || e.starts_with(&pre)).unwrap_or(false) {
                continue;
            }
            if cand.entries.is_empty() {
                continue;
            }
            if let Some(b) = same(&cand, env, drv, rep) {
                cur = cand;
                best = b;
            }
        }
        rep.violation(best);
    }
}

fn main() {
    let args = parse_args();
    let mut drv = Driver::spawn(&args.driver);
    let mut rep = Report::new(
        "C05",
        "one evaluation = one file of a generated tree under one command line; non-trivial = at least two rule sources are present and the command lists some files and hides others (distinct by case text). \
         Trees p2/p1/R/… with rule files (.rgignore, .ignore, .gitignore, .git/info/exclude) at depths -2…+3 relative to the search root, global gitignore via XDG_CONFIG_HOME or via core.excludesFile = ~/… in $HOME/.gitconfig, --ignore-file, -g, --type-add/-t/-T, \
         .git at any of those depths or nowhere, hidden names, names ending in '.', conflicting ignore/whitelist lines (names, *.ext, anchored paths, dir-only, negations), every flag of the property incl. --no-ignore and -u/-uu, \
         roots given as nothing (./), relative, absolute, '.', plus an explicitly named file (a regular file, a FIFO made with mkfifo, or a symbolic link to a file outside the tree) and now and then /dev/null as a further explicit path. Rule lines: names, *.ext, anchored paths, dir-only, negations, bracket classes, **, a lone '!', upper-case spellings (with and without --ignore-file-case-insensitive); the filter switches also as sequences with negations and repetitions in any order (--no-ignore --ignore-vcs, -uu --no-hidden; effective flags computed by the model's foldToks), -g mixed with --iglob in any order and --glob-case-insensitive. Not generated: --max-depth (a traversal bound, not a filter; probed by hand: an explicitly named file is listed under --max-depth 0), symlinks inside the tree without -L are never listed by --files anyway, RIPGREP_CONFIG_PATH (its lines are prepended arguments, i.e. an earlier part of the switch sequence; probed by hand).",
    );
    std::fs::create_dir_all(&args.scratch).unwrap();
    // nothing above the scratch directory may influence the walk
    let mut up = args.scratch.clone();
    loop {
        for n in [".ignore", ".rgignore", ".gitignore", ".git"] {
            if up.join(n).exists() {
                rep.notes.push(format!("WARNING: {} exists above the scratch directory; parent rules of the host leak into the cases", up.join(n).display()));
            }
        }
        if !up.pop() {
            break;
        }
    }
    let rg = args.rg.clone().expect("C05 needs --rg (needs_rg: true)");
    let mut env = Env { scratch: args.scratch.canonicalize().unwrap(), rg, counter: 0 };
    for line in corpus_cases(&args) {
        match Case::parse(&line) {
            Some(c) => run_and_report(&c, &mut env, &mut drv, &mut rep),
            None => rep.notes.push(format!("unparsable corpus case: {}", line)),
        }
    }
    if args.replay.is_none() {
        let mut rng = Rng::new(args.seed);
        let n = args.cases.unwrap_or(if args.thorough { 20000 } else { 2500 });
        for i in 0..n {
            let c = gen_case(&mut rng);
            if i < 4 {
                rep.sample(c.line());
            }
            run_and_report(&c, &mut env, &mut drv, &mut rep);
        }
    }
    rep.write(&args);
}
