//! C15 — exit status and error reporting contract, checked on the `rg` binary built from the working tree.
//!
//! Three streams of cases (each a replayable line):
//!   fault … a generated tree with injected faults (mode-000 files/dirs with privileges dropped, dangling
//!           symlinks, explicit missing paths, files removed / truncated by a `--pre` script between
//!           listing and opening) x mode x -j1/-j4 x --quiet/--sort/--stats/--no-messages/-L/implicit path;
//!   bad   … invalid regex / glob / encoding / flag / value arguments: status 2, nothing on stdout;
//!   pipe  … stdout closed by the consumer after k bytes.
//! For every case the per-entry outcomes are handed to the Lean model (`c15.run`, Model/Exit.lean:
//! main/run/search/search_parallel/files/files_parallel) and to the contract (`c15.spec`), and both are
//! compared with what the binary did (exit status, which files' results are on stdout, which paths have
//! a diagnostic on stderr).
use rgverif_harness::*;
use std::collections::{BTreeMap, BTreeSet, HashMap};
use std::path::{Path, PathBuf};
use std::process::Command;

#[path = "../cli_common.rs"]
mod cli_common;
use cli_common::*;

/// Bytes that may sit in user-space buffers when the consumer goes away (stdout BufWriter 8 KiB,
/// termcolor buffer, LineWriter): output beyond k + pipe capacity + this margin must hit EPIPE.
const MARGIN: usize = 3 * 8192;

struct Ctx {
    rg: PathBuf,
    scratch: PathBuf,
    can_drop: bool,
    have_pcre2: bool,
    counter: usize,
    refs: HashMap<String, RunOut>,
}

fn tok(i: usize) -> String {
    format!("e{:02}", i)
}

/// Content of entry i: `nm` matching lines among a few plain ones (deterministic in seed, i).
fn content(seed: u64, i: usize, matching: bool) -> Vec<String> {
    let mut rng = Rng::new(seed ^ ((i as u64 + 1) * 0x1000193));
    let n = rng.range(1, 4);
    let mut lines: Vec<String> = (0..n).map(|k| format!("plain {} q{}", k, rng.below(100))).collect();
    if matching {
        let m = rng.range(1, 3);
        for k in 0..m {
            let at = rng.range(0, lines.len());
            lines.insert(at, format!("needle {} z{}", k, rng.below(100)));
        }
    }
    lines
}

#[derive(Clone, Debug)]
struct FaultCase {
    seed: u64,
    mode: String, // std | count | l | json | files | passthru
    j: usize,
    q: bool,
    sort: bool,
    nomsg: bool,
    follow: bool,
    implicit: bool,
    stats: bool,
    m0: bool,
    /// every entry of the tree is given as its own path argument (more roots than threads), not the directory
    roots: bool,
    ents: Vec<char>,
}

fn gen_fault(rng: &mut Rng, boundary: bool) -> String {
    let modes = ["std", "std", "count", "l", "json", "files", "passthru"];
    let mode = *rng.pick(&modes);
    let implicit = rng.chance(1, 4);
    let n = if boundary { rng.range(0, 2) } else { rng.range(1, 8) };
    let mut kinds: Vec<char> = vec!['m', 'm', 'n', 'n', 'u', 'D', 'G', 'l', 'R', 'T'];
    if !implicit {
        kinds.extend(['X', 'Y']);
    }
    let mut ents: String = (0..n).map(|_| *rng.pick(&kinds)).collect();
    if boundary && rng.chance(1, 2) {
        // only faulty / skipped entries: "nothing searched"
        ents = (0..n).map(|_| *rng.pick(&['D', 'l'])).collect();
    }
    let j = if rng.chance(1, 2) { 1 } else { 4 };
    let sort = j == 1 && rng.chance(1, 2);
    format!(
        "fault seed={} mode={} j={} q={} sort={} nomsg={} L={} impl={} stats={} m0={} roots={} ents={}",
        rng.below(1 << 30),
        mode,
        j,
        rng.chance(1, 4) as u8,
        sort as u8,
        rng.chance(1, 8) as u8,
        rng.chance(1, 4) as u8,
        implicit as u8,
        (mode != "files" && rng.chance(1, 8)) as u8,
        (mode != "files" && rng.chance(1, 30)) as u8,
        (!implicit && n >= 2 && rng.chance(1, 4)) as u8,
        if ents.is_empty() { "-".to_string() } else { ents }
    )
}

fn parse_fault(case: &str) -> Option<FaultCase> {
    let f = fields(case);
    let b = |k: &str| f.get(k).map(|v| v == "1");
    let ents: Vec<char> = match f.get("ents")?.as_str() {
        "-" => vec![],
        s => s.chars().collect(),
    };
    if !ents.iter().all(|c| "mnuDGlRTXY".contains(*c)) {
        return None;
    }
    Some(FaultCase {
        seed: f.get("seed")?.parse().ok()?,
        mode: f.get("mode")?.clone(),
        j: f.get("j")?.parse().ok()?,
        q: b("q")?,
        sort: b("sort")?,
        nomsg: b("nomsg")?,
        follow: b("L")?,
        implicit: b("impl")?,
        stats: b("stats")?,
        m0: b("m0")?,
        roots: b("roots").unwrap_or(false) && !b("impl")?,
        ents,
    })
}

fn mode_flags(mode: &str) -> Vec<&'static str> {
    let mut v = vec!["--color", "never", "--no-config"];
    match mode {
        "std" => v.extend(["--no-heading", "--with-filename", "--no-line-number"]),
        "count" => v.extend(["-c", "--with-filename"]),
        "l" => v.push("-l"),
        "json" => v.push("--json"),
        "files" => v.push("--files"),
        "passthru" => v.extend(["--passthru", "--no-heading", "--with-filename", "--no-line-number"]),
        _ => {}
    }
    v
}

fn cfg_sx(mode: &str, par: bool, q: bool, stats: bool, messages: bool, implicit: bool, mp: bool, setup: bool) -> String {
    format!(
        "(cfg {} {} {} {} {} {} {} {})",
        if mode == "files" { "files" } else { "search" },
        par as u8,
        q as u8,
        (stats || mode == "json") as u8,
        messages as u8,
        implicit as u8,
        mp as u8,
        setup as u8
    )
}

fn parse_reply(r: &str) -> Option<(i32, BTreeSet<String>, BTreeSet<String>)> {
    // exit N out a,b diags x,y   (spec: exit N matched b errored b out .. diags ..)
    let t: Vec<&str> = r.split(' ').collect();
    let pos = |k: &str| t.iter().position(|x| *x == k);
    let exit: i32 = t.get(pos("exit")? + 1)?.parse().ok()?;
    let set = |k: &str| -> Option<BTreeSet<String>> {
        let v = t.get(pos(k)? + 1)?;
        Some(if *v == "-" { BTreeSet::new() } else { v.split(',').map(|s| s.to_string()).collect() })
    };
    Some((exit, set("out")?, set("diags")?))
}

fn tokens_in(text: &str, n: usize) -> BTreeSet<usize> {
    (0..n).filter(|i| text.contains(&tok(*i))).collect()
}

fn run_fault(case: &str, c: &FaultCase, ctx: &mut Ctx, drv: &mut Driver, rep: &mut Report) {
    let needs_privs = c.ents.iter().any(|k| *k == 'u' || *k == 'D');
    if needs_privs && !ctx.can_drop {
        rep.branch("skipped:cannot-drop-privileges");
        return;
    }
    rep.eval();
    ctx.counter += 1;
    let dir = fresh_dir(&ctx.scratch, &format!("f{}", ctx.counter));
    let t = dir.join("t");
    std::fs::create_dir_all(&t).unwrap();
    let searching = c.mode != "files";
    let n = c.ents.len();
    let mut extra_args: Vec<String> = vec![];
    let mut victims_rm: Vec<PathBuf> = vec![];
    let mut victims_tr: Vec<PathBuf> = vec![];
    let mut file_path: Vec<Option<String>> = vec![None; n]; // path as rg prints it
    let prefix = if c.implicit { "".to_string() } else { "t/".to_string() };
    for (i, k) in c.ents.iter().enumerate() {
        let name = tok(i);
        match k {
            'm' | 'n' | 'u' | 'R' | 'T' => {
                let p = t.join(format!("{}.txt", name));
                let lines = content(c.seed, i, *k != 'n');
                std::fs::write(&p, lines.join("\n") + "\n").unwrap();
                file_path[i] = Some(format!("{}{}.txt", prefix, name));
                match k {
                    'u' => chmod(&p, 0o000),
                    'R' => victims_rm.push(p),
                    'T' => victims_tr.push(p),
                    _ => {}
                }
            }
            'D' | 'G' => {
                let d = t.join(format!("{}.d", name));
                std::fs::create_dir_all(&d).unwrap();
                std::fs::write(d.join("in.txt"), content(c.seed, i, true).join("\n") + "\n").unwrap();
                file_path[i] = Some(format!("{}{}.d/in.txt", prefix, name));
                if *k == 'D' {
                    chmod(&d, 0o000);
                }
            }
            'l' => {
                let _ = std::os::unix::fs::symlink(format!("nowhere-{}", name), t.join(format!("{}.lnk", name)));
            }
            'X' => extra_args.push(format!("{}.missing", name)),
            'Y' => {
                let _ = std::os::unix::fs::symlink(format!("nowhere-{}", name), dir.join(format!("{}.dangling", name)));
                extra_args.push(format!("{}.dangling", name));
            }
            _ => {}
        }
    }
    let uses_pre = searching && (!victims_rm.is_empty() || !victims_tr.is_empty());
    let mut cmd = Command::new(&ctx.rg);
    cmd.args(mode_flags(&c.mode));
    cmd.arg(format!("-j{}", c.j));
    if c.q { cmd.arg("-q"); }
    if c.sort { cmd.args(["--sort", "path"]); }
    if c.nomsg { cmd.arg("--no-messages"); }
    if c.follow { cmd.arg("-L"); }
    if c.stats { cmd.arg("--stats"); }
    if c.m0 { cmd.arg("-m0"); }
    if uses_pre {
        let mut body = String::new();
        for v in &victims_rm {
            body.push_str(&format!("rm -f {}\n", sh_quote(&v.display().to_string())));
        }
        for v in &victims_tr {
            body.push_str(&format!(": > {}\n", sh_quote(&v.display().to_string())));
        }
        body.push_str("exec cat");
        let script = dir.join("pre.sh");
        write_script(&script, &body);
        chmod(&t, 0o777);
        for v in &victims_tr {
            chmod(v, 0o666);
        }
        cmd.arg("--pre").arg(&script);
    }
    if searching { cmd.arg("needle"); }
    let with_roots = c.roots && c.ents.iter().filter(|k| !matches!(k, 'X' | 'Y')).count() >= 2;
    if c.implicit {
        cmd.current_dir(&t);
    } else if with_roots {
        cmd.current_dir(&dir);
        for (i, k) in c.ents.iter().enumerate() {
            match k {
                'm' | 'n' | 'u' | 'R' | 'T' => { cmd.arg(format!("t/{}.txt", tok(i))); }
                'D' | 'G' => { cmd.arg(format!("t/{}.d", tok(i))); }
                'l' => { cmd.arg(format!("t/{}.lnk", tok(i))); }
                _ => {}
            }
        }
        cmd.args(&extra_args);
        rep.branch("several-roots");
    } else {
        cmd.current_dir(&dir);
        cmd.arg("t");
        cmd.args(&extra_args);
    }
    if is_root() && ctx.can_drop {
        drop_privs(&mut cmd);
    }
    let out = run_cmd(&mut cmd, None);
    if out.timed_out {
        rep.violation(Violation {
            kind: "impl_vs_spec".into(), class: "".into(), tie: "rg terminates".into(), case: case.to_string(),
            detail: format!("rg did not terminate within {:?} (twice: re-run with a doubled limit)", WATCHDOG),
        });
        remove_tree(&dir);
        return;
    }
    let so = out.stdout_str();
    let se = out.stderr_str();
    let seen_out = tokens_in(&so, n);
    let seen_diag = tokens_in(&se, n);
    let ns_seen = se.contains("No files were searched");

    // ---- per-entry outcomes (the model's input)
    let par = c.j > 1 && !c.sort;
    let mut items: Vec<String> = if with_roots { vec![] } else { vec!["s".to_string()] }; // the root directory itself
    let mut tail: Vec<String> = vec![]; // explicit extra paths come after the tree, in argument order
    let mut visible: BTreeSet<usize> = BTreeSet::new(); // entries whose results show on stdout when produced
    let f = if uses_pre { "pf" } else { "f" };
    for (i, k) in c.ents.iter().enumerate() {
        let has_match = *k != 'n';
        let shows = !searching || c.mode == "passthru" || has_match;
        match k {
            'm' | 'n' => {
                items.push(format!("({} {} {} o)", f, i, if has_match { "m" } else { "n" }));
                if shows { visible.insert(i); }
            }
            'u' => {
                items.push(format!("({} {} e o)", f, i));
                if !searching { visible.insert(i); }
            }
            'D' => items.push("w".into()),
            'G' => {
                items.push("s".into());
                items.push(format!("({} {} m o)", f, i));
                visible.insert(i);
            }
            // a dangling symlink: skipped inside a tree (unless -L), an error when named on the command line
            'l' => items.push(if c.follow || with_roots { "w".into() } else { "s".into() }),
            'X' | 'Y' => tail.push("w".into()),
            'R' => {
                // removed between listing and opening — unless it happened to be opened first: classify by
                // what the run reports (its results XOR its diagnostic; both or neither is caught below)
                let failed = if !c.q { !seen_out.contains(&i) } else { seen_diag.contains(&i) };
                if !searching {
                    items.push(format!("(f {} m o)", i));
                    visible.insert(i);
                } else if failed {
                    items.push(format!("({} {} e o)", f, i));
                    rep.branch("fault:removed-before-open");
                } else {
                    items.push(format!("({} {} m o)", f, i));
                    visible.insert(i);
                }
            }
            'T' => {
                if !searching {
                    items.push(format!("(f {} m o)", i));
                    visible.insert(i);
                } else if !c.q && !seen_out.contains(&i) {
                    items.push(format!("({} {} n o)", f, i));
                    rep.branch("fault:truncated-before-open");
                } else {
                    items.push(format!("({} {} m o)", f, i));
                    visible.insert(i);
                }
            }
            _ => {}
        }
        rep.branch(&format!("ent:{}", k));
    }
    items.extend(tail);
    // under --quiet nothing shows whether a T file was truncated before or after it was searched (R: only with --no-messages)
    let quiet_unknown = searching && c.q && c.ents.iter().any(|k| *k == 'T' || (*k == 'R' && c.nomsg));
    let cfg = cfg_sx(&c.mode, par, c.q, c.stats, !c.nomsg, c.implicit, !c.m0, true);
    let items_sx = format!("(items {})", items.join(" "));
    let model = drv.ask(&format!("c15.run {} ok {}", cfg, items_sx));
    let spec = drv.ask(&format!("c15.spec {} {}", cfg, items_sx));
    let (Some((m_exit, m_out, m_diags)), Some((s_exit, s_out, s_diags))) = (parse_reply(&model), parse_reply(&spec)) else {
        rep.violation(Violation {
            kind: "impl_vs_model".into(), class: "".into(), tie: "driver protocol".into(), case: case.to_string(),
            detail: format!("driver replies: {} / {}", model, spec),
        });
        remove_tree(&dir);
        return;
    };
    rep.branch(&format!("mode:{}", c.mode));
    rep.branch(if par { "threads:multi" } else { "threads:single" });
    rep.branch(&format!("exit:{}", out.exit()));
    if c.q { rep.branch("quiet"); }
    if c.implicit { rep.branch("implicit-path"); }
    if ns_seen { rep.branch("diag:nothing-searched"); }
    let has_fault = items.iter().any(|x| x == "w" || x.contains(" e o)"));
    let has_match = items.iter().any(|x| x.contains(" m o)"));
    if has_fault && (has_match || !searching) && n >= 2 {
        rep.nontrivial(case);
    }
    let ids = |s: &BTreeSet<String>| -> BTreeSet<usize> { s.iter().filter_map(|x| x.parse().ok()).collect() };
    let diag_ids = |s: &BTreeSet<String>| -> BTreeSet<usize> {
        s.iter().filter_map(|x| x.strip_prefix("f:").and_then(|v| v.parse().ok())).collect()
    };
    // what the observation can tell us about diagnostics: the set of entry tokens named on stderr.
    // Walker errors (`w`) carry no id in the model; compare their count through the tokens of D/l/X/Y entries.
    let walk_tokens: BTreeSet<usize> = c.ents.iter().enumerate()
        .filter(|(_, k)| matches!(k, 'D' | 'X' | 'Y') || (**k == 'l' && (c.follow || with_roots))).map(|(i, _)| i).collect();
    let expect_diag_tokens = |d: &BTreeSet<String>| -> BTreeSet<usize> {
        let mut s = diag_ids(d);
        if d.contains("w") { s.extend(walk_tokens.iter().copied()); }
        s
    };
    let mut problems_model: Vec<String> = vec![];
    let mut problems_spec: Vec<String> = vec![];
    // --- exit status
    if out.exit() != m_exit && !quiet_unknown { problems_model.push(format!("exit {} vs model {}", out.exit(), m_exit)); }
    if out.exit() != s_exit && !quiet_unknown { problems_spec.push(format!("exit {} vs contract {}", out.exit(), s_exit)); }
    // --- results on stdout
    if !c.q {
        let m_vis: BTreeSet<usize> = ids(&m_out).intersection(&visible).copied().collect();
        let s_vis: BTreeSet<usize> = ids(&s_out).intersection(&visible).copied().collect();
        if c.m0 {
            if !out.stdout.is_empty() { problems_spec.push("output with -m0".into()); }
        } else {
            if seen_out != m_vis { problems_model.push(format!("results of {:?} on stdout, model {:?}", seen_out, m_vis)); }
            if seen_out != s_vis { problems_spec.push(format!("results of {:?} on stdout, contract owes {:?}", seen_out, s_vis)); }
        }
        // exact lines for the plain modes
        if !c.stats && !c.m0 && matches!(c.mode.as_str(), "std" | "count" | "l" | "files" | "passthru") {
            let mut want: Vec<Vec<u8>> = vec![];
            for i in ids(&s_out).intersection(&visible) {
                let k = c.ents[*i];
                let p = file_path[*i].clone().unwrap_or_default();
                let matching = k != 'n';
                let lines = content(c.seed, *i, matching);
                match c.mode.as_str() {
                    "std" => want.extend(lines.iter().filter(|l| l.contains("needle")).map(|l| format!("{}:{}", p, l).into_bytes())),
                    "passthru" => want.extend(lines.iter().map(|l| format!("{}{}{}", p, if l.contains("needle") { ":" } else { "-" }, l).into_bytes())),
                    "count" => want.push(format!("{}:{}", p, lines.iter().filter(|l| l.contains("needle")).count()).into_bytes()),
                    _ => want.push(p.into_bytes()),
                }
            }
            want.sort();
            let got = sorted_lines(&out.stdout);
            if got != want {
                problems_spec.push(format!("stdout lines differ from the healthy files' results: got {:?} want {:?}",
                    got.iter().map(|l| show(l)).collect::<Vec<_>>(), want.iter().map(|l| show(l)).collect::<Vec<_>>()));
            }
        }
    } else if !out.stdout.is_empty() && !c.stats && c.mode != "json" {
        problems_spec.push("output with --quiet".into());
    }
    // --- diagnostics
    if c.nomsg {
        if !out.stderr.is_empty() { problems_spec.push(format!("stderr with --no-messages: {}", show(&out.stderr))); }
    } else {
        let order_known = !par && c.sort; // the model's diagnostics depend on the visiting order only under quit-after-match
        let any_file = items.iter().any(|x| x.starts_with("(f ") || x.starts_with("(pf "));
        let early_stop = c.q && !c.stats && c.mode != "json" && (if searching { has_match } else { any_file });
        let m_tok = expect_diag_tokens(&m_diags);
        let s_tok = if c.m0 { BTreeSet::new() } else { expect_diag_tokens(&s_diags) };
        if (!early_stop || order_known) && !quiet_unknown {
            if seen_diag != m_tok && !(early_stop && walk_tokens.len() > 1) {
                problems_model.push(format!("diagnostics for {:?}, model {:?}", seen_diag, m_tok));
            }
        }
        if !early_stop {
            if seen_diag != s_tok { problems_spec.push(format!("diagnostics for {:?}, contract owes {:?}", seen_diag, s_tok)); }
            if ns_seen != m_diags.contains("ns") { problems_model.push(format!("nothing-searched message {} vs model", ns_seen)); }
        } else if !seen_diag.is_subset(&s_tok) {
            problems_spec.push(format!("diagnostics for {:?}, not all owed ({:?})", seen_diag, s_tok));
        }
        // every stderr line is owed to a faulty entry (or is the nothing-searched hint)
        for l in se.lines() {
            let owed = tokens_in(l, n).iter().any(|i| s_tok.contains(i)) || l.contains("No files were searched")
                || l.contains("Running with --debug");
            if !owed { problems_spec.push(format!("unexpected diagnostic: {}", l)); }
        }
    }
    // --- the --stats / --json summary: files searched, files with matches
    // (not for --json: its per-file sink counts a search only once `begin` was printed, i.e. only files with a
    // match — json.rs `finish` returns early otherwise —, so "searches" there is a property of the JSON printer)
    if searching && c.stats && c.mode != "json" && !c.m0 && !quiet_unknown {
        let so_txt = out.stdout_str();
        let seen_stats: Option<(u64, u64)> = if c.mode == "json" {
            so_txt.lines().filter_map(|l| serde_json::from_str::<serde_json::Value>(l).ok()).find(|v| v["type"] == "summary").and_then(|v| {
                Some((v["data"]["stats"]["searches"].as_u64()?, v["data"]["stats"]["searches_with_match"].as_u64()?))
            })
        } else {
            let num = |suffix: &str| so_txt.lines().find(|l| l.ends_with(suffix)).and_then(|l| l.split(' ').next()?.parse::<u64>().ok());
            match (num(" files searched"), num(" files contained matches")) {
                (Some(a), Some(b)) => Some((a, b)),
                _ => None,
            }
        };
        let reply = drv.ask(&format!("c15.stats {} {}", cfg, items_sx));
        let t: Vec<&str> = reply.split(' ').collect();
        let seen_txt = seen_stats.map_or("-".to_string(), |(a, b)| format!("{} {}", a, b));
        rep.branch("stats-summary");
        if t.len() >= 5 && t[0] == "model" {
            let sp = t.iter().position(|x| *x == "spec").unwrap_or(0);
            let model_txt = t[1..sp].join(" ");
            let spec_txt = t[sp + 1..].join(" ");
            if seen_txt != model_txt { problems_model.push(format!("--stats summary (searched, with matches) {} vs model {}", seen_txt, model_txt)); }
            if seen_txt != spec_txt { problems_spec.push(format!("--stats summary (searched, with matches) {} vs tree {}", seen_txt, spec_txt)); }
        } else {
            problems_model.push(format!("driver reply {}", reply));
        }
    }
    // R: results and diagnostic are exclusive
    for (i, k) in c.ents.iter().enumerate() {
        if *k == 'R' && searching && !c.q && seen_diag.contains(&i) && seen_out.contains(&i) {
            problems_spec.push(format!("{} has both results and a diagnostic", tok(i)));
        }
    }
    if !problems_model.is_empty() {
        rep.violation(Violation {
            kind: "impl_vs_model".into(), class: "".into(),
            tie: "rg exit status/stdout/stderr vs Model.Exit.main (theorems exit_table, errors_do_not_suppress)".into(),
            case: case.to_string(),
            detail: format!("{} | model: {} | rg exit {} stderr {}", problems_model.join("; "), model, out.exit(), show(&out.stderr)),
        });
    }
    if !problems_spec.is_empty() {
        rep.violation(Violation {
            kind: "impl_vs_spec".into(), class: "".into(),
            tie: "rg exit status/stdout/stderr vs ExitSpec (exit table; faults reported; other results intact)".into(),
            case: case.to_string(),
            detail: format!("{} | contract: {} | rg exit {} stdout {} stderr {}", problems_spec.join("; "), spec, out.exit(),
                show(&out.stdout[..out.stdout.len().min(400)]), show(&out.stderr[..out.stderr.len().min(400)])),
        });
    }
    remove_tree(&dir);
}

// ------------------------------------------------------------------ invalid arguments

const BAD_KINDS: [&str; 22] = [
    "regex-paren", "regex-repeat", "regex-class", "glob-range", "glob-brace", "iglob", "enc", "flag", "value-m",
    "value-j", "patfile-dir", "patfile-missing", "type", "sort", "pre-glob", "max-filesize",
    "patfile-badutf8", "patfile-mixed", "e-mixed", "type-add", "config-bad-flag", "pcre2",
];

fn gen_bad(rng: &mut Rng) -> String {
    format!(
        "bad kind={} files={} j={} q={} special={} sfirst={} extra={}",
        rng.pick(&BAD_KINDS),
        rng.chance(1, 4) as u8,
        if rng.chance(1, 2) { 1 } else { 4 },
        rng.chance(1, 4) as u8,
        rng.pick(&["-", "-", "-V", "--version", "-h", "--help"]),
        rng.chance(1, 2) as u8,
        rng.pick(&["-", "-", "-i", "-n", "--hidden"])
    )
}

fn run_bad(case: &str, ctx: &mut Ctx, drv: &mut Driver, rep: &mut Report) {
    let f = fields(case);
    let (Some(kind), Some(files), Some(j), Some(q)) = (f.get("kind"), f.get("files"), f.get("j"), f.get("q")) else {
        rep.notes.push(format!("unparsable case: {}", case));
        return;
    };
    let files_mode = files == "1";
    rep.eval();
    ctx.counter += 1;
    let dir = fresh_dir(&ctx.scratch, &format!("b{}", ctx.counter));
    let t = dir.join("t");
    std::fs::create_dir_all(t.join("sub")).unwrap();
    std::fs::write(t.join("a.txt"), "needle one\nplain\n").unwrap();
    std::fs::write(t.join("sub/b.txt"), "needle two\n").unwrap();
    // the invalid argument combined with a special mode (help / version, before or after it) and with other
    // valid flags: errors of the flag parser win over the special modes (`parse_low` checks them first)
    let low_level = matches!(kind.as_str(), "flag" | "value-m" | "value-j" | "enc" | "sort" | "max-filesize");
    let special = f.get("special").map_or("-", |v| v.as_str());
    let special = if low_level && matches!(special, "-V" | "--version" | "-h" | "--help") { special } else { "-" };
    let sfirst = f.get("sfirst").map_or(false, |v| v == "1");
    let extra = f.get("extra").map_or("-", |v| v.as_str());
    let mut cmd = Command::new(&ctx.rg);
    cmd.current_dir(&dir).args(["--color", "never"]).arg(format!("-j{}", j));
    if kind != "config-bad-flag" { cmd.arg("--no-config"); }
    if q == "1" { cmd.arg("-q"); }
    if matches!(extra, "-i" | "-n" | "--hidden") { cmd.arg(extra); }
    if special != "-" && sfirst { cmd.arg(special); rep.branch("bad:with-special-mode-first"); }
    let mut pattern = Some("needle");
    let mut setup_err = false; // detected when the matcher is built (`args.matcher()?`), i.e. inside `search`
    match kind.as_str() {
        "regex-paren" => { pattern = Some("needle("); setup_err = true; }
        "regex-repeat" => { pattern = Some("needle{2,1}"); setup_err = true; }
        "regex-class" => { pattern = Some("\\p{NoSuchClass}needle"); setup_err = true; }
        "glob-range" => { cmd.args(["-g", "[z-a]"]); }
        "glob-brace" => { cmd.args(["-g", "{a,b"]); }
        "iglob" => { cmd.args(["--iglob", "[z-a]"]); }
        "enc" => { cmd.args(["-E", "no-such-encoding"]); }
        "flag" => { cmd.arg("--no-such-flag"); }
        "value-m" => { cmd.args(["-m", "x"]); }
        "value-j" => { cmd.args(["-j", "many"]); }
        "patfile-dir" => { cmd.args(["-f", "t/sub"]); pattern = None; }
        "patfile-missing" => { cmd.args(["-f", "t/nope"]); pattern = None; }
        "type" => { cmd.args(["-t", "nosuchtype"]); }
        "sort" => { cmd.args(["--sort", "size"]); }
        "pre-glob" => { cmd.args(["--pre", "cat", "--pre-glob", "[z-a]"]); }
        "max-filesize" => { cmd.args(["--max-filesize", "1x"]); }
        "patfile-badutf8" => {
            std::fs::write(dir.join("pats"), b"needle\xff\n").unwrap();
            cmd.args(["-f", "pats"]);
            pattern = None;
        }
        "patfile-mixed" => {
            // one valid and one invalid pattern
            std::fs::write(dir.join("pats"), b"needle\n(\n").unwrap();
            cmd.args(["-f", "pats"]);
            pattern = None;
            setup_err = true;
        }
        "e-mixed" => { cmd.args(["-e", "needle", "-e", "("]); pattern = None; setup_err = true; }
        "type-add" => { cmd.args(["--type-add", "nocolon"]); }
        "config-bad-flag" => {
            // an invalid flag in the configuration file is an invalid flag
            std::fs::write(dir.join("rc"), b"--no-such-flag\n").unwrap();
            cmd.env("RIPGREP_CONFIG_PATH", dir.join("rc"));
            cmd.arg("--ignore-case"); // anything; `--no-config` must not be given here
        }
        "pcre2" => {
            if ctx.have_pcre2 { remove_tree(&dir); return; }
            cmd.arg("-P");
            setup_err = true;
        }
        _ => { rep.notes.push(format!("unparsable case: {}", case)); return; }
    }
    if special != "-" && !sfirst { cmd.arg(special); rep.branch("bad:with-special-mode-last"); }
    // in --files mode a positional argument is a path, so regex kinds only make sense when searching
    let files_mode = files_mode && !setup_err && pattern.is_some();
    if files_mode {
        cmd.arg("--files");
    } else if let Some(p) = pattern {
        cmd.arg(p);
    }
    cmd.arg("t");
    let out = run_cmd(&mut cmd, None);
    let cfg = cfg_sx(if files_mode { "files" } else { "std" }, j != "1", q == "1", false, true, false, true, !setup_err);
    let model = drv.ask(&format!("c15.run {} {} (items s (f 0 m o) (f 1 m o))", cfg, if setup_err { "ok" } else { "err" }));
    rep.branch(&format!("bad:{}", kind));
    rep.nontrivial(case);
    let ok = out.exit() == 2 && out.stdout.is_empty() && !out.stderr.is_empty() && !out.timed_out;
    if model != "exit 2 out - diags fatal" {
        rep.violation(Violation {
            kind: "model_vs_spec".into(), class: "".into(), tie: "theorem invalid_args_no_results".into(),
            case: case.to_string(), detail: format!("model answers {}", model),
        });
    }
    if !ok {
        rep.violation(Violation {
            kind: "impl_vs_spec".into(), class: "".into(),
            tie: "invalid argument: status 2, no results, a diagnostic (theorem invalid_args_no_results)".into(),
            case: case.to_string(),
            detail: format!("rg exit {} stdout {} stderr {}", out.exit(), show(&out.stdout[..out.stdout.len().min(300)]),
                show(&out.stderr[..out.stderr.len().min(300)])),
        });
    }
    remove_tree(&dir);
}

// ------------------------------------------------------------------ consumer closes the pipe

/// Shared trees for the pipe stream (built once per run, on demand).
fn pipe_tree(ctx: &Ctx, which: &str) -> PathBuf {
    let root = ctx.scratch.join(format!("pipe-{}", which));
    if root.exists() {
        return root;
    }
    std::fs::create_dir_all(&root).unwrap();
    chmod(&ctx.scratch, 0o755);
    match which {
        "one" => {
            let mut s = String::new();
            for i in 0..2500 {
                s.push_str(&format!("needle line {:05} padding padding\n", i));
            }
            std::fs::write(root.join("big.txt"), s).unwrap();
        }
        "multi" => {
            std::fs::create_dir_all(root.join("d")).unwrap();
            for f in 0..24 {
                let mut s = String::new();
                for i in 0..120 {
                    s.push_str(&format!("needle file {:02} line {:04} padding\n", f, i));
                }
                std::fs::write(root.join("d").join(format!("f{:02}.txt", f)), s).unwrap();
            }
        }
        _ => {
            std::fs::create_dir_all(root.join("d")).unwrap();
            for f in 0..3000 {
                std::fs::write(root.join("d").join(format!("file{:05}.txt", f)), "x\n").unwrap();
            }
        }
    }
    let script = root.join("pre.sh");
    write_script(&script, "exec cat");
    root
}

fn pipe_args(tree: &str, mode: &str, j: usize, lb: bool, err: bool, pre: bool, root: &Path) -> Vec<String> {
    let mut a: Vec<String> = vec!["--color".into(), "never".into(), "--no-config".into(), format!("-j{}", j)];
    if lb { a.push("--line-buffered".into()); }
    if pre && mode != "files" {
        a.push("--pre".into());
        a.push(root.join("pre.sh").display().to_string());
    }
    match mode {
        "files" => a.push("--files".into()),
        "passthru" => { a.push("--passthru".into()); a.push("nomatchatall".into()); }
        "count" => { a.push("-c".into()); a.push("needle".into()); }
        "stats" => { a.push("--stats".into()); a.push("needle".into()); }
        "json" => { a.push("--json".into()); a.push("needle".into()); }
        _ => a.push("needle".into()),
    }
    if err { a.push("missing-path".into()); }
    a.push(if tree == "one" { "big.txt".into() } else { "d".into() });
    a
}

fn run_pipe(case: &str, ctx: &mut Ctx, drv: &mut Driver, rep: &mut Report) {
    let f = fields(case);
    let get = |k: &str| f.get(k).cloned();
    let (Some(tree), Some(mode), Some(j), Some(lb), Some(err), Some(pre), Some(k)) =
        (get("tree"), get("mode"), get("j"), get("lb"), get("err"), get("pre"), get("k")) else {
        rep.notes.push(format!("unparsable case: {}", case));
        return;
    };
    let (Ok(j), Ok(k)) = (j.parse::<usize>(), k.parse::<usize>()) else {
        rep.notes.push(format!("unparsable case: {}", case));
        return;
    };
    let (lb, err, pre) = (lb == "1", err == "1", pre == "1" && mode != "files");
    rep.eval();
    let root = pipe_tree(ctx, &tree);
    let args = pipe_args(&tree, &mode, j, lb, err, pre, &root);
    let key = args.join(" ") + &tree;
    if !ctx.refs.contains_key(&key) {
        let mut c = Command::new(&ctx.rg);
        c.current_dir(&root).args(&args);
        let r = run_cmd(&mut c, None);
        ctx.refs.insert(key.clone(), r);
    }
    let reference = ctx.refs[&key].clone();
    let mut c = Command::new(&ctx.rg);
    c.current_dir(&root).args(&args);
    let (out, cap) = run_cmd_close_after(&mut c, k);
    if out.timed_out || reference.timed_out {
        rep.violation(Violation {
            kind: "impl_vs_spec".into(), class: "".into(), tie: "a closed pipe ends the run promptly".into(),
            case: case.to_string(), detail: format!("rg did not terminate within {:?} (twice: re-run with a doubled limit) after the consumer went away", WATCHDOG),
        });
        return;
    }
    let total = reference.stdout.len();
    let must_notice = total > k + cap + MARGIN;
    // --- the model: entries with one broken pipe somewhere
    let files_mode = mode == "files";
    let one_file = tree == "one" && !err; // a single explicit file forces one thread
    let par = j > 1 && !one_file;
    let nfiles = if tree == "one" { 1 } else { 4 };
    let at = (k % nfiles) as usize;
    let fk = if pre { "pf" } else { "f" };
    let mut items: Vec<String> = vec![];
    if err { items.push("w".into()); }
    if tree != "one" { items.push("s".into()); }
    let m = if mode == "passthru" { "n" } else { "m" };
    for i in 0..nfiles {
        let it = if i != at {
            format!("({} {} {} o)", fk, i, m)
        } else if files_mode {
            format!("(f {} {} p)", i, m)
        } else if par {
            format!("({} {} {} p)", fk, i, m)
        } else {
            format!("({} {} p o)", fk, i)
        };
        items.push(it);
        if !par && !files_mode && pre && i > at {
            // once the pipe is gone every later write fails the same way
            let last = items.len() - 1;
            items[last] = format!("({} {} p o)", fk, i);
        }
    }
    let cfg = cfg_sx(&mode, par, false, mode == "stats", true, false, true, true);
    let items_sx = format!("(items {})", items.join(" "));
    let model = drv.ask(&format!("c15.run {} ok {}", cfg, items_sx));
    let guard = drv.ask(&format!("c15.guard {} {}", cfg, items_sx));
    let Some((m_exit, _, m_diags)) = parse_reply(&model) else {
        rep.violation(Violation {
            kind: "impl_vs_model".into(), class: "".into(), tie: "driver protocol".into(), case: case.to_string(),
            detail: format!("driver reply: {}", model),
        });
        return;
    };
    let g_hit = guard.contains("pipeHit 1");
    let g_intact = guard.contains("kindIntact 1");
    rep.branch(&format!("pipe:{}:{}", mode, if par { "multi" } else { "single" }));
    rep.branch(if must_notice { "pipe:must-notice" } else { "pipe:may-notice" });
    if must_notice { rep.nontrivial(case); }
    if !g_hit {
        rep.violation(Violation {
            kind: "model_vs_spec".into(), class: "".into(), tie: "pipeHit of the generated entry list".into(),
            case: case.to_string(), detail: format!("guard reply: {}", guard),
        });
    }
    // theorems C15_pipe / C15_pipe_pre
    if g_hit && (!g_intact || m_exit != 0 || m_diags.contains("fatal")) {
        rep.violation(Violation {
            kind: "model_vs_spec".into(), class: "".into(), tie: "theorem C15_pipe".into(),
            case: case.to_string(), detail: format!("model: {} guard: {}", model, guard),
        });
    }
    let class = "";
    let se = out.stderr_str();
    let pipe_diag = se.contains("Broken pipe") || se.contains("os error 32");
    let stray: Vec<&str> = se.lines().filter(|l| !(err && l.contains("missing-path"))).collect();
    if must_notice {
        // the consumer is certainly gone before rg is done writing: rg must see EPIPE
        if out.exit() != m_exit || (m_diags.iter().any(|d| d.starts_with("f:")) != pipe_diag) {
            rep.violation(Violation {
                kind: "impl_vs_model".into(), class: "".into(),
                tie: "rg with stdout closed after k bytes vs Model.Exit.main (theorem C15_pipe)".into(),
                case: case.to_string(),
                detail: format!("rg exit {} stderr {} | model {}", out.exit(), show(&out.stderr[..out.stderr.len().min(300)]), model),
            });
        }
        if out.exit() != 0 || !stray.is_empty() {
            rep.violation(Violation {
                kind: "impl_vs_spec".into(), class: class.into(),
                tie: "consumer closes the pipe: status 0 and no diagnostic".into(),
                case: case.to_string(),
                detail: format!("output {} bytes, consumer read {} then closed (pipe capacity {}): rg exit {} stderr {}",
                    total, out.stdout.len(), cap, out.exit(), show(&out.stderr[..out.stderr.len().min(300)])),
            });
        }
    } else {
        // rg may or may not have noticed: either the pipe contract or the ordinary status
        let ordinary = out.exit() == reference.exit() && !pipe_diag;
        let piped = out.exit() == 0 && stray.is_empty();
        if !ordinary && !piped {
            rep.violation(Violation {
                kind: "impl_vs_spec".into(), class: class.into(),
                tie: "consumer closes the pipe: status 0 and no diagnostic (or the run never noticed)".into(),
                case: case.to_string(),
                detail: format!("output {} bytes, k {} (pipe capacity {}): rg exit {} (undisturbed run: {}) stderr {}",
                    total, k, cap, out.exit(), reference.exit(), show(&out.stderr[..out.stderr.len().min(300)])),
            });
        }
    }
}

fn gen_pipe(rng: &mut Rng, k: usize) -> String {
    let tree = *rng.pick(&["one", "multi", "multi", "many"]);
    let mode = if tree == "many" { "files" } else { *rng.pick(&["std", "std", "passthru", "count", "stats", "json"]) };
    format!(
        "pipe tree={} mode={} j={} lb={} err={} pre={} k={}",
        tree,
        mode,
        if rng.chance(1, 2) { 1 } else { 4 },
        rng.chance(1, 2) as u8,
        rng.chance(1, 3) as u8,
        (mode != "files" && rng.chance(1, 4)) as u8,
        k
    )
}

// ------------------------------------------------------------------ further error sources: stdin, the output device, the configuration file

/// `cfg_sx` with the two environment inputs of the model: the configuration file could not be read, and what the
/// final flush of stdout returns (o | p | e)
fn cfg_env_sx(mode: &str, par: bool, q: bool, config_err: bool, flush: &str) -> String {
    cfg_env_stats_sx(mode, par, q, false, config_err, flush)
}
fn cfg_env_stats_sx(mode: &str, par: bool, q: bool, stats: bool, config_err: bool, flush: &str) -> String {
    let base = cfg_sx(mode, par, q, stats, true, false, true, true);
    format!("{} {} {})", base.trim_end_matches(')'), config_err as u8, flush)
}
const CLASS_TRAILER: &str = "summary-write-error-ignored";
const MISC_KINDS: [&str; 23] = [
    "config-missing", "config-dir", "patfile-empty", "stdin-match", "stdin-nomatch", "stdin-dir", "full-std-small", "full-std-big",
    "full-count-small", "full-files-small", "full-files-big", "full-json-small", "full-nomatch", "full-quiet",
    "special-plain", "special-badregex", "special-full", "special-pipe",
    // the --stats trailer / the --json summary as part of the output, and as the only output (no match, or --quiet)
    "full-stats-small", "full-stats-nomatch", "full-json-nomatch", "full-stats-quiet", "full-count-stats-nomatch",
];
/// the modes that do not search (`w=k` picks one)
const SPECIALS: [&[&str]; 8] = [&["--help"], &["-h"], &["--version"], &["-V"], &["--type-list"], &["--pcre2-version"], &["--generate", "man"], &["--generate", "complete-zsh"]];

fn gen_misc(rng: &mut Rng) -> String {
    format!("misc kind={} j={} lb={} w={}", rng.pick(&MISC_KINDS), if rng.chance(1, 2) { 1 } else { 4 }, rng.chance(1, 4) as u8, rng.below(8))
}

fn run_misc(case: &str, ctx: &mut Ctx, drv: &mut Driver, rep: &mut Report) {
    let f = fields(case);
    let (Some(kind), Some(j)) = (f.get("kind"), f.get("j").and_then(|v| v.parse::<usize>().ok())) else {
        rep.notes.push(format!("unparsable case: {}", case));
        return;
    };
    let lb = f.get("lb").map_or(false, |v| v == "1");
    if !MISC_KINDS.contains(&kind.as_str()) {
        rep.notes.push(format!("unparsable case: {}", case));
        return;
    }
    rep.eval();
    ctx.counter += 1;
    let dir = fresh_dir(&ctx.scratch, &format!("m{}", ctx.counter));
    let t = dir.join("t");
    std::fs::create_dir_all(t.join("sub")).unwrap();
    std::fs::write(t.join("a.txt"), "needle one\nplain\n").unwrap();
    std::fs::write(t.join("sub/b.txt"), "needle two\n").unwrap();
    rep.branch(&format!("misc:{}", kind));
    rep.nontrivial(case);
    let base = |cmd: &mut Command| {
        cmd.current_dir(&dir).args(["--color", "never"]).arg(format!("-j{}", j));
        if lb { cmd.arg("--line-buffered"); }
    };
    let par = j > 1;
    let mut problems: Vec<(String, &'static str)> = vec![];
    let mut mproblems: Vec<String> = vec![];
    match kind.as_str() {
        "config-missing" | "config-dir" => {
            // a configuration file that cannot be read: a diagnostic, the results of the search, status 2
            let mut cmd = Command::new(&ctx.rg);
            base(&mut cmd);
            cmd.env("RIPGREP_CONFIG_PATH", if kind == "config-dir" { t.clone() } else { dir.join("no-such-rc") });
            cmd.args(["needle", "t"]);
            let out = run_cmd(&mut cmd, None);
            let lines = sorted_lines(&out.stdout);
            if lines != vec![b"t/a.txt:needle one".to_vec(), b"t/sub/b.txt:needle two".to_vec()] {
                problems.push((format!("results suppressed or altered: {}", show(&out.stdout)), ""));
            }
            let diag = out.stderr_str().contains("RIPGREP_CONFIG_PATH");
            if !diag { problems.push(("no diagnostic about the configuration file".into(), "")); }
            // (F38, fixed by 379b616: the complaint counts as an error; theorem C15_config)
            if out.exit() != 2 {
                problems.push((format!("an error was reported ({}) but the exit status is {}", show(&out.stderr[..out.stderr.len().min(160)]), out.exit()), ""));
            }
            let model = drv.ask(&format!("c15.run {} ok (items (f 0 m o) (f 1 m o))", cfg_env_sx("std", par, false, true, "o")));
            match parse_reply(&model) {
                Some((m_exit, m_out, m_diags)) => {
                    if out.exit() != m_exit || m_out.len() != 2 || !m_diags.contains("cfg") {
                        mproblems.push(format!("rg exit {} / model {}", out.exit(), model));
                    }
                }
                None => mproblems.push(format!("driver replies {}", model)),
            }
        }
        "patfile-empty" => {
            // no pattern at all: nothing can match, nothing is searched, no error
            std::fs::write(dir.join("pats"), b"").unwrap();
            let mut cmd = Command::new(&ctx.rg);
            base(&mut cmd);
            cmd.args(["--no-config", "-f", "pats", "t", "missing-path"]);
            let out = run_cmd(&mut cmd, None);
            let model = drv.ask(&format!("c15.run {} ok (items s (f 0 m o) (f 1 m o) w)", cfg_sx("std", par, false, false, true, false, false, true)));
            if model != "exit 1 out - diags -" { mproblems.push(format!("model answers {}", model)); }
            if out.exit() != 1 || !out.stdout.is_empty() || !out.stderr.is_empty() {
                problems.push((format!("rg exit {} stdout {} stderr {}", out.exit(), show(&out.stdout), show(&out.stderr)), ""));
            }
        }
        k if k.starts_with("special-") => {
            // a mode that does not search: status 0 (--pcre2-version: 1 when PCRE2 is not compiled in), whatever else is on the
            // command line that the flag parser accepts; a write error is an error; a closed pipe is not
            let w = f.get("w").and_then(|v| v.parse::<usize>().ok()).unwrap_or(0) % SPECIALS.len();
            let mode = SPECIALS[w];
            let mk = |extra: &[&str]| {
                let mut cmd = Command::new(&ctx.rg);
                cmd.current_dir(&dir).arg("--no-config").args(mode).args(extra);
                cmd
            };
            let want = if mode[0] == "--pcre2-version" && !ctx.have_pcre2 { 1 } else { 0 };
            let plain = run_cmd(&mut mk(&[]), None);
            if plain.exit() != want || plain.stdout.is_empty() || !plain.stderr.is_empty() {
                problems.push((format!("rg {}: exit {} (expected {}), {} bytes, stderr {}", mode.join(" "), plain.exit(), want, plain.stdout.len(), show(&plain.stderr)), ""));
            }
            match k {
                "special-badregex" => {
                    // patterns and paths are not looked at
                    let out = run_cmd(&mut mk(&["-e", "(", "no-such-path"]), None);
                    if out.exit() != want || out.stdout != plain.stdout || !out.stderr.is_empty() {
                        problems.push((format!("rg {} -e '(' no-such-path: exit {} stderr {}", mode.join(" "), out.exit(), show(&out.stderr)), ""));
                    }
                }
                "special-full" => {
                    let out = run_cmd_redirected(&mut mk(&[]), Some(std::path::Path::new("/dev/full")), None);
                    // (F37, fixed by f052aea: --type-list flushes explicitly, like every other path)
                    if out.exit() != 2 || out.stderr.is_empty() {
                        problems.push((format!("rg {} > /dev/full: {} bytes could not be written, yet exit {} stderr {}", mode.join(" "), plain.stdout.len(), out.exit(), show(&out.stderr)), ""));
                    }
                    let model = drv.ask(&format!("c15.run {} special (items)", cfg_env_sx("std", false, false, false, "e")));
                    if parse_reply(&model).map_or(true, |(e, _, d)| e != out.exit() || !d.contains("fatal")) {
                        mproblems.push(format!("rg exit {} / model {}", out.exit(), model));
                    }
                }
                "special-pipe" => {
                    let (out, _) = run_cmd_close_after(&mut mk(&[]), 0);
                    // (the pipe contract, status 0, or — if rg happened to write before the pipe was closed — the ordinary status)
                    if (out.exit() != want && out.exit() != 0) || !out.stderr.is_empty() {
                        problems.push((format!("rg {} into a closed pipe: exit {} stderr {}", mode.join(" "), out.exit(), show(&out.stderr)), ""));
                    }
                }
                _ => {}
            }
        }
        "stdin-match" | "stdin-nomatch" | "stdin-dir" => {
            // stdin as one of several inputs; a stdin that cannot be read is a file that cannot be read
            let mut cmd = Command::new(&ctx.rg);
            base(&mut cmd);
            cmd.args(["--no-config", "--with-filename", "needle", "-", "t/a.txt"]);
            let out = match kind.as_str() {
                "stdin-dir" => run_cmd_redirected(&mut cmd, None, Some(&t)),
                "stdin-match" => run_cmd(&mut cmd, Some(b"plain\nneedle from stdin\n")),
                _ => run_cmd(&mut cmd, Some(b"plain only\n")),
            };
            let sr = match kind.as_str() { "stdin-dir" => "e", "stdin-match" => "m", _ => "n" };
            let cfg = cfg_sx("std", par, false, false, true, false, true, true);
            let items = format!("(items (f 0 {} o) (f 1 m o))", sr);
            let model = drv.ask(&format!("c15.run {} ok {}", cfg, items));
            let spec = drv.ask(&format!("c15.spec {} {}", cfg, items));
            let mut want: Vec<Vec<u8>> = vec![b"t/a.txt:needle one".to_vec()];
            if sr == "m" { want.push(b"<stdin>:needle from stdin".to_vec()); }
            want.sort();
            if sorted_lines(&out.stdout) != want { problems.push((format!("results: {}", show(&out.stdout)), "")); }
            let diag = out.stderr_str().contains("<stdin>");
            if diag != (sr == "e") { problems.push((format!("diagnostic for stdin: {} ({})", diag, show(&out.stderr)), "")); }
            match (parse_reply(&model), parse_reply(&spec)) {
                (Some((m_exit, _, _)), Some((s_exit, _, _))) => {
                    if out.exit() != m_exit { mproblems.push(format!("exit {} vs model {}", out.exit(), m_exit)); }
                    if out.exit() != s_exit { problems.push((format!("exit {} vs contract {}", out.exit(), s_exit), "")); }
                }
                _ => mproblems.push(format!("driver replies {} / {}", model, spec)),
            }
        }
        _ => {
            // stdout is a device that accepts nothing (/dev/full): a write error is an error
            let (mode_args, big): (Vec<&str>, bool) = match kind.as_str() {
                "full-std-small" => (vec!["needle"], false),
                "full-std-big" => (vec!["needle"], true),
                "full-count-small" => (vec!["-c", "needle"], false),
                "full-files-small" => (vec!["--files"], false),
                "full-files-big" => (vec!["--files"], true),
                "full-json-small" => (vec!["--json", "needle"], false),
                "full-nomatch" => (vec!["nomatchatall"], false),
                "full-stats-small" => (vec!["--stats", "needle"], false),
                "full-stats-nomatch" => (vec!["--stats", "nomatchatall"], false),
                "full-json-nomatch" => (vec!["--json", "nomatchatall"], false),
                "full-stats-quiet" => (vec!["-q", "--stats", "needle"], false),
                "full-count-stats-nomatch" => (vec!["-c", "--stats", "nomatchatall"], false),
                _ => (vec!["-q", "needle"], false),
            };
            // the summary is all there is to write
            let trailer_only = matches!(kind.as_str(), "full-stats-nomatch" | "full-json-nomatch" | "full-stats-quiet" | "full-count-stats-nomatch");
            let quiet = mode_args[0] == "-q";
            let root = if big { pipe_tree(ctx, if mode_args[0] == "--files" { "many" } else { "multi" }) } else { dir.clone() };
            let target = if big { "d" } else { "t" };
            let mk = || {
                let mut cmd = Command::new(&ctx.rg);
                cmd.current_dir(&root).args(["--color", "never", "--no-config"]).arg(format!("-j{}", j));
                if lb { cmd.arg("--line-buffered"); }
                cmd.args(&mode_args).arg(target);
                cmd
            };
            let reference = run_cmd(&mut mk(), None);
            let out = run_cmd_redirected(&mut mk(), Some(std::path::Path::new("/dev/full")), None);
            let writes_something = !reference.stdout.is_empty();
            if out.timed_out { problems.push(("rg did not terminate".into(), "")); }
            if !writes_something {
                // nothing to write: the device does not matter
                if out.exit() != reference.exit() || !out.stderr.is_empty() {
                    problems.push((format!("nothing is written, yet exit {} (undisturbed: {}) stderr {}", out.exit(), reference.exit(), show(&out.stderr)), ""));
                }
            } else {
                // (F37, fixed by f052aea: what is still buffered at the end is flushed explicitly; theorem C15_flush)
                if out.exit() != 2 || out.stderr.is_empty() {
                    // class — mechanism test: the summary (--stats trailer / --json summary) is the only thing rg writes,
                    // it is written by print_stats, whose own write errors both drivers discard (`let _ =`): several
                    // threads (the trailer is written and flushed there and then) or --line-buffered (nothing is left for
                    // the final flush); and rg behaves exactly as if undisturbed
                    let mech = trailer_only && (par || lb) && out.exit() == reference.exit() && out.stderr.is_empty();
                    if trailer_only { rep.branch(&format!("class:{}:{}", CLASS_TRAILER, if mech { "attributed" } else { "mechanism-absent" })); }
                    problems.push((format!("{} bytes could not be written to stdout (No space left on device), yet exit {} stderr {}",
                        reference.stdout.len(), out.exit(), show(&out.stderr[..out.stderr.len().min(160)])), if mech { CLASS_TRAILER } else { "" }));
                }
                // the model at this point: small output on a single-writer path = every write is buffered and the final
                // flush fails; several threads = every BufferWriter::print fails
                let small_single = reference.stdout.len() < 8192 && !lb && (j == 1 || mode_args[0] == "--files");
                let sr = if quiet || !trailer_only { "m" } else { "n" };
                let model = if trailer_only {
                    // the summary is written after the loop: single-threaded and block buffered it is what the final flush
                    // writes (flush = e); with several threads print_stats's and the flush's errors are discarded, so the
                    // model's run is the undisturbed one. (single-threaded and line buffered: what is left for the final
                    // flush depends on the line writer's state — not put to the model)
                    if small_single {
                        Some(drv.ask(&format!("c15.run {} ok (items (f 0 {} o) (f 1 {} o))", cfg_env_stats_sx("std", false, quiet, true, false, "e"), sr, sr)))
                    } else if par {
                        Some(drv.ask(&format!("c15.run {} ok (items (f 0 {} o) (f 1 {} o))", cfg_env_stats_sx("std", true, quiet, true, false, "o"), sr, sr)))
                    } else {
                        None
                    }
                } else if small_single {
                    let m = if mode_args[0] == "--files" { "files" } else { "std" };
                    Some(drv.ask(&format!("c15.run {} ok (items (f 0 m o) (f 1 m o))", cfg_env_sx(m, par, false, false, "e"))))
                } else if par && !big && mode_args[0] != "--files" {
                    Some(drv.ask(&format!("c15.run {} ok (items (f 0 m e) (f 1 m e))", cfg_env_sx("std", true, false, false, "o"))))
                } else {
                    None
                };
                if let Some(model) = model {
                    rep.branch(if small_single { "misc:full:model-final-flush" } else if trailer_only { "misc:full:model-summary-only-parallel" } else { "misc:full:model-buffer-writes" });
                    let silent_ok = trailer_only && !small_single; // the model mirrors the discarded error
                    if parse_reply(&model).map_or(true, |(e, _, d)| e != out.exit() || (d.is_empty() && !silent_ok)) {
                        mproblems.push(format!("rg exit {} / model {}", out.exit(), model));
                    }
                }
            }
        }
    }
    if !mproblems.is_empty() {
        rep.violation(Violation {
            kind: "impl_vs_model".into(), class: "".into(), tie: "rg exit status vs Model.Exit.main".into(),
            case: case.to_string(), detail: mproblems.join("; "),
        });
    }
    for (p, class) in problems {
        rep.violation(Violation {
            kind: "impl_vs_spec".into(), class: class.into(),
            tie: "exit status 2 and a diagnostic when an error occurred; other results intact".into(),
            case: case.to_string(), detail: p,
        });
    }
    remove_tree(&dir);
}

fn run_case(case: &str, ctx: &mut Ctx, drv: &mut Driver, rep: &mut Report) {
    match case.split(' ').next() {
        Some("fault") => match parse_fault(case) {
            Some(c) => run_fault(case, &c, ctx, drv, rep),
            None => rep.notes.push(format!("unparsable case: {}", case)),
        },
        Some("bad") => run_bad(case, ctx, drv, rep),
        Some("pipe") => run_pipe(case, ctx, drv, rep),
        Some("misc") => run_misc(case, ctx, drv, rep),
        _ => rep.notes.push(format!("unparsable case: {}", case)),
    }
}

fn main() {
    let args = parse_args();
    let mut drv = Driver::spawn(&args.driver);
    let mut rep = Report::new(
        "C15",
        "fault: generated trees (0-8 entries: healthy matching/non-matching files, mode-000 files and directories searched \
         with privileges dropped, dangling symlinks with and without -L, explicit missing / dangling paths, files removed or \
         truncated by a --pre script between listing and opening) x modes standard/-c/-l/--json/--passthru/--files x -j1/-j4 x \
         --quiet/--sort/--stats/--no-messages/implicit path/-m0; bad: 16 kinds of invalid arguments, the flag-parser ones also combined with -h/--help/-V/--version (before and after) and other valid flags; misc: the modes that do not search (--help/-h/--version/-V/--type-list/--pcre2-version/--generate: plain, with an invalid pattern and a missing path, into /dev/full, into a closed pipe), an unreadable configuration file, an empty pattern file, stdin as one of the inputs (matching, not matching, unreadable), \
         stdout on /dev/full (small and large outputs, standard/-c/--json/--files/-q/no match, with the --stats trailer / the --json summary as part of the output and as the only output (no match, --quiet), line buffered or not); pipe: stdout closed after k \
         bytes (k sampled; every k <= 200 in thorough) on outputs larger than the pipe, -j1/-j4, block/line buffered, with and \
         without a reported fault, with and without --pre. Non-trivial: a fault together with at least one healthy result and \
         >= 2 entries; every invalid-argument case; a pipe case in which rg must run into EPIPE. Distinct by case text. \
         Not compared: order of diagnostics, message texts, output order under -j4.",
    );
    let rg = args.rg.clone().expect("C15 needs --rg (needs_rg in checks/C15.json)");
    let rg = std::fs::canonicalize(&rg).unwrap_or(rg);
    std::fs::create_dir_all(&args.scratch).expect("scratch");
    chmod(&args.scratch, 0o755);
    let can_drop = privs_droppable(&args.scratch);
    if !can_drop {
        rep.notes.push("privileges cannot be dropped here: mode-000 faults are skipped (other fault sources still run)".into());
    }
    let have_pcre2 = {
        let mut c = Command::new(&rg);
        c.arg("--pcre2-version");
        run_cmd(&mut c, None).code == Some(0)
    };
    let mut ctx = Ctx { rg, scratch: args.scratch.clone(), can_drop, have_pcre2, counter: 0, refs: HashMap::new() };
    for c in corpus_cases(&args) {
        run_case(&c, &mut ctx, &mut drv, &mut rep);
    }
    if args.replay.is_none() {
        let mut rng = Rng::new(args.seed);
        let n_fault = args.cases.unwrap_or(if args.thorough { 12000 } else { 1200 });
        for i in 0..n_fault {
            let case = if i % 12 == 11 { gen_bad(&mut rng) } else if i % 12 == 5 { gen_misc(&mut rng) } else { gen_fault(&mut rng, i % 10 == 9) };
            if i < 4 { rep.sample(case.clone()); }
            run_case(&case, &mut ctx, &mut drv, &mut rep);
        }
        for kind in BAD_KINDS {
            for files in 0..2 {
                run_case(&format!("bad kind={} files={} j=1 q=0 special=- sfirst=0 extra=-", kind, files), &mut ctx, &mut drv, &mut rep);
            }
        }
        for kind in ["flag", "value-m", "value-j", "enc", "sort", "max-filesize"] {
            for special in ["-V", "--version", "-h", "--help"] {
                for sfirst in 0..2 {
                    run_case(&format!("bad kind={} files=0 j=1 q=0 special={} sfirst={} extra=-n", kind, special, sfirst), &mut ctx, &mut drv, &mut rep);
                }
            }
        }
        // pipe stream: sampled k, then (thorough) every k <= 200 for every configuration
        let ks: Vec<usize> = if args.thorough {
            (0..=200).chain([255, 256, 1000, 4095, 4096, 4097, 8192, 20000, 60000, 200000]).collect()
        } else {
            vec![0, 1, 2, 7, 64, 200, 4096, 9000, 70000]
        };
        let reps = if args.thorough { 6 } else { 8 };
        for (idx, k) in ks.iter().enumerate() {
            for r in 0..reps {
                let case = gen_pipe(&mut rng, *k);
                if idx == 0 && r < 2 { rep.sample(case.clone()); }
                run_case(&case, &mut ctx, &mut drv, &mut rep);
            }
        }
        if args.thorough {
            // exhaustive over the configuration grid for every k <= 200
            for k in 0..=200usize {
                for (tree, mode) in [("one", "std"), ("multi", "std"), ("multi", "passthru"), ("many", "files")] {
                    for j in [1, 4] {
                        for lb in 0..2 {
                            let case = format!("pipe tree={} mode={} j={} lb={} err={} pre=0 k={}", tree, mode, j, lb, k % 2, k);
                            run_case(&case, &mut ctx, &mut drv, &mut rep);
                        }
                    }
                }
            }
        }
    }
    let _ = BTreeMap::<u8, u8>::new();
    if watchdog_retries() > 0 {
        rep.branches.insert("watchdog-retries".to_string(), watchdog_retries());
        rep.notes.push(format!("{} child process(es) exceeded the {:?} watchdog and were re-run with twice the limit", watchdog_retries(), WATCHDOG));
    }
    rep.write(&args);
}
