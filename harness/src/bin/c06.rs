//! C06 — the single-threaded and the parallel walker report the same entries, once each, and that set
//! is the set reachable from the roots under max_depth / max_filesize / follow_links /
//! same_file_system / filter_entry / ignore rules; symlink loops are reported as errors and the walk ends.
//!
//! Per case a file tree is materialised under the scratch directory (plus, when /dev/shm is a different
//! device, a second area there that is reachable only through symlinks: directories "on another file
//! system"), then compared as sorted multisets (order is not part of the property):
//!   real `WalkBuilder::build()`  vs  real `build_parallel().run()` (threads 1..16)  vs  an independent
//!   recursive listing written against std::fs only  vs  the Lean models (serial / parallel)  vs  the
//!   Lean spec `reach`.
use ignore::{WalkBuilder, WalkState};
use rgverif_harness::*;
use std::collections::{BTreeMap, HashMap};
use std::os::unix::fs::MetadataExt;
use std::path::{Path, PathBuf};
use std::sync::{Arc, Mutex};

#[path = "../c06probe.rs"]
mod c06probe;

// ------------------------------------------------------------------ tree description

#[derive(Clone, Debug, PartialEq)]
enum T {
    /// locked: mode 000 (irrelevant for a walker, which never opens files; generated to show just that)
    File { name: String, size: usize, locked: bool },
    /// locked: mode 000 (the walk runs with fsuid nobody for such trees: read_dir fails with EACCES);
    /// mount: a tmpfs is mounted on the directory before its children are created (a real other device)
    Dir { name: String, ign: Vec<String>, kids: Vec<T>, locked: bool, mount: bool },
    /// target: "main/a/b", "alt/x" or "!" (dangling)
    Link { name: String, target: String },
    /// a second name (hard link) for the file at `target`
    Hard { name: String, target: String },
    /// a named pipe
    Fifo { name: String },
}

/// Names with odd bytes: in case texts they are written `O<i>`.
static LONG_NAME: [u8; 200] = [b'L'; 200];
fn odd_names() -> Vec<&'static [u8]> {
    vec![
        b" sp ace", "\u{fc}\u{20ac}".as_bytes(), b".dot", b"#h", b"!b", b"[x]", b"a*b", b"tr.", b"nl\nx", b"\xff\xfe", b"-dash",
        b"a\\b", b"?", b"IGN2", &LONG_NAME,
    ]
}

fn real_name(tok: &str) -> Vec<u8> {
    if let Some(i) = tok.strip_prefix('O').and_then(|d| d.parse::<usize>().ok()) {
        if let Some(n) = odd_names().get(i) {
            return n.to_vec();
        }
    }
    tok.as_bytes().to_vec()
}

fn tok_of(name: &std::ffi::OsStr) -> String {
    use std::os::unix::ffi::OsStrExt;
    let b = name.as_bytes();
    if let Some(i) = odd_names().iter().position(|n| *n == b) {
        return format!("O{}", i);
    }
    String::from_utf8_lossy(b).to_string()
}

fn real_path(base: &Path, rel: &str) -> PathBuf {
    use std::os::unix::ffi::OsStrExt;
    let mut p = base.to_path_buf();
    for c in rel.split('/').filter(|c| !c.is_empty()) {
        p.push(std::ffi::OsStr::from_bytes(&real_name(c)));
    }
    p
}

impl T {
    fn name(&self) -> &str {
        match self {
            T::File { name, .. }
            | T::Dir { name, .. }
            | T::Link { name, .. }
            | T::Hard { name, .. }
            | T::Fifo { name } => name,
        }
    }
}

fn show_t(t: &T, out: &mut String) {
    match t {
        T::File { name, size, locked } => out.push_str(&format!("{}:{}{}", name, size, if *locked { "!" } else { "" })),
        T::Link { name, target } => out.push_str(&format!("{}>{}", name, target)),
        T::Hard { name, target } => out.push_str(&format!("{}={}", name, target)),
        T::Fifo { name } => out.push_str(&format!("{}|", name)),
        T::Dir { name, ign, kids, locked, mount } => {
            out.push_str(name);
            if *locked {
                out.push('!');
            }
            if *mount {
                out.push('@');
            }
            if !ign.is_empty() {
                out.push('[');
                out.push_str(&ign.join(";"));
                out.push(']');
            }
            show_ts(kids, out);
        }
    }
}

fn show_ts(ts: &[T], out: &mut String) {
    out.push('(');
    for (i, k) in ts.iter().enumerate() {
        if i > 0 {
            out.push(',');
        }
        show_t(k, out);
    }
    out.push(')');
}

struct P<'a> {
    b: &'a [u8],
    i: usize,
}

impl<'a> P<'a> {
    fn peek(&self) -> Option<u8> {
        self.b.get(self.i).copied()
    }
    fn word(&mut self, extra: &[u8]) -> String {
        let s = self.i;
        while let Some(c) = self.peek() {
            if c.is_ascii_alphanumeric() || extra.contains(&c) {
                self.i += 1;
            } else {
                break;
            }
        }
        String::from_utf8_lossy(&self.b[s..self.i]).to_string()
    }
    fn node(&mut self) -> Option<T> {
        let name = self.word(b"_");
        if name.is_empty() {
            return None;
        }
        match self.peek() {
            Some(b':') => {
                self.i += 1;
                let n = self.word(b"");
                let mut locked = false;
                if self.peek() == Some(b'!') {
                    self.i += 1;
                    locked = true;
                }
                Some(T::File { name, size: n.parse().ok()?, locked })
            }
            Some(b'=') => {
                self.i += 1;
                let t = self.word(b"/_");
                Some(T::Hard { name, target: t })
            }
            Some(b'|') => {
                self.i += 1;
                Some(T::Fifo { name })
            }
            Some(b'>') => {
                self.i += 1;
                let t = self.word(b"/!_");
                Some(T::Link { name, target: t })
            }
            Some(b'[') | Some(b'(') | Some(b'!') | Some(b'@') => {
                let mut ign = vec![];
                let mut locked = false;
                let mut mount = false;
                if self.peek() == Some(b'!') {
                    self.i += 1;
                    locked = true;
                }
                if self.peek() == Some(b'@') {
                    self.i += 1;
                    mount = true;
                }
                if self.peek() == Some(b'[') {
                    self.i += 1;
                    loop {
                        let w = self.word(b"_*!");
                        if !w.is_empty() {
                            ign.push(w);
                        }
                        match self.peek()? {
                            b';' => self.i += 1,
                            b']' => {
                                self.i += 1;
                                break;
                            }
                            _ => return None,
                        }
                    }
                }
                let kids = self.list()?;
                Some(T::Dir { name, ign, kids, locked, mount })
            }
            _ => None,
        }
    }
    fn list(&mut self) -> Option<Vec<T>> {
        if self.peek()? != b'(' {
            return None;
        }
        self.i += 1;
        let mut v = vec![];
        if self.peek()? == b')' {
            self.i += 1;
            return Some(v);
        }
        loop {
            v.push(self.node()?);
            match self.peek()? {
                b',' => self.i += 1,
                b')' => {
                    self.i += 1;
                    return Some(v);
                }
                _ => return None,
            }
        }
    }
}

fn parse_ts(s: &str) -> Option<Vec<T>> {
    let mut p = P { b: s.as_bytes(), i: 0 };
    let v = p.list()?;
    if p.i != s.len() {
        return None;
    }
    Some(v)
}

#[derive(Clone, Debug)]
struct Cfg {
    depth: Option<usize>,
    size: Option<u64>,
    follow: bool,
    samefs: bool,
    filter: Option<Vec<String>>,
    /// which entries the filter applies to: 'a' all, 'd' directories only, 'f' non-directories only
    fkind: char,
    /// sort_by_file_name on the serial walker (Some(reverse)); the parallel walker has no sorter
    sort: Option<bool>,
}

#[derive(Clone, Debug)]
struct Case {
    cfg: Cfg,
    threads: usize,
    roots: Vec<String>,
    main: Vec<T>,
    alt: Vec<T>,
}

fn opt<Tt: ToString>(o: &Option<Tt>) -> String {
    o.as_ref().map_or("-".to_string(), |x| x.to_string())
}

fn show_case(c: &Case) -> String {
    let mut m = String::new();
    show_ts(&c.main, &mut m);
    let mut a = String::new();
    show_ts(&c.alt, &mut a);
    format!(
        "depth={} size={} follow={} samefs={} filter={} sort={} threads={} roots={} main={} alt={}",
        opt(&c.cfg.depth),
        opt(&c.cfg.size),
        c.cfg.follow as u8,
        c.cfg.samefs as u8,
        c.cfg.filter.as_ref().map_or("-".to_string(), |f| {
            format!("{}{}", f.join("."), if c.cfg.fkind == 'a' { String::new() } else { format!("/{}", c.cfg.fkind) })
        }),
        match c.cfg.sort {
            None => "-",
            Some(false) => "n",
            Some(true) => "r",
        },
        c.threads,
        c.roots.join("."),
        m,
        a
    )
}

fn parse_case(s: &str) -> Option<Case> {
    let mut kv: HashMap<&str, &str> = HashMap::new();
    for tok in s.split_whitespace() {
        let (k, v) = tok.split_once('=')?;
        kv.insert(k, v);
    }
    let on = |v: &str| -> Option<Option<u64>> {
        if v == "-" {
            Some(None)
        } else {
            Some(Some(v.parse().ok()?))
        }
    };
    Some(Case {
        cfg: Cfg {
            depth: on(kv.get("depth")?)?.map(|x| x as usize),
            size: on(kv.get("size")?)?,
            follow: *kv.get("follow")? == "1",
            samefs: *kv.get("samefs")? == "1",
            filter: match *kv.get("filter")? {
                "-" => None,
                f => Some(f.split('/').next()?.split('.').map(|x| x.to_string()).collect()),
            },
            fkind: match kv.get("filter")?.split_once('/') {
                Some((_, "d")) => 'd',
                Some((_, "f")) => 'f',
                _ => 'a',
            },
            sort: match kv.get("sort").copied() {
                Some("n") => Some(false),
                Some("r") => Some(true),
                _ => None,
            },
        },
        threads: kv.get("threads")?.parse().ok()?,
        roots: kv.get("roots")?.split('.').map(|x| x.to_string()).collect(),
        main: parse_ts(kv.get("main")?)?,
        alt: parse_ts(kv.get("alt")?)?,
    })
}

// ------------------------------------------------------------------ materialise

struct Areas {
    main: PathBuf,
    alt: PathBuf,
}

fn target_path(areas: &Areas, t: &str) -> PathBuf {
    if let Some(rest) = t.strip_prefix("main/") {
        real_path(&areas.main, rest)
    } else if t == "main" {
        areas.main.clone()
    } else if let Some(rest) = t.strip_prefix("alt/") {
        real_path(&areas.alt, rest)
    } else {
        areas.main.join("__missing__")
    }
}

extern "C" {
    fn mkfifo(path: *const std::os::raw::c_char, mode: u32) -> i32;
}

/// tmpfs mounts made for the current tree (unmounted before the tree is removed)
static MOUNTS: Mutex<Vec<PathBuf>> = Mutex::new(Vec::new());
static MOUNT_UNAVAILABLE: Mutex<bool> = Mutex::new(false);

fn umount_all() {
    let mut m = MOUNTS.lock().unwrap();
    while let Some(p) = m.pop() {
        let _ = std::process::Command::new("umount").arg("-l").arg(&p).output();
    }
}

fn materialise(areas: &Areas, dir: &Path, ts: &[T]) {
    let mut hards = vec![];
    materialise_rec(areas, dir, ts, &mut hards);
    for (p, target) in hards {
        // the target may be missing (e.g. it was created below a directory that is unreadable by now): then no link
        let _ = std::fs::hard_link(target_path(areas, &target), &p);
    }
}

fn materialise_rec(areas: &Areas, dir: &Path, ts: &[T], hards: &mut Vec<(PathBuf, String)>) {
    use std::os::unix::ffi::OsStrExt;
    use std::os::unix::fs::PermissionsExt;
    std::fs::create_dir_all(dir).unwrap();
    for t in ts {
        let p = dir.join(std::ffi::OsStr::from_bytes(&real_name(t.name())));
        match t {
            T::File { size, locked, .. } => {
                std::fs::write(&p, vec![b'x'; *size]).unwrap();
                if *locked {
                    std::fs::set_permissions(&p, std::fs::Permissions::from_mode(0o000)).unwrap();
                }
            }
            T::Link { target, .. } => {
                let _ = std::os::unix::fs::symlink(target_path(areas, target), &p);
            }
            T::Hard { target, .. } => hards.push((p, target.clone())),
            T::Fifo { .. } => {
                let c = std::ffi::CString::new(p.as_os_str().as_bytes()).unwrap();
                unsafe {
                    mkfifo(c.as_ptr(), 0o644);
                }
            }
            T::Dir { ign, kids, locked, mount, .. } => {
                std::fs::create_dir_all(&p).unwrap();
                if *mount && !*MOUNT_UNAVAILABLE.lock().unwrap() {
                    let ok = std::process::Command::new("mount")
                        .args(["-t", "tmpfs", "-o", "size=1m", "none"])
                        .arg(&p)
                        .output()
                        .map_or(false, |o| o.status.success());
                    if ok {
                        MOUNTS.lock().unwrap().push(p.clone());
                        let _ = std::fs::set_permissions(&p, std::fs::Permissions::from_mode(0o755));
                    } else {
                        *MOUNT_UNAVAILABLE.lock().unwrap() = true;
                    }
                }
                materialise_rec(areas, &p, kids, hards);
                if !ign.is_empty() {
                    std::fs::write(p.join("IGN"), ign.join("\n") + "\n").unwrap();
                }
                if *locked {
                    std::fs::set_permissions(&p, std::fs::Permissions::from_mode(0o000)).unwrap();
                }
            }
        }
    }
}

// ------------------------------------------------------------------ description of the real tree for the model

struct Interner {
    ids: HashMap<String, usize>,
}

impl Interner {
    fn id(&mut self, s: &str) -> usize {
        let n = self.ids.len() + 1;
        *self.ids.entry(s.to_string()).or_insert(n)
    }
}

/// Order in which the serial walker reads directories in the current case: None = read_dir order,
/// Some(reverse) = sort_by_file_name.  Used for the description handed to the serial models and for the detection of the former F25 shape.
static SORT: Mutex<Option<bool>> = Mutex::new(None);

fn list_dir(p: &Path) -> std::io::Result<Vec<PathBuf>> {
    let mut v: Vec<PathBuf> = std::fs::read_dir(p)?.map(|e| e.unwrap().path()).collect();
    if let Some(rev) = *SORT.lock().unwrap() {
        v.sort_by(|a, b| a.file_name().cmp(&b.file_name()));
        if rev {
            v.reverse();
        }
    }
    Ok(v)
}

fn read_ign(dir: &Path) -> Vec<String> {
    match std::fs::read_to_string(dir.join("IGN")) {
        Ok(s) => s.lines().filter(|l| !l.is_empty()).map(|l| l.to_string()).collect(),
        Err(_) => vec![],
    }
}

/// First pass: number every real directory (identity = canonical path) and rank the devices.
fn index_dirs(dir: &Path, inos: &mut HashMap<PathBuf, usize>, devs: &mut BTreeMap<u64, usize>) {
    let md = match std::fs::symlink_metadata(dir) {
        Ok(m) => m,
        Err(_) => return,
    };
    if !md.is_dir() {
        return;
    }
    let n = inos.len() + 1;
    inos.insert(std::fs::canonicalize(dir).unwrap(), n);
    let nd = devs.len() + 1;
    devs.entry(md.dev()).or_insert(nd);
    let mut names: Vec<PathBuf> = match std::fs::read_dir(dir) {
        Ok(rd) => rd.map(|e| e.unwrap().path()).collect(),
        Err(_) => vec![], // unreadable: nothing below it can be reached
    };
    names.sort();
    for p in names {
        index_dirs(&p, inos, devs);
    }
}

fn describe(
    p: &Path,
    inos: &HashMap<PathBuf, usize>,
    devs: &BTreeMap<u64, usize>,
    names: &mut Interner,
    out: &mut String,
    denied: &mut Vec<usize>,
) {
    let name = names.id(&tok_of(p.file_name().unwrap()));
    let lmd = std::fs::symlink_metadata(p).unwrap();
    if lmd.file_type().is_symlink() {
        let tgt = match std::fs::metadata(p) {
            Err(_) => "-".to_string(),
            // a directory that cannot be opened cannot be followed (see Lister): for the model a dangling link
            Ok(md) if md.is_dir() && std::fs::File::open(p).is_err() => "-".to_string(),
            Ok(md) if md.is_dir() => match std::fs::canonicalize(p).ok().and_then(|c| inos.get(&c)) {
                Some(i) => format!("(d {})", i),
                None => "-".to_string(),
            },
            Ok(md) => format!("(f {})", md.len()),
        };
        out.push_str(&format!("(l {} {} {})", name, lmd.len(), tgt));
    } else if lmd.is_dir() {
        let ino = inos[&std::fs::canonicalize(p).unwrap()];
        let dev = devs[&lmd.dev()];
        // pattern code: 2*id for `name`, 2*id+1 for `!name`; id 0 stands for `*`
        let ign: Vec<String> = read_ign(p)
            .iter()
            .map(|pat| {
                let (neg, body) = match pat.strip_prefix('!') {
                    Some(b) => (1, b),
                    None => (0, pat.as_str()),
                };
                let id = if body == "*" { 0 } else { names.id(body) };
                (2 * id + neg).to_string()
            })
            .collect();
        out.push_str(&format!("(d {} {} {} (ign {})", name, ino, dev, ign.join(" ")));
        // children in read_dir order: which siblings the serial walker loses after the known
        // skip_current_dir defect depends on it
        let kids: Vec<PathBuf> = match list_dir(p) {
            Ok(v) => v,
            Err(_) => {
                // unreadable directory: for the model a directory without children (+ its inode in `denied`)
                if !denied.contains(&ino) {
                    denied.push(ino);
                }
                vec![]
            }
        };
        for k in kids {
            out.push(' ');
            describe(&k, inos, devs, names, out, denied);
        }
        out.push(')');
    } else {
        out.push_str(&format!("(f {} {})", name, lmd.len()));
    }
}

// ------------------------------------------------------------------ independent recursive listing (std::fs only)

/// gitignore semantics for the patterns the generator uses (`name`, `*`, `!name`, `!*`): the innermost directory
/// whose ignore file has a matching pattern decides; within a file the last matching pattern.
fn ignored_by(igns: &[Vec<String>], name: &str) -> bool {
    for file in igns.iter().rev() {
        for pat in file.iter().rev() {
            let (neg, body) = match pat.strip_prefix('!') {
                Some(b) => (true, b),
                None => (false, pat.as_str()),
            };
            if body == "*" || body == name {
                return !neg;
            }
        }
    }
    false
}

struct Lister<'a> {
    cfg: &'a Cfg,
    out: Vec<(char, PathBuf)>,
    /// Mechanism of the (repaired) finding F25, established independently of the walkers and of the model: the items at or below the LATER
    /// siblings (in read_dir order) of a directory that lies on another device than its root (same_file_system)
    /// and is also rejected by an ignore rule or the filter.  These are what the serial walker loses.
    lost: Vec<(char, PathBuf)>,
    losing: usize,
    hazard_dirs: usize,
}

impl<'a> Lister<'a> {
    fn new(cfg: &'a Cfg) -> Lister<'a> {
        Lister { cfg, out: vec![], lost: vec![], losing: 0, hazard_dirs: 0 }
    }
    fn emit(&mut self, k: char, p: PathBuf) {
        if self.losing > 0 {
            self.lost.push((k, p.clone()));
        }
        self.out.push((k, p));
    }
}

impl<'a> Lister<'a> {
    fn depth_ok(&self, d: usize) -> bool {
        self.cfg.depth.map_or(true, |m| d < m)
    }
    fn root(&mut self, root: &Path) {
        let md = match std::fs::metadata(root) {
            Err(_) => {
                self.emit('B', root.to_path_buf());
                return;
            }
            Ok(md) => md,
        };
        self.emit('e', root.to_path_buf());
        if md.is_dir() && self.depth_ok(0) {
            let root_dev = if self.cfg.samefs { Some(md.dev()) } else { None };
            self.contents(root, &mut vec![(md.dev(), md.ino())], &mut vec![read_ign(root)], 0, root_dev);
        }
    }
    fn contents(
        &mut self,
        dir: &Path,
        anc: &mut Vec<(u64, u64)>,
        igns: &mut Vec<Vec<String>>,
        depth: usize,
        root_dev: Option<u64>,
    ) {
        // raw read_dir order: which siblings come "later" matters for the former-F25-shape evidence (the output is sorted anyway)
        let kids: Vec<PathBuf> = match list_dir(dir) {
            Ok(v) => v,
            Err(_) => return,
        };
        let mut losing_here = false;
        for p in kids {
            if losing_here {
                self.losing += 1;
            }
            let hazard = self.child(&p, anc, igns, depth, root_dev);
            if losing_here {
                self.losing -= 1;
            }
            if hazard {
                self.hazard_dirs += 1;
                losing_here = true;
            }
        }
    }
    /// One child of a listed directory; returns true iff it has the shape of the former F25 hazard (off-device directory that is rejected).
    fn child(
        &mut self,
        p: &Path,
        anc: &mut Vec<(u64, u64)>,
        igns: &mut Vec<Vec<String>>,
        depth: usize,
        root_dev: Option<u64>,
    ) -> bool {
        let p = p.to_path_buf();
        let name = tok_of(p.file_name().unwrap());
        let lmd = std::fs::symlink_metadata(&p).unwrap();
        let md = if lmd.file_type().is_symlink() && self.cfg.follow {
            match std::fs::metadata(&p) {
                Err(_) => {
                    self.emit('B', p);
                    return false;
                }
                Ok(md) => {
                    // the loop check needs a handle on the directory: one that cannot be opened cannot be followed
                    if md.is_dir() && std::fs::File::open(&p).is_err() {
                        self.emit('B', p);
                        return false;
                    }
                    if md.is_dir() && anc.contains(&(md.dev(), md.ino())) {
                        self.emit('L', p);
                        return false;
                    }
                    md
                }
            }
        } else {
            lmd
        };
        let is_dir = md.is_dir();
        let off_device = is_dir && root_dev.map_or(false, |r| r != md.dev());
        if ignored_by(igns, &name) {
            return off_device;
        }
        if !is_dir && self.cfg.size.map_or(false, |m| md.len() > m) {
            return false;
        }
        let kind_ok = match self.cfg.fkind {
            'd' => is_dir,
            'f' => !is_dir,
            _ => true,
        };
        if kind_ok && self.cfg.filter.as_ref().map_or(false, |f| f.contains(&name)) {
            return off_device;
        }
        self.emit('e', p.clone());
        if is_dir && !off_device && self.depth_ok(depth + 1) {
            anc.push((md.dev(), md.ino()));
            igns.push(read_ign(&p));
            self.contents(&p, anc, igns, depth + 1, root_dev);
            anc.pop();
            igns.pop();
        }
        false
    }
}

// ------------------------------------------------------------------ unreadable directories

extern "C" {
    fn setfsuid(uid: u32) -> i32;
}

/// The harness runs as root, for which mode bits mean nothing.  For trees with locked (mode 000) directories the
/// file-system uid of the calling thread — inherited by the threads the parallel walker spawns — is switched to
/// `nobody` while the tree is looked at (walkers, listing, description for the model) and back afterwards.
struct FsUid {
    dropped: bool,
}

impl FsUid {
    fn drop_if(yes: bool) -> FsUid {
        if yes {
            unsafe {
                setfsuid(65534);
            }
        }
        FsUid { dropped: yes }
    }
}

impl Drop for FsUid {
    fn drop(&mut self) {
        if self.dropped {
            unsafe {
                setfsuid(0);
            }
        }
    }
}

fn own_name_ign(ts: &[T], depth: usize) -> bool {
    ts.iter().any(|t| match t {
        T::Dir { name, ign, kids, .. } => {
            (depth > 0 && ign.iter().any(|p| p == "*" || p == name)) || own_name_ign(kids, depth + 1)
        }
        _ => false,
    })
}

fn has_locked(ts: &[T]) -> bool {
    ts.iter().any(|t| match t {
        T::Dir { locked, kids, .. } => *locked || has_locked(kids),
        T::File { locked, .. } => *locked,
        _ => false,
    })
}

// ------------------------------------------------------------------ the real walkers

fn classify(err: &ignore::Error, path: Option<&Path>) -> (char, PathBuf) {
    match err {
        ignore::Error::WithPath { path, err } => classify(err, Some(path)),
        ignore::Error::WithDepth { err, .. } => classify(err, path),
        ignore::Error::WithLineNumber { err, .. } => classify(err, path),
        ignore::Error::Loop { child, .. } => ('L', child.clone()),
        ignore::Error::Io(e) if e.kind() == std::io::ErrorKind::PermissionDenied => {
            // EACCES on a real directory = its listing failed (not modelled, counted only); EACCES on a link = the
            // link cannot be followed (both walkers open a followed directory for the loop check): like a dangling link
            let is_link =
                path.map_or(false, |p| std::fs::symlink_metadata(p).map_or(false, |m| m.file_type().is_symlink()));
            // without a path (walkdir's failed loop check of a followed link to an unopenable directory): a
            // cannot-follow error as well
            (if is_link || path.is_none() { 'B' } else { 'D' }, path.map_or(PathBuf::from("?"), |p| p.to_path_buf()))
        }
        ignore::Error::Io(_) => ('B', path.map_or(PathBuf::from("?"), |p| p.to_path_buf())),
        ignore::Error::Partial(v) if !v.is_empty() => classify(&v[0], path),
        _ => ('?', path.map_or(PathBuf::from("?"), |p| p.to_path_buf())),
    }
}

fn builder(cfg: &Cfg, roots: &[PathBuf], threads: usize) -> WalkBuilder {
    let mut b = WalkBuilder::new(&roots[0]);
    for r in &roots[1..] {
        b.add(r);
    }
    b.standard_filters(false)
        .add_custom_ignore_filename("IGN")
        .max_depth(cfg.depth)
        .max_filesize(cfg.size)
        .follow_links(cfg.follow)
        .same_file_system(cfg.samefs)
        .threads(threads);
    if let Some(f) = cfg.filter.clone() {
        let fkind = cfg.fkind;
        b.filter_entry(move |e| {
            let is_dir = e.file_type().map_or(false, |t| t.is_dir());
            let kind_ok = match fkind {
                'd' => is_dir,
                'f' => !is_dir,
                _ => true,
            };
            !(kind_ok && f.contains(&tok_of(e.file_name())))
        });
    }
    if let Some(rev) = cfg.sort {
        // only the serial walker has a sorter; WalkParallel ignores it
        b.sort_by_file_name(move |a, b| if rev { b.cmp(a) } else { a.cmp(b) });
    }
    b
}

/// A traversal that reports more than `limit` items is cut off (a walker that no longer detects link cycles
/// would otherwise run until path names get too long); the overrun shows up as a difference to the listing.
fn real_serial(cfg: &Cfg, roots: &[PathBuf], limit: usize) -> Vec<(char, PathBuf)> {
    let mut out = vec![];
    for r in builder(cfg, roots, 1).build() {
        match r {
            Ok(e) => out.push(('e', e.path().to_path_buf())),
            Err(err) => out.push(classify(&err, None)),
        }
        if out.len() > limit {
            out.push(('?', PathBuf::from("traversal-does-not-end")));
            break;
        }
    }
    out
}

fn real_parallel(cfg: &Cfg, roots: &[PathBuf], threads: usize, limit: usize) -> Vec<(char, PathBuf)> {
    let out = Arc::new(Mutex::new(vec![]));
    let o2 = out.clone();
    builder(cfg, roots, threads).build_parallel().run(|| {
        let o = o2.clone();
        Box::new(move |r| {
            let item = match r {
                Ok(e) => ('e', e.path().to_path_buf()),
                Err(err) => classify(&err, None),
            };
            let mut g = o.lock().unwrap();
            g.push(item);
            if g.len() > limit {
                g.push(('?', PathBuf::from("traversal-does-not-end")));
                WalkState::Quit
            } else {
                WalkState::Continue
            }
        })
    });
    let v = out.lock().unwrap().clone();
    v
}

fn canon(items: &[(char, PathBuf)], main: &Path, names: &mut Interner) -> Vec<String> {
    let mut v: Vec<String> = items
        .iter()
        .map(|(k, p)| {
            let rel = p.strip_prefix(main).unwrap_or(p);
            let comps: Vec<String> =
                rel.components().map(|c| names.id(&tok_of(c.as_os_str())).to_string()).collect();
            format!("{}:{}", k, comps.join("/"))
        })
        .collect();
    v.sort();
    v
}

// ------------------------------------------------------------------ one case

struct Env {
    scratch: PathBuf,
    shm: Option<PathBuf>,
    counter: usize,
    current: Option<(String, Areas, String, Interner, HashMap<PathBuf, usize>, BTreeMap<u64, usize>, Vec<usize>)>,
}

impl Env {
    fn ensure(
        &mut self,
        c: &Case,
    ) -> (PathBuf, PathBuf, String, &mut Interner, &HashMap<PathBuf, usize>, &BTreeMap<u64, usize>, Vec<usize>) {
        let mut key = String::new();
        show_ts(&c.main, &mut key);
        key.push('|');
        show_ts(&c.alt, &mut key);
        let reuse = matches!(&self.current, Some((k, _, _, _, _, _, _)) if *k == key);
        if !reuse {
            if let Some((_, a, _, _, _, _, _)) = self.current.take() {
                umount_all();
                let _ = std::fs::remove_dir_all(a.main.parent().unwrap());
                let _ = std::fs::remove_dir_all(a.alt.parent().unwrap());
            }
            self.counter += 1;
            let base = self.scratch.join(format!("t{}", self.counter));
            let alt_base = match &self.shm {
                Some(s) => s.join(format!("t{}", self.counter)),
                None => base.clone(),
            };
            let areas = Areas { main: base.join("main"), alt: alt_base.join("alt") };
            materialise(&areas, &areas.alt, &c.alt);
            materialise(&areas, &areas.main, &c.main);
            let _uid = FsUid::drop_if(has_locked(&c.main));
            let mut inos = HashMap::new();
            let mut devs = BTreeMap::new();
            // the two area directories themselves are link targets too
            index_dirs(&areas.main, &mut inos, &mut devs);
            index_dirs(&areas.alt, &mut inos, &mut devs);
            let mut names = Interner { ids: HashMap::new() };
            let mut forest = String::new();
            // forest = the two area directories (so that links to an area root resolve)
            let mut denied = vec![];
            describe(&areas.main, &inos, &devs, &mut names, &mut forest, &mut denied);
            forest.push(' ');
            describe(&areas.alt, &inos, &devs, &mut names, &mut forest, &mut denied);
            self.current = Some((key, areas, forest, names, inos, devs, denied));
        }
        let (_, areas, forest, names, inos, devs, denied) = self.current.as_mut().unwrap();
        (areas.main.clone(), areas.alt.clone(), forest.clone(), names, inos, devs, denied.clone())
    }
}

fn run_case(c: &Case, text: &str, env: &mut Env, drv: &mut Driver, rep: &mut Report) {
    rep.eval();
    let (main, alt_dir, forest, names, inos, devs, denied_inos) = env.ensure(c);
    let locked_tree = has_locked(&c.main);
    let uid_guard = FsUid::drop_if(locked_tree);
    // with sort_by_file_name the serial walker reads directories in sorted order: the description handed to the
    // models and the former-F25-shape detection of the listing follow that order (everything else is order-insensitive)
    struct SortGuard;
    impl Drop for SortGuard {
        fn drop(&mut self) {
            *SORT.lock().unwrap() = None;
        }
    }
    *SORT.lock().unwrap() = c.cfg.sort;
    let _sort_guard = SortGuard;
    let forest = if c.cfg.sort.is_some() {
        let mut f = String::new();
        describe(&main, inos, devs, names, &mut f, &mut vec![]);
        f.push(' ');
        describe(&alt_dir, inos, devs, names, &mut f, &mut vec![]);
        f
    } else {
        forest
    };
    let roots: Vec<PathBuf> = c.roots.iter().map(|r| real_path(&main, r)).collect();
    let mut root_sx: Vec<String> = vec![];
    for r in &roots {
        if std::fs::symlink_metadata(r).is_ok() {
            let mut sx = String::new();
            describe(r, inos, devs, names, &mut sx, &mut vec![]);
            root_sx.push(sx);
        }
    }
    if root_sx.len() != roots.len() || roots.is_empty() {
        rep.notes.push(format!("case with unknown root skipped: {}", text));
        return;
    }
    let cfg_sx = format!(
        "(cfg (depth {}) (size {}) (follow {}) (samefs {}) (filter {}) (fkind {}))",
        opt(&c.cfg.depth),
        opt(&c.cfg.size),
        c.cfg.follow as u8,
        c.cfg.samefs as u8,
        c.cfg.filter.as_ref().map_or("-".to_string(), |f| {
            f.iter().map(|n| names.id(n).to_string()).collect::<Vec<_>>().join(" ")
        }),
        c.cfg.fkind
    );
    // the roots are given relative to the main area: paths start with the root's name
    let mut l = Lister::new(&c.cfg);
    for r in &roots {
        l.root(r);
    }
    let limit = 20 * l.out.len() + 1000;
    let ser = canon(&real_serial(&c.cfg, &roots, limit), &main, names);
    let par = canon(&real_parallel(&c.cfg, &roots, c.threads, limit), &main, names);
    let lst = canon(&l.out, &main, names);
    let lost = canon(&l.lost, &main, names);
    let lister_hazards = l.hazard_dirs;
    drop(uid_guard);
    // Error visits for unreadable directories (EACCES) are outside the property (they are not entries) and are
    // not modelled (an unreadable directory is a directory without children): they are counted, not compared.
    let strip = |v: Vec<String>| -> (Vec<String>, Vec<String>) { v.into_iter().partition(|x| !x.starts_with("D:")) };
    let (ser, ser_denied) = strip(ser);
    let (par, par_denied) = strip(par);
    if locked_tree {
        rep.branch("tree-with-unreadable-dir");
    }
    {
        fn scan(ts: &[T], f: &mut dyn FnMut(&T)) {
            for t in ts {
                f(t);
                if let T::Dir { kids, .. } = t {
                    scan(kids, f);
                }
            }
        }
        let (mut mnt, mut odd, mut hard, mut fifo, mut lf) = (false, false, false, false, false);
        scan(&c.main, &mut |t| {
            odd |= t.name().starts_with('O');
            match t {
                T::Dir { mount, .. } => mnt |= *mount,
                T::Hard { .. } => hard = true,
                T::Fifo { .. } => fifo = true,
                T::File { locked, .. } => lf |= *locked,
                _ => {}
            }
        });
        for (b, n) in [
            (mnt && !*MOUNT_UNAVAILABLE.lock().unwrap(), "tree-with-real-mount-point"),
            (odd, "tree-with-odd-byte-names"),
            (hard, "tree-with-hard-link"),
            (fifo, "tree-with-fifo"),
            (lf, "tree-with-unreadable-file"),
            (c.cfg.sort.is_some(), "opt:sort_by_file_name(serial)"),
            (c.cfg.fkind != 'a' && c.cfg.filter.is_some(), "opt:filter_entry-by-kind"),
            (c.threads == 0, "threads:0(auto)"),
        ] {
            if b {
                rep.branch(n);
            }
        }
    }
    if own_name_ign(&c.main, 0) {
        rep.branch("sub-directory-whose-own-ignore-file-matches-its-name");
    }
    if locked_tree {
        // the rule for these visits (Spec/ReachDenied.lean): parallel = every reported unreadable directory on the root's
        // device, serial = only those whose listing is actually read (within max_depth)
        let dl: Vec<String> = denied_inos.iter().map(|i| i.to_string()).collect();
        let mut askd = |which: &str| -> Vec<String> {
            let r = drv.ask(&format!(
                "c06.denied {} {} (denied {}) (forest {}) (roots {})",
                which,
                cfg_sx,
                dl.join(" "),
                forest,
                root_sx.join(" ")
            ));
            if r == "-" {
                vec![]
            } else {
                r.split_whitespace().map(|x| x.to_string()).collect()
            }
        };
        let m_sd = askd("ser");
        let m_pd = askd("par");
        // An error visit presupposes that the walker reports the directory at all.  The rule of Spec/ReachDenied.lean
        // is stated over the reachable entries; the serial expectation is the rule restricted to the directories the
        // serial MODEL reports (since the repair of F25 that is all of them: serial_eq_reach; the restriction is kept
        // so that the comparison stays meaningful should the serial model ever deviate again).
        let m_ser_entries: Vec<String> = {
            let r = drv.ask(&format!(
                "c06.walk serial {} (forest {}) (roots {})",
                cfg_sx,
                forest,
                root_sx.join(" ")
            ));
            r.split_whitespace().map(|x| x.to_string()).collect()
        };
        let m_sd: Vec<String> = m_sd
            .into_iter()
            .filter(|d| m_ser_entries.contains(&format!("e:{}", d.trim_start_matches("D:"))))
            .collect();
        if m_sd != ser_denied || m_pd != par_denied {
            rep.violation(Violation {
                kind: "impl_vs_model".into(),
                class: "".into(),
                tie: "EACCES error visits of Walk / WalkParallel vs Spec.ReachDenied.deniedVisits (c06.denied)".into(),
                case: text.into(),
                detail: format!(
                    "serial real {:?} model {:?}; parallel real {:?} model {:?}",
                    ser_denied, m_sd, par_denied, m_pd
                ),
            });
        }
    }
    if !par_denied.is_empty() || !ser_denied.is_empty() {
        rep.branch("unreadable-dir-error-visit");
        if ser_denied != par_denied {
            // e.g. at max_depth the parallel walker has already called read_dir, the serial one never does
            rep.branch("unreadable-dir-error-visit:serial-and-parallel-differ");
        }
    }
    let ask = |drv: &mut Driver, which: &str| -> Vec<String> {
        let r = drv.ask(&format!(
            "c06.walk {} {} (forest {}) (roots {})",
            which,
            cfg_sx,
            forest,
            root_sx.join(" ")
        ));
        if r == "-" {
            vec![]
        } else {
            r.split_whitespace().map(|x| x.to_string()).collect()
        }
    };
    // In trees with unreadable directories I/O errors are not compared at all: walkdir reports the failed loop
    // check of a followed link to an unopenable directory without a path, the parallel walker with one.
    let ask = |drv: &mut Driver, which: &str| -> Vec<String> {
        let v = ask(drv, which);
        if locked_tree && which != "guard" {
            v.into_iter().filter(|x| !x.starts_with("B:")).collect()
        } else {
            v
        }
    };
    let (ser, par, lst, lost) = if locked_tree {
        let f = |v: Vec<String>| -> Vec<String> { v.into_iter().filter(|x| !x.starts_with("B:")).collect() };
        (f(ser), f(par), f(lst), f(lost))
    } else {
        (ser, par, lst, lost)
    };
    let m_ser = ask(drv, "serial");
    let m_ev = ask(drv, "events");
    let m_par = ask(drv, "parallel");
    let m_reach = ask(drv, "reach");
    let guard = ask(drv, "guard");
    let hazard = guard == vec!["0".to_string()];
    // Finding F25 (the serial walker lost the later siblings of a skipped off-device directory) is repaired: there is
    // no class any more, every difference is a plain violation.  The shape that triggered it (`hazard`: a directory on
    // another device that is also rejected by a rule / the filter, detected independently by the listing and by
    // Spec.Reach.hazardFree) stays in the evidence, and `lost` (what the defect would drop) must be non-empty in some
    // case for the branch `former-f25-shape-with-later-siblings`, so that the regression is demonstrably exercised.
    let class = "";
    if c.cfg.samefs && lister_hazards > 0 && !lost.is_empty() {
        rep.branch("former-f25-shape-with-later-siblings");
    }
    if (lister_hazards > 0) != hazard {
        rep.violation(Violation {
            kind: "impl_vs_model".into(),
            class: "".into(),
            tie: "independent listing's detection of the former F25 shape vs Spec.Reach.hazardFree (c06.walk guard)".into(),
            case: text.into(),
            detail: format!("listing found {} hazard directories, model guard says hazard={}", lister_hazards, hazard),
        });
    }

    // evidence
    let count = |v: &Vec<String>, k: &str| v.iter().filter(|x| x.starts_with(k)).count();
    if count(&par, "L:") > 0 {
        rep.branch("loop-error-reported");
    }
    if count(&par, "B:") > 0 {
        rep.branch("broken-link-error");
    }
    if hazard {
        rep.branch("hazard:off-device-dir-skipped");
    }
    if c.cfg.samefs && lst.len() < {
        let mut c2 = c.cfg.clone();
        c2.samefs = false;
        let mut l2 = Lister::new(&c2);
        for r in &roots {
            l2.root(r);
        }
        l2.out.len()
    } {
        rep.branch("same_file_system-prunes");
    }
    rep.branch(&format!("threads:{}", c.threads));
    for (k, on) in [
        ("max_depth", c.cfg.depth.is_some()),
        ("max_filesize", c.cfg.size.is_some()),
        ("follow_links", c.cfg.follow),
        ("same_file_system", c.cfg.samefs),
        ("filter_entry", c.cfg.filter.is_some()),
    ] {
        if on {
            rep.branch(&format!("opt:{}", k));
        }
    }
    let nopts = [c.cfg.depth.is_some(), c.cfg.size.is_some(), c.cfg.follow, c.cfg.samefs, c.cfg.filter.is_some()]
        .iter()
        .filter(|x| **x)
        .count();
    if nopts >= 2 && lst.len() >= 3 {
        rep.nontrivial(text);
    }

    let diff = |a: &Vec<String>, b: &Vec<String>| -> String {
        let only_a: Vec<&String> = a.iter().filter(|x| !b.contains(x)).collect();
        let only_b: Vec<&String> = b.iter().filter(|x| !a.contains(x)).collect();
        format!("only-left {:?} only-right {:?} (sizes {} / {})", only_a, only_b, a.len(), b.len())
    };
    let dup = |v: &Vec<String>| v.windows(2).any(|w| w[0] == w[1]);
    let tie_ms = "WalkBuilder::build() / build_parallel().run() vs Model.Walk.serial / parallel (c06.walk)";
    // F: implementation vs property
    let mut reported = false;
    if dup(&ser) || dup(&par) {
        reported = true;
        rep.violation(Violation {
            kind: "impl_vs_spec".into(),
            class: "".into(),
            tie: "walker entries vs each-exactly-once".into(),
            case: text.into(),
            detail: format!("an entry was reported twice: serial {:?} parallel {:?}", ser, par),
        });
    }
    if ser != par {
        reported = true;
        rep.violation(Violation {
            kind: "impl_vs_spec".into(),
            class: class.into(),
            tie: "WalkBuilder::build() vs build_parallel().run(): same set".into(),
            case: text.into(),
            detail: format!("serial vs parallel: {}", diff(&ser, &par)),
        });
    } else if ser != lst {
        reported = true;
        rep.violation(Violation {
            kind: "impl_vs_spec".into(),
            class: class.into(),
            tie: "walkers vs independent recursive listing (reachable set)".into(),
            case: text.into(),
            detail: format!("walkers vs listing: {}", diff(&ser, &lst)),
        });
    }
    // C: implementation vs model
    if ser != m_ser {
        rep.violation(Violation {
            kind: "impl_vs_model".into(),
            class: "".into(),
            tie: tie_ms.into(),
            case: text.into(),
            detail: format!("serial real vs model: {}", diff(&ser, &m_ser)),
        });
    }
    if ser != m_ev || m_ev != m_ser {
        rep.violation(Violation {
            kind: "impl_vs_model".into(),
            class: "".into(),
            tie: "WalkBuilder::build() vs the operational model Model.WalkEvents.serialEvents (walkdir IntoIter + WalkEventIter + Walk::next) vs the recursive model Model.Walk.serial".into(),
            case: text.into(),
            detail: format!("serial real vs event model: {} ; event model vs recursive model: {}", diff(&ser, &m_ev), diff(&m_ev, &m_ser)),
        });
    }
    if par != m_par {
        rep.violation(Violation {
            kind: "impl_vs_model".into(),
            class: "".into(),
            tie: tie_ms.into(),
            case: text.into(),
            detail: format!("parallel real vs model: {}", diff(&par, &m_par)),
        });
    }
    // the listing is the harness's reading of the spec: it must agree with the Lean spec
    if lst != m_reach {
        rep.violation(Violation {
            kind: "impl_vs_model".into(),
            class: "".into(),
            tie: "independent recursive listing vs Spec.Reach.reach".into(),
            case: text.into(),
            detail: format!("listing vs reach: {}", diff(&lst, &m_reach)),
        });
    }
    // model vs spec (what the theorems state)
    if m_par != m_reach || m_ser != m_reach {
        rep.violation(Violation {
            kind: "model_vs_spec".into(),
            class: "".into(),
            tie: "Model.Walk vs Spec.Reach (parallel_eq_reach / serial_eq_reach)".into(),
            case: text.into(),
            detail: format!("parallel {} ; serial {}", diff(&m_par, &m_reach), diff(&m_ser, &m_reach)),
        });
    }
    let _ = reported;
}

// ------------------------------------------------------------------ generators

const NAMES: [&str; 10] = ["a", "b", "c", "d", "e", "m", "n", "x", "y", "z"];

struct Gen<'a> {
    rng: &'a mut Rng,
    dirs: Vec<String>,  // paths of directories created so far ("main/r0/a")
    files: Vec<String>, // paths of files
    links: Vec<String>,
    has_alt: bool,
    allow_locked: bool,
    allow_mount: bool,
    /// prefixes ("main/r0/a/") of the directories a tmpfs is mounted on
    mounted: Vec<String>,
    under_mount: bool,
}

impl<'a> Gen<'a> {
    /// Ignore file of a directory: patterns drawn from the names occurring in the trees, the directory's own name
    /// (its own file must NOT decide about the directory itself), `*`, and whitelists.
    fn gen_ign(&mut self, own: &str) -> Vec<String> {
        if !self.rng.chance(1, 3) {
            return vec![];
        }
        // a name with odd bytes is never written into an ignore file (it would need gitignore escaping)
        let own = if own.starts_with('O') { "a" } else { own };
        let n = self.rng.range(1, 3);
        (0..n)
            .map(|_| match self.rng.below(8) {
                0 | 1 => own.to_string(),
                2 => "*".to_string(),
                3 => format!("!{}", self.rng.pick(&NAMES)),
                4 => format!("!{}", own),
                _ => self.rng.pick(&NAMES).to_string(),
            })
            .collect()
    }
    fn kids(&mut self, path: &str, depth: usize, budget: &mut usize) -> Vec<T> {
        let n = if depth >= 4 { self.rng.range(0, 2) } else { self.rng.range(0, 4) };
        let mut used: Vec<&str> = vec![];
        let mut out = vec![];
        for _ in 0..n {
            if *budget == 0 {
                break;
            }
            // now and then a name with odd bytes (written O<i> in case texts)
            let odd_tok;
            let name: &str = if self.rng.chance(1, 12) {
                odd_tok = format!("O{}", self.rng.below(odd_names().len()));
                Box::leak(odd_tok.clone().into_boxed_str())
            } else {
                *self.rng.pick(&NAMES)
            };
            if used.contains(&name) {
                continue;
            }
            used.push(name);
            *budget -= 1;
            let p = format!("{}/{}", path, name);
            let k = self.rng.below(10);
            if k < 4 {
                match self.rng.below(12) {
                    0 if !self.files.is_empty() && !self.under_mount => {
                        // a second name for an existing file (same area, not across a mount point)
                        let t = self.rng.pick(&self.files).clone();
                        if t.starts_with("main/") && !self.mounted.iter().any(|m| t.starts_with(m.as_str())) {
                            out.push(T::Hard { name: name.into(), target: t });
                        } else {
                            out.push(T::File { name: name.into(), size: 1, locked: false });
                        }
                    }
                    1 => out.push(T::Fifo { name: name.into() }),
                    _ => {
                        self.files.push(p);
                        let locked = self.allow_locked && self.rng.chance(1, 6);
                        out.push(T::File { name: name.into(), size: self.rng.below(9), locked });
                    }
                }
            } else if k < 8 {
                self.dirs.push(p.clone());
                let ign = self.gen_ign(name);
                let locked = self.allow_locked && self.rng.chance(1, 4);
                let mount = !locked && self.allow_mount && self.mounted.len() < 2 && self.rng.chance(1, 5);
                if mount {
                    self.mounted.push(format!("{}/", p));
                }
                let was_under = self.under_mount;
                self.under_mount = was_under || mount;
                let marks = (self.dirs.len(), self.files.len(), self.links.len());
                let kids = self.kids(&p, depth + 1, budget);
                self.under_mount = was_under;
                if locked {
                    // neither an unreadable directory nor anything below it may be a link target
                    self.dirs.truncate(marks.0);
                    self.dirs.retain(|d| *d != p);
                    self.files.truncate(marks.1);
                    self.links.truncate(marks.2);
                }
                out.push(T::Dir { name: name.into(), ign, kids, locked, mount });
            } else {
                let target = match self.rng.below(7) {
                    0 => "!".to_string(),
                    1 | 2 if !self.dirs.is_empty() => self.rng.pick(&self.dirs).clone(),
                    3 if !self.files.is_empty() => self.rng.pick(&self.files).clone(),
                    4 if !self.links.is_empty() => self.rng.pick(&self.links).clone(),
                    5 if self.has_alt => "alt/o".to_string(),
                    6 if self.has_alt => "alt/o/p".to_string(),
                    _ => path.to_string(), // the directory itself: a one-step loop
                };
                self.links.push(p);
                out.push(T::Link { name: name.into(), target });
            }
        }
        out
    }
}

fn gen_case(rng: &mut Rng, has_alt: bool) -> (Vec<T>, Vec<T>, Vec<String>) {
    let allow_locked = rng.chance(1, 5);
    let allow_mount = rng.chance(1, 6);
    let mut g = Gen {
        rng,
        dirs: vec![],
        files: vec![],
        links: vec![],
        has_alt,
        allow_locked,
        allow_mount,
        mounted: vec![],
        under_mount: false,
    };
    let nroots = g.rng.range(1, 3);
    let mut main = vec![];
    let mut roots = vec![];
    let mut budget = g.rng.range(3, 24);
    for i in 0..nroots {
        let name = format!("r{}", i);
        let p = format!("main/{}", name);
        match g.rng.below(8) {
            0 => {
                g.files.push(p);
                main.push(T::File { name: name.clone(), size: g.rng.below(9), locked: false });
            }
            1 if !g.dirs.is_empty() => {
                let t = g.rng.pick(&g.dirs).clone();
                main.push(T::Link { name: name.clone(), target: t });
            }
            _ => {
                g.dirs.push(p.clone());
                let ign = g.gen_ign(&name);
                let kids = g.kids(&p, 1, &mut budget);
                let mount = g.allow_mount && g.rng.chance(1, 6);
                if mount {
                    g.mounted.push(format!("{}/", p));
                }
                main.push(T::Dir { name: name.clone(), ign, kids, locked: false, mount });
            }
        }
        roots.push(name);
    }
    // the other area: o(p(...), files) with possibly a link back into main (cross-device cycle)
    let alt = if has_alt {
        let mut ok = vec![
            T::File { name: "q".into(), size: g.rng.below(9), locked: false },
            T::Dir {
                name: "p".into(),
                locked: false,
                mount: false,
                ign: vec![],
                kids: vec![
                    T::File { name: "a".into(), size: 1, locked: false },
                    T::File { name: "m".into(), size: 7, locked: false },
                ],
            },
        ];
        if g.rng.chance(1, 2) {
            ok.push(T::Link { name: "back".into(), target: "main/r0".into() });
        }
        vec![T::Dir { name: "o".into(), ign: vec![], kids: ok, locked: false, mount: false }]
    } else {
        vec![]
    };
    (main, alt, roots)
}

fn gen_cfg(rng: &mut Rng) -> Cfg {
    Cfg {
        depth: *rng.pick(&[None, None, Some(0), Some(1), Some(2), Some(3), Some(5)]),
        size: *rng.pick(&[None, None, Some(0), Some(2), Some(5), Some(40)]),
        follow: rng.chance(1, 2),
        samefs: rng.chance(1, 2),
        filter: match rng.below(4) {
            0 | 1 => None,
            2 => Some(vec!["m".to_string()]),
            _ => Some(vec![rng.pick(&NAMES).to_string(), rng.pick(&NAMES).to_string()]),
        },
        fkind: *rng.pick(&['a', 'a', 'd', 'f']),
        sort: *rng.pick(&[None, None, None, Some(false), Some(true)]),
    }
}

fn all_cfgs() -> Vec<Cfg> {
    let mut v = vec![];
    for depth in [None, Some(0), Some(1), Some(2)] {
        for size in [None, Some(0), Some(3)] {
            for follow in [false, true] {
                for samefs in [false, true] {
                    for filter in [None, Some(vec!["m".to_string(), "c".to_string()])] {
                        v.push(Cfg { depth, size, follow, samefs, filter: filter.clone(), fkind: 'a', sort: None });
                    }
                }
            }
        }
    }
    v
}

fn special_trees(has_alt: bool, thorough: bool) -> Vec<(String, String, String)> {
    // (main, alt, roots)
    let mut chain = String::from("k:1");
    for i in (0..12).rev() {
        chain = format!("c{}({},f:2)", i, chain);
    }
    let fan: Vec<String> = (0..50).map(|i| if i % 5 == 0 { format!("k{}(a:1)", i) } else { format!("k{}:{}", i, i % 7) }).collect();
    let alt = if has_alt { "(o(q:2,p(a:1,m:7),back>main/r0))" } else { "()" };
    let mut v = vec![
        ("(r0())".to_string(), "()".to_string(), "r0".to_string()),
        ("(r0(a(),b(c())))".to_string(), "()".to_string(), "r0".to_string()),
        (format!("(r0({}))", chain), "()".to_string(), "r0".to_string()),
        (format!("(r0({}))", fan.join(",")), "()".to_string(), "r0".to_string()),
        ("(r0(a:1,m(x:1),z:9),r1:4,r2(b:2))".to_string(), "()".to_string(), "r0.r1.r2".to_string()),
        ("(r0:5)".to_string(), "()".to_string(), "r0".to_string()),
        ("(r0(a(l>main/r0,b:1),s>main/r0/a),r1>main/r0/a,r2>main/r0/a/b,r3>!)".to_string(), "()".to_string(), "r0.r1.r2.r3".to_string()),
        ("(r0(a(up>main/r0/b),b(dn>main/r0/a),c>main/r0/c,d>main/r0/e,e>main/r0/d))".to_string(), "()".to_string(), "r0".to_string()),
        ("(r0[m;z](a(m:1,n:1,z(y:1)),m(x:1),n[a](a:1,b:1)))".to_string(), "()".to_string(), "r0".to_string()),
        // a directory whose own ignore file matches the directory's own name / everything ("ignore all here except…")
        ("(r0(build[*;!keep;!sub](keep:1,junk:1,sub(keep:1)),src(main:1),m[m](m:1,a:2),c[!c;c;*](a:1)))".to_string(), "()".to_string(), "r0".to_string()),
        // unreadable directories (mode 000, walked with fsuid nobody), one of them reached through a link as well
        ("(r0(a:1,k!(x:1,y(z:1)),b(c!(),d:2,l>main/r0/k),m!(q:1),z:3),r1!(a:1))".to_string(), "()".to_string(), "r0.r1".to_string()),
    ];
    // names with odd bytes, a hard link, a named pipe, an unreadable file; a real mount point (tmpfs) below the root
    v.push(("(r0(O0(O1:1,O9:2),O2:1,O8(a:1),O5(O6:1),O10:3,O14:1,h=main/r0/O2,p|,u:4!,O4:1))".to_string(), "()".to_string(), "r0".to_string()));
    v.push(("(r0(a:1,b:2,c:1,m@(q:1,s(t:1)),n:3,x:1,y:1,z:1,l>main/r0/m))".to_string(), "()".to_string(), "r0".to_string()));
    if thorough {
        // very deep and very wide
        let mut chain = String::from("k:1");
        for i in (0..150).rev() {
            chain = format!("c{}({})", i, chain);
        }
        v.push((format!("(r0({}))", chain), "()".to_string(), "r0".to_string()));
        let fan: Vec<String> = (0..2500).map(|i| format!("k{}:{}", i, i % 3)).collect();
        v.push((format!("(r0({}))", fan.join(",")), "()".to_string(), "r0".to_string()));
    }
    if has_alt {
        v.push(("(r0(a:1,b:2,m>alt/o,n:3,x>alt/o/p,z:1,c(d:1)))".to_string(), alt.to_string(), "r0".to_string()));
        v.push(("(r0(a:1,c>alt/o,z:1),r1>alt/o)".to_string(), alt.to_string(), "r0.r1".to_string()));
    }
    v
}

fn main() {
    let args = parse_args();
    let mut drv = Driver::spawn(&args.driver);
    let mut rep = Report::new(
        "C06",
        "Modelled stream: generated trees (random; plus empty dirs, chains of depth 12 (150 thorough), fan-out 50 (2500 \
         thorough), several roots, file roots, link roots, links to files / dirs / ancestors / each other / nowhere, \
         hard links, named pipes, unreadable files and directories (walked with fsuid nobody), names with odd bytes \
         (spaces, non-ASCII, invalid UTF-8, glob metacharacters, newline, 200 bytes), ignore files at every level \
         (name, *, !name, own name), directories on another device: through links into /dev/shm and as real tmpfs \
         mount points when the harness may mount) x combinations of max_depth, max_filesize, follow_links, \
         same_file_system, filter_entry (by name / for directories only / for files only), sort_by_file_name on the \
         serial walker (all 96 option combinations on the special trees, random ones elsewhere) x threads 0..16. \
         Probe stream (real walkers against each other and the listing, no model): roots given as `.`, `./x`, `x/`, \
         `x/.`, `x/../x`, relative, nested inside another root, given twice; sort_by_file_path; DirEntry attributes; \
         standard_filters(true) with hidden files, .gitignore / .ignore / .git/info/exclude and richer patterns; \
         directories with mode r-- / --x; skip_stdout with stdout redirected into the tree. Compared as sorted \
         multisets. Non-trivial: >= 2 options set and >= 3 entries reachable. Distinct by case text.",
    );
    let shm = {
        let p = PathBuf::from("/dev/shm");
        let d1 = std::fs::metadata(&p).map(|m| m.dev()).ok();
        std::fs::create_dir_all(&args.scratch).ok();
        let d2 = std::fs::metadata(&args.scratch).map(|m| m.dev()).ok();
        if d1.is_some() && d1 != d2 {
            let q = p.join(format!("rgverif-c06-{}", std::process::id()));
            std::fs::create_dir_all(&q).ok().map(|_| q)
        } else {
            None
        }
    };
    if shm.is_none() {
        rep.notes.push("no second file system available: same_file_system is only exercised on one device".into());
    }
    let has_alt = shm.is_some();
    let mut env = Env { scratch: args.scratch.join("c06"), shm: shm.clone(), counter: 0, current: None };
    std::fs::create_dir_all(&env.scratch).unwrap();

    let probe_line = |line: &str| -> Option<(String, u64)> {
        let rest = line.strip_prefix("probe ")?;
        let mut kind = None;
        let mut seed = None;
        for tok in rest.split_whitespace() {
            let (k, v) = tok.split_once('=')?;
            match k {
                "kind" => kind = Some(v.to_string()),
                "seed" => seed = v.parse().ok(),
                _ => return None,
            }
        }
        Some((kind?, seed?))
    };
    for line in corpus_cases(&args) {
        if let Some((kind, seed)) = probe_line(&line) {
            c06probe::run_probe(&kind, seed, &env.scratch, &mut rep);
            continue;
        }
        match parse_case(&line) {
            Some(c) => run_case(&c, &line, &mut env, &mut drv, &mut rep),
            None => rep.notes.push(format!("unparsable corpus case: {}", line)),
        }
    }
    if args.replay.is_none() {
        let mut rng = Rng::new(args.seed);
        // special shapes x all option combinations
        for (m, a, r) in special_trees(has_alt, args.thorough) {
            let main = parse_ts(&m).expect("special main");
            let alt = parse_ts(&a).expect("special alt");
            for cfg in all_cfgs() {
                let c = Case {
                    cfg,
                    threads: rng.range(1, 16),
                    roots: r.split('.').map(|x| x.to_string()).collect(),
                    main: main.clone(),
                    alt: alt.clone(),
                };
                let text = show_case(&c);
                run_case(&c, &text, &mut env, &mut drv, &mut rep);
            }
        }
        // probes of what the modelled stream does not generate (see c06probe.rs)
        let per_kind = if args.cases.is_some() { 30 } else if args.thorough { 400 } else { 40 };
        for kind in ["f26", "f27"] {
            c06probe::run_probe(kind, 0, &env.scratch, &mut rep);
        }
        for kind in ["roots", "sort", "attrs", "stdf", "perm", "stdout"] {
            for i in 0..per_kind {
                c06probe::run_probe(kind, args.seed * 100_000 + i as u64, &env.scratch, &mut rep);
            }
        }
        // random trees
        let trees = args.cases.unwrap_or(if args.thorough { 3000 } else { 250 });
        for i in 0..trees {
            let (main, alt, roots) = gen_case(&mut rng, has_alt);
            let per = if args.thorough { 16 } else { 8 };
            for j in 0..per {
                let c = Case {
                    cfg: gen_cfg(&mut rng),
                    threads: rng.range(0, 16),
                    roots: roots.clone(),
                    main: main.clone(),
                    alt: alt.clone(),
                };
                let text = show_case(&c);
                if i < 3 && j == 0 {
                    rep.sample(text.clone());
                }
                run_case(&c, &text, &mut env, &mut drv, &mut rep);
            }
        }
    }
    if let Some((_, a, _, _, _, _, _)) = env.current.take() {
        umount_all();
        let _ = std::fs::remove_dir_all(a.main.parent().unwrap());
        let _ = std::fs::remove_dir_all(a.alt.parent().unwrap());
    }
    let _ = std::fs::remove_dir_all(&env.scratch);
    if let Some(s) = shm {
        let _ = std::fs::remove_dir_all(s);
    }
    rep.write(&args);
}
