//! C02 — results do not depend on how the input bytes reach the searcher.
//!
//! `lb` cases: the real `LineBuffer` (probe hook) vs the Lean model `Model.LineBuffer` on the same
//!     op sequence, fed with the read sizes the scripted reader really returned, and vs the window
//!     spec (theorems `linebuffer_window`, `fill_progress`).
//! `ds` cases: differential run of the real searcher on one (matcher, config, input): the event
//!     stream of `search_slice` is the spec; `search_reader` under every chunking / capacity / heap
//!     limit, `search_path` with and without mmap, and `multi_line(true)` for a matcher that cannot
//!     match the terminator must deliver exactly the same stream (incl. the final byte count).
#[path = "../linebuffer_common.rs"]
mod linebuffer_common;
#[path = "../searcher_common.rs"]
mod searcher_common;
use grep_matcher::LineTerminator;
use grep_regex::{RegexMatcher, RegexMatcherBuilder};
use grep_searcher::{BinaryDetection, MmapChoice, SearcherBuilder};
use linebuffer_common::*;
use rgverif_harness::*;
use std::path::{Path, PathBuf};

const PATTERNS: [&str; 33] = [
    "a", "b", "ab", "^a", "c$", "[ab]c", "x", " ", "a.*c", "^$", r"\bx\b", "aaaa", "[^a]", "^", "zzz", "c x|b",
    // can match `\r` but never `\n`: under CRLF `multi_line(true)` must still be downgraded (the
    // terminator's required byte is `\n`)
    r"[^\n]+a", r"a\r?", r"[^\n]c", r"b[^\n]*",
    // haystack anchors and non-multi-line anchors, negated word boundary
    r"\Aa", r"c\z", r"(?-m:^)a", r"c(?-m:$)", r"\Bb", r"a\B", r"\A", r"\z", r"(?-m:^)", r"\B",
    // Unicode-aware classes / boundaries (inputs may hold non-ASCII and invalid UTF-8 bytes)
    r"\w+", r"\W\B", r"\b\w",
];

/// UTF-8 / UTF-16 byte order marks: with `bom_sniffing(false)` they are ordinary bytes for every strategy
const BOMS: [&[u8]; 3] = [&[0xEF, 0xBB, 0xBF], &[0xFF, 0xFE], &[0xFE, 0xFF]];

#[derive(Clone, Copy, Debug, PartialEq, Eq)]
enum Lt {
    Lf,
    Crlf,
    Nul,
    /// an arbitrary terminator byte (`LineTerminator::byte(b';')`)
    Semi,
}

#[derive(Clone, Debug)]
enum Input {
    Hex(Vec<u8>),
    /// generated: seed, lines, max line length (keeps replay files small for long inputs)
    Gen(u64, usize, usize),
    /// generated: a few very long lines (longer than the 64 KiB roll buffer, which has to grow)
    Long(u64),
}

#[derive(Clone, Debug)]
enum Strat {
    /// search_reader: capacity hook, heap limit (`Some(0)` = "find the minimal sufficient one"), multi_line, script
    Reader { cap: Option<usize>, heap: Option<usize>, ml: bool, script: Vec<Step> },
    /// search_path: mmap on/off, multi_line
    Path { mmap: bool, ml: bool },
    /// search_slice with multi_line requested
    SliceMl,
    /// search_file on an open `File`: mmap on/off, multi_line
    File { mmap: bool, ml: bool },
}

#[derive(Clone, Debug)]
struct Ds {
    pat: String,
    fast: bool,
    lt: Lt,
    after: usize,
    before: usize,
    passthru: bool,
    invert: bool,
    line_number: bool,
    son: bool,
    /// the sink answers `Ok(false)` at this callback index (None: never)
    stop: Option<usize>,
    /// `bom_sniffing` (default on); off: no BOM handling at all, inputs may start with a BOM
    sniff: bool,
    /// binary detection: 0 none, 1 `quit(0)`, 2 `convert(0)`
    det: u8,
    input: Input,
    strats: Vec<Strat>,
}

fn lt_byte(lt: Lt) -> u8 {
    match lt {
        Lt::Nul => 0,
        Lt::Semi => b';',
        _ => b'\n',
    }
}

fn lt_term(lt: Lt) -> LineTerminator {
    match lt {
        Lt::Lf => LineTerminator::byte(b'\n'),
        Lt::Crlf => LineTerminator::crlf(),
        Lt::Nul => LineTerminator::byte(0),
        Lt::Semi => LineTerminator::byte(b';'),
    }
}

fn materialise(inp: &Input, lt: Lt) -> Vec<u8> {
    match inp {
        Input::Hex(v) => v.clone(),
        Input::Long(seed) => {
            let mut rng = Rng::new(*seed);
            let mut out = vec![];
            for len in [rng.range(66000, 140000), rng.range(0, 40), rng.range(65530, 65545), rng.range(1, 3000)] {
                for _ in 0..len {
                    let b = *rng.pick(b"aabc xaabc x\n\r\0");
                    out.push(if b == lt_byte(lt) { b'a' } else { b });
                }
                if lt == Lt::Crlf {
                    out.push(b'\r');
                }
                out.push(lt_byte(lt));
            }
            out
        }
        Input::Gen(seed, lines, maxlen) => {
            let mut rng = Rng::new(*seed);
            let mut out = vec![];
            for i in 0..*lines {
                let len = if rng.chance(1, 50) { rng.range(0, maxlen * 20) } else { rng.range(0, *maxlen) };
                for _ in 0..len {
                    // long inputs: mostly text, now and then a byte that is a terminator elsewhere
                    let b = *rng.pick(b"aabc xaabc xaabc xaabc x\n\r\0");
                    out.push(if b == lt_byte(lt) { b'a' } else { b });
                }
                if i + 1 < *lines || rng.chance(3, 4) {
                    if lt == Lt::Crlf && rng.chance(3, 4) {
                        out.push(b'\r');
                    }
                    out.push(lt_byte(lt));
                }
            }
            out
        }
    }
}

fn strat_str(s: &Strat) -> String {
    let o = |x: &Option<usize>| x.map_or("-".to_string(), |n| n.to_string());
    match s {
        Strat::Reader { cap, heap, ml, script } => {
            format!("r:{}:{}:{}:{}", o(cap), o(heap), *ml as u8, script_str(script))
        }
        Strat::Path { mmap, ml } => format!("p:{}:{}", *mmap as u8, *ml as u8),
        Strat::SliceMl => "s".to_string(),
        Strat::File { mmap, ml } => format!("f:{}:{}", *mmap as u8, *ml as u8),
    }
}

fn parse_strat(s: &str) -> Option<Strat> {
    let f: Vec<&str> = s.split(':').collect();
    let o = |x: &str| if x == "-" { Some(None) } else { x.parse().ok().map(Some) };
    match f[0] {
        "r" if f.len() == 5 => {
            Some(Strat::Reader { cap: o(f[1])?, heap: o(f[2])?, ml: f[3] == "1", script: parse_script(f[4])? })
        }
        "p" if f.len() == 3 => Some(Strat::Path { mmap: f[1] == "1", ml: f[2] == "1" }),
        "s" => Some(Strat::SliceMl),
        "f" if f.len() == 3 => Some(Strat::File { mmap: f[1] == "1", ml: f[2] == "1" }),
        _ => None,
    }
}

impl Ds {
    fn case_str(&self) -> String {
        let inp = match &self.input {
            Input::Hex(v) => hex(v),
            Input::Gen(s, l, m) => format!("gen:{}:{}:{}", s, l, m),
            Input::Long(s) => format!("long:{}", s),
        };
        format!(
            "ds pat={} fast={} lt={} A={} B={} pt={} inv={} ln={} son={} stop={} sniff={} det={} inp={} strats={}",
            hex(self.pat.as_bytes()),
            self.fast as u8,
            match self.lt {
                Lt::Lf => "lf",
                Lt::Crlf => "crlf",
                Lt::Nul => "nul",
                Lt::Semi => "semi",
            },
            self.after,
            self.before,
            self.passthru as u8,
            self.invert as u8,
            self.line_number as u8,
            self.son as u8,
            self.stop.map_or("-".to_string(), |k| k.to_string()),
            self.sniff as u8,
            self.det,
            inp,
            self.strats.iter().map(strat_str).collect::<Vec<_>>().join("|")
        )
    }
    fn parse(parts: &[&str]) -> Option<Ds> {
        let get = |k: &str| parts.iter().find_map(|p| p.strip_prefix(k).and_then(|r| r.strip_prefix('=')));
        let b = |k: &str| get(k).map(|v| v == "1");
        let inp = get("inp")?;
        let input = if let Some(r) = inp.strip_prefix("long:") {
            Input::Long(r.parse().ok()?)
        } else if let Some(r) = inp.strip_prefix("gen:") {
            let f: Vec<&str> = r.split(':').collect();
            if f.len() != 3 {
                return None;
            }
            Input::Gen(f[0].parse().ok()?, f[1].parse().ok()?, f[2].parse().ok()?)
        } else {
            Input::Hex(unhex(inp)?)
        };
        Some(Ds {
            pat: String::from_utf8(unhex(get("pat")?)?).ok()?,
            fast: b("fast")?,
            lt: match get("lt")? {
                "lf" => Lt::Lf,
                "crlf" => Lt::Crlf,
                "nul" => Lt::Nul,
                "semi" => Lt::Semi,
                _ => return None,
            },
            after: get("A")?.parse().ok()?,
            before: get("B")?.parse().ok()?,
            passthru: b("pt")?,
            invert: b("inv")?,
            line_number: b("ln")?,
            son: b("son")?,
            stop: match get("stop") {
                None | Some("-") => None,
                Some(k) => Some(k.parse().ok()?),
            },
            sniff: get("sniff").map_or(true, |v| v == "1"),
            det: get("det").map_or(Some(0), |v| v.parse().ok())?,
            input,
            strats: get("strats")?.split('|').filter(|s| !s.is_empty()).map(parse_strat).collect::<Option<Vec<_>>>()?,
        })
    }
    fn matcher(&self) -> Option<RegexMatcher> {
        let mut b = RegexMatcherBuilder::new();
        b.multi_line(true);
        match (self.fast, self.lt) {
            (true, Lt::Lf) => {
                b.line_terminator(Some(b'\n'));
            }
            (true, Lt::Crlf) => {
                b.line_terminator(Some(b'\n')).crlf(true);
            }
            (true, Lt::Nul) => {
                b.line_terminator(Some(0));
            }
            (true, Lt::Semi) => {
                b.line_terminator(Some(b';'));
            }
            (false, Lt::Crlf) => {
                b.crlf(true).line_terminator(None);
            }
            (false, _) => {}
        }
        b.build(&self.pat).ok()
    }
    fn builder(&self) -> SearcherBuilder {
        let mut b = SearcherBuilder::new();
        b.line_terminator(lt_term(self.lt))
        .after_context(self.after)
        .before_context(self.before)
        .passthru(self.passthru)
        .invert_match(self.invert)
        .line_number(self.line_number)
        .stop_on_nonmatch(self.son)
        .bom_sniffing(self.sniff)
        .binary_detection(match self.det {
            1 => BinaryDetection::quit(0),
            2 => BinaryDetection::convert(0),
            _ => BinaryDetection::none(),
        });
        b
    }
    /// With binary detection on, the strategies look for the NUL in different places BY DESIGN
    /// (`Searcher` docs: a heuristic): slices / memory maps sniff the first 64 KiB up front and then only
    /// the lines they deliver; the roll buffer sees every byte it reads, one buffer at a time, and
    /// `convert` rewrites the NUL there. The strategies are required to agree when there is no NUL, and in
    /// `quit` mode when the first NUL lies inside the first window of both: inside the first 64 KiB and
    /// inside the first read (`first_read`: how many bytes the first successful read hands over at least).
    /// Returns `true` when the strategies may disagree on this input.
    fn detection_windows_differ(&self, seen: &[u8], first_read: usize) -> bool {
        match (self.det, seen.iter().position(|&b| b == 0)) {
            (0, _) | (_, None) => false,
            (1, Some(n)) => !(n < 65536 && n < first_read),
            _ => true,
        }
    }
    /// `Searcher::multi_line_with_matcher` by the documented rule, computed here (NOT asked of the
    /// code under test): a `multi_line(true)` search is line by line iff the matcher announces the
    /// searcher's terminator, or can never match the terminator's required byte (`\n` for CRLF).
    fn expect_ml_downgrade(&self, m: &RegexMatcher) -> bool {
        use grep_matcher::Matcher;
        let lt = lt_term(self.lt);
        if m.line_terminator() == Some(lt) {
            return true;
        }
        m.non_matching_bytes().map_or(false, |nm| nm.contains(lt_byte(self.lt)))
    }
}

fn finish_events(mut sink: RecSink, r: Result<(), std::io::Error>) -> Vec<String> {
    if let Err(e) = r {
        sink.ev.push(err_class(&e).to_string());
    }
    sink.ev
}

fn run_slice(d: &Ds, m: &RegexMatcher, inp: &[u8], ml: bool) -> Vec<String> {
    let mut s = d.builder().multi_line(ml).build();
    let mut sink = RecSink::stopping(d.stop);
    let r = s.search_slice(m, inp, &mut sink);
    finish_events(sink, r)
}

fn run_reader(
    d: &Ds,
    m: &RegexMatcher,
    inp: &[u8],
    cap: Option<usize>,
    heap: Option<usize>,
    ml: bool,
    script: &[Step],
) -> (Vec<String>, Vec<Step>) {
    let mut b = d.builder();
    b.multi_line(ml).heap_limit(heap);
    if let Some(c) = cap {
        b.verif_buffer_capacity(c);
    }
    let mut s = b.build();
    let mut sink = RecSink::stopping(d.stop);
    let mut rdr = ScriptedReader::new(inp, script);
    let r = s.search_reader(m, &mut rdr, &mut sink);
    (finish_events(sink, r), rdr.log)
}

fn run_path_or_file(d: &Ds, m: &RegexMatcher, path: &Path, mmap: bool, ml: bool, as_file: bool) -> Vec<String> {
    let mut b = d.builder();
    b.multi_line(ml);
    if mmap {
        // SAFETY: the scratch file is private to this process and not modified while mapped.
        b.memory_map(unsafe { MmapChoice::auto() });
    } else {
        b.memory_map(MmapChoice::never());
    }
    let mut s = b.build();
    let mut sink = RecSink::stopping(d.stop);
    let r = if as_file {
        match std::fs::File::open(path) {
            Ok(f) => s.search_file(m, &f, &mut sink),
            Err(e) => Err(e),
        }
    } else {
        s.search_path(m, path, &mut sink)
    };
    finish_events(sink, r)
}

/// Smallest heap limit for which the reader strategy succeeds (monotone: more heap never hurts).
fn minimal_heap(d: &Ds, m: &RegexMatcher, inp: &[u8]) -> usize {
    let ok = |h: usize| {
        let (ev, _) = run_reader(d, m, inp, None, Some(h), false, &[]);
        !ev.last().map_or(false, |l| l.starts_with("err:"))
    };
    let (mut lo, mut hi) = (1usize, inp.len().max(1) + 1);
    if ok(lo) {
        return lo;
    }
    while lo + 1 < hi {
        let mid = (lo + hi) / 2;
        if ok(mid) {
            hi = mid;
        } else {
            lo = mid;
        }
    }
    hi
}

fn first_diff(a: &[String], b: &[String]) -> String {
    for i in 0..a.len().max(b.len()) {
        let x = a.get(i).map(|s| s.as_str()).unwrap_or("<end>");
        let y = b.get(i).map(|s| s.as_str()).unwrap_or("<end>");
        if x != y {
            let cut = |s: &str| if s.len() > 90 { format!("{}…", &s[..90]) } else { s.to_string() };
            return format!("event {}: slice `{}` vs `{}`", i, cut(x), cut(y));
        }
    }
    "no difference".into()
}

/// The input as the searcher sees it behind the transcoder: every line of a passthru search through
/// the default 64 KiB roll buffer with full-size reads (the decoder always gets plenty of room).
fn transcoded_text(d: &Ds, inp: &[u8]) -> Option<Vec<u8>> {
    let m = RegexMatcherBuilder::new().build("zzzzqqqq").ok()?;
    let mut s = SearcherBuilder::new()
        .line_terminator(lt_term(d.lt))
        .passthru(true)
        .line_number(false)
        .bom_sniffing(true)
        .build();
    let mut sink = RecSink::new();
    s.search_reader(&m, inp, &mut sink).ok()?;
    let mut out = vec![];
    for e in &sink.ev {
        if e.starts_with('c') || e.starts_with("m ") {
            out.extend_from_slice(&unhex(e.rsplit(' ').next()?)?);
        }
    }
    Some(out)
}

/// `Core::is_line_by_line_fast` for the matcher / searcher of this case before any match, by the rule
/// (since /repo a2e984b: never with a terminator byte other than `\n`, whatever the matcher
/// announces), computed from what the matcher object really announces (grep-regex is not under test).
fn fast_path_taken(d: &Ds, m: &RegexMatcher) -> bool {
    use grep_matcher::Matcher;
    if d.passthru || (d.son && d.invert) {
        return false;
    }
    if lt_byte(d.lt) != b'\n' {
        return false;
    }
    let lt = lt_term(d.lt);
    if m.line_terminator() == Some(lt) {
        return true;
    }
    m.non_matching_bytes().map_or(false, |nm| nm.contains(lt_byte(d.lt)))
}

/// Test of the class `transcoder-drops-pending-bytes-at-eof` (see `classify`); `ml`: the stream comes
/// from a really multi-line search (the input is read onto the heap through the same decoder with
/// `read_to_end`, whose spare capacity can be just as small).
fn transcoder_mechanism(d: &Ds, m: &RegexMatcher, inp: &[u8], reader_strategy: bool, got: &[String], ml: bool) -> bool {
    if d.sniff && (inp.starts_with(&[0xFF, 0xFE]) || inp.starts_with(&[0xFE, 0xFF])) && reader_strategy {
        if let Some(t) = transcoded_text(d, inp) {
            if t.ends_with(&[0xEF, 0xBF, 0xBD]) {
                let mut d2 = d.clone();
                d2.sniff = false;
                for cut in 1..=2usize {
                    if run_slice(&d2, m, &t[..t.len() - cut], ml) == got {
                        return true;
                    }
                }
            }
        }
    }
    false
}

/// Known-finding class of a difference between the slice search (`spec`) and another strategy
/// (`got`), "" if none applies.  A class is attributed only when its own mechanism is shown to be at
/// work in this very case (the test is written next to each class).
fn classify(d: &Ds, m: &RegexMatcher, inp: &[u8], reader_strategy: bool, spec: &[String], got: &[String]) -> &'static str {
    // F10b `sink-stop-fast-path-byte-count`.  Mechanism: the sink answers "stop" while the fast
    // path's `pos` is not the end of the stopping line — ahead of it inside a run of inverted
    // matches, or behind it when a context line / context break is refused before
    // `set_pos(line.end())` — so the byte count of `finish` depends on the buffer extent.
    // Test: (1) the two streams differ ONLY in the byte count of their last event `finish`;
    // (2) the sink really stopped: the callback with the stop index was made and is not `finish`;
    // (3) the fast path was taken; (4) the other strategy goes through the roll buffer (two slice
    // searches see the same buffer extent); (5) the refused callback is a context line / break, or
    // the search is inverted (a refused `matched` on the non-inverted fast path has `pos` at its end).
    if let (Some(k), false) = (d.stop, std::env::var("RGV_C02_F10B_FIXED").is_ok()) {
        if spec.len() == got.len() && spec.len() >= 2 {
            let n = spec.len() - 1;
            let only_count = spec[..n] == got[..n]
                && spec[n].starts_with("finish ")
                && got[n].starts_with("finish ")
                && spec[n].split(' ').skip(2).collect::<Vec<_>>() == got[n].split(' ').skip(2).collect::<Vec<_>>();
            let stopped = k < n;
            let refused_ctx = stopped && (got[k].starts_with('c') || got[k] == "--");
            if only_count && stopped && fast_path_taken(d, m) && reader_strategy && (d.invert || refused_ctx) {
                return "sink-stop-fast-path-byte-count";
            }
        }
    }
    // `transcoder-drops-pending-bytes-at-eof` (dependency encoding_rs_io 0.1.7, only when the input is
    // TRANSCODED: BOM sniffing on and a UTF-16 BOM).  Mechanism: at the end of the input the decoder
    // has to emit U+FFFD (ef bf bd) for an incomplete trailing code unit; when the roll buffer offers
    // fewer than 4 free bytes for that read, the decoder goes through its "tiny" path, hands out the
    // first 1-2 bytes, marks itself exhausted and DROPS the rest: the searcher sees the transcoded
    // text minus its last 1-2 bytes.
    // Test: (1) sniffing on; (2) the input starts with a UTF-16 BOM; (3) a roll-buffer strategy;
    // (4) the transcoded text `T` (obtained from a passthru search with the default 64 KiB buffer)
    // ends with ef bf bd; (5) the stream in question is EXACTLY what the slice search (no sniffing)
    // delivers for `T` without its last 1 or 2 bytes.
    if transcoder_mechanism(d, m, inp, reader_strategy, got, false) {
        return "transcoder-drops-pending-bytes-at-eof";
    }
    // (F17 `nul-terminator-lf-anchored-matcher` and F17b `byte-terminator-lf-anchored-matcher` are fixed,
    // /repo a2e984b: with a terminator byte other than `\n` the slow path is taken and theorem
    // C02_nonlf_terminator applies to every matcher -- any deviation there is a violation)
    // (F2 / F24 `fastpath-matcher-not-linesafe` is fixed, /repo 4165f41: a deviation on the fast path
    // with a look-around pattern is a violation again; see also `certify_line_safe`)
    ""
}

/// `Some(true)`: `lineSafeCheck` holds on every line-aligned window; `Some(false)`: it fails on one
/// (a violation since /repo 4165f41 repaired F1/F2/F24); `None`: not checked (slow path, passthru, long input).
fn certify_line_safe(case: &str, d: &Ds, m: &RegexMatcher, inp: &[u8], drv: &mut Driver, rep: &mut Report) -> Option<bool> {
    if !d.fast || d.passthru || inp.len() > 400 {
        return None;
    }
    // the contract is only needed where the fast path is taken: with a haystack anchor (or a CRLF anchor
    // without crlf) the matcher announces no terminator, with a terminator other than \n the searcher
    // never goes fast -- theorem C02 / C02_nonlf_terminator cover those for every matcher
    if !fast_path_taken(d, m) {
        rep.branch("ds:linesafe-not-needed(slow path)");
        return None;
    }
    let lt = match d.lt {
        Lt::Lf => searcher_common::Lt::Lf,
        Lt::Crlf => searcher_common::Lt::Crlf,
        Lt::Nul => searcher_common::Lt::Nul,
        Lt::Semi => return None,
    };
    let cfg = searcher_common::Cfg {
        lt,
        inv: d.invert,
        a: d.after,
        b: d.before,
        pt: d.passthru,
        ln: d.line_number,
        son: d.son,
        ml: false,
        bin: searcher_common::Bin::None,
    };
    let lines = searcher_common::split_lines(inp, lt.byte());
    if lines.is_empty() || lines.len() > 10 {
        return None;
    }
    let csx = cfg.to_sx();
    let mut all = true;
    let mut windows = 0;
    for i in 0..lines.len() {
        for j in (i + 1)..=lines.len() {
            let buf: Vec<u8> = lines[i..j].concat();
            let (tsx, _) = searcher_common::table_sx(m, &cfg, &buf);
            let r = drv.ask(&format!("c02.linesafe {} {} {}", csx, tsx, hex(&buf)));
            windows += 1;
            match r.as_str() {
                "1" => {}
                "0" => all = false,
                other => {
                    rep.violation(Violation {
                        kind: "impl_vs_model".into(),
                        class: "".into(),
                        tie: "driver (c02.linesafe)".into(),
                        case: case.to_string(),
                        detail: format!("driver answered {} for window lines {}..{}", other, i, j),
                    });
                    return None;
                }
            }
        }
    }
    rep.branch(if all { "ds:linesafe-certificate-holds-on-every-window" } else { "ds:linesafe-certificate-fails-on-a-window" });
    if !all {
        // since /repo 4165f41 the matcher only CONFIRMS a match in a buffer when no look-around can see
        // beyond the line (otherwise it answers Candidate and the searcher re-judges the line alone): where
        // the fast path is taken the contract holds on every window, and a failure is a finding (F1/F2/F24)
        rep.branch(&format!("ds:linesafe-fails:pat={}:lt={:?}", d.pat, d.lt));
        rep.violation(Violation {
            kind: "impl_vs_spec".into(),
            class: "".into(),
            tie: "hypothesis of theorem C02_fast on the real RegexMatcher: Spec.LineSafe.lineSafeCheck on every line-aligned window of the input, where Core takes the fast path".into(),
            case: case.to_string(),
            detail: format!(
                "pattern {:?}, terminator {:?}: the matcher's answers about some window of whole lines are not those about the lines alone (fast path taken)",
                d.pat, d.lt
            ),
        });
    }
    if all && windows > 3 {
        rep.branch("ds:C02_fast-hypothesis-certified(>3 windows)");
    }
    Some(all)
}

/// Binary detection on, a strategy that goes through the roll buffer: may it disagree with the slice
/// search on this input (see `Ds::detection_windows_differ`)? Computed from input, terminator and strategy.
fn detection_may_differ(d: &Ds, inp: &[u8], st: &Strat) -> bool {
    let seen = if d.sniff { transcoded_text(d, inp).unwrap_or_else(|| inp.to_vec()) } else { inp.to_vec() };
    // the first fill reaches at least through the first terminator (it keeps reading until it has one);
    // a plain file read without a decoder in front hands over the first 64 KiB at once
    let first_line = seen.iter().position(|&b| b == lt_byte(d.lt)).map_or(seen.len(), |i| i + 1);
    let first_read = match st {
        Strat::Path { .. } | Strat::File { .. } if !d.sniff => first_line.max(seen.len().min(65536)),
        _ => first_line,
    };
    d.detection_windows_differ(&seen, first_read)
}

fn run_ds(case: &str, d: &Ds, scratch: &Path, drv: &mut Driver, rep: &mut Report) {
    rep.eval();
    let m = match d.matcher() {
        Some(m) => m,
        None => {
            rep.branch("ds:pattern-rejected");
            return;
        }
    };
    let inp = materialise(&d.input, d.lt);
    let spec = run_slice(d, &m, &inp, false);
    if spec.last().map_or(false, |l| l.starts_with("err:")) {
        rep.branch("ds:config-error");
        return;
    }
    // multi_line(true) only belongs to the property when the matcher cannot match the terminator;
    // that is decided by the rule, and the code's own decision is checked against it
    let ml_downgrades = d.expect_ml_downgrade(&m);
    let code_says = !d.builder().multi_line(true).build().multi_line_with_matcher(&m);
    if code_says != ml_downgrades {
        rep.violation(Violation {
            kind: "impl_vs_model".into(),
            class: "".into(),
            tie: "Searcher::multi_line_with_matcher vs Model.Glue.multiLineWithMatcher (the rule)".into(),
            case: case.to_string(),
            detail: format!(
                "pattern {:?}, terminator {:?}: the searcher {} the multi_line request to line mode, the rule says it {}",
                d.pat,
                d.lt,
                if code_says { "downgrades" } else { "does not downgrade" },
                if ml_downgrades { "must" } else { "must not" }
            ),
        });
    }
    rep.branch(if ml_downgrades { "ds:ml-downgrades" } else { "ds:ml-real(skipped)" });
    if ml_downgrades && d.lt == Lt::Crlf && !d.fast {
        rep.branch("ds:ml-downgrades-crlf-nm");
    }
    if !d.sniff {
        rep.branch(if BOMS.iter().any(|b| inp.starts_with(b)) { "ds:no-sniff-bom-input" } else { "ds:no-sniff" });
    } else if BOMS.iter().any(|b| inp.starts_with(b)) {
        rep.branch("ds:bom-input-transcoded");
    }
    if inp.iter().any(|&b| b >= 0x80) {
        rep.branch("ds:non-ascii-bytes");
    }
    if let Input::Long(_) = d.input {
        rep.branch("ds:lines-longer-than-64KiB");
    }
    if d.det != 0 {
        rep.branch(match (d.det, inp.contains(&0)) {
            (1, false) => "ds:detection-quit:no-nul",
            (1, true) => "ds:detection-quit:nul",
            (_, false) => "ds:detection-convert:no-nul",
            (_, true) => "ds:detection-convert:nul",
        });
    }
    // the hypothesis of theorem C02_fast, certified for this case: the real matcher is line safe
    // (executable `lineSafeCheck`, sound by `lineSafeCheck_sound`) on every window of the input the
    // roll buffer can hand out (from a line start to a line end / the end of the input)
    let certified = certify_line_safe(case, d, &m, &inp, drv, rep);
    let max_ctx = if d.passthru { 0 } else { d.after.max(d.before) };
    let has_ctx_event = spec.iter().any(|e| e.starts_with('c'));
    let mut file: Option<PathBuf> = None;
    // a multi_line request for a pattern that CAN match the terminator is a different search; its
    // spec is the multi-line slice search (the strategies must still agree among themselves)
    let mut spec_ml: Option<Vec<String>> = None;
    for st in &d.strats {
        let wants_ml = match st {
            Strat::SliceMl => true,
            Strat::Reader { ml, .. } | Strat::Path { ml, .. } | Strat::File { ml, .. } => *ml,
        };
        let real_ml = wants_ml && !ml_downgrades;
        if real_ml && spec_ml.is_none() {
            spec_ml = Some(run_slice(d, &m, &inp, true));
        }
        let (got, name, script): (Vec<String>, String, Vec<Step>) = match st {
            Strat::SliceMl => {
                if !ml_downgrades {
                    continue;
                }
                rep.branch("ds:slice-ml");
                (run_slice(d, &m, &inp, true), "search_slice multi_line(true)".into(), vec![])
            }
            Strat::Reader { cap, heap, ml, script } => {
                if real_ml {
                    rep.branch("ds:reader-ml-real");
                }
                let heap = match heap {
                    Some(0) => {
                        rep.branch("ds:heap-just-sufficient");
                        Some(minimal_heap(d, &m, &inp))
                    }
                    h => *h,
                };
                let (ev, log) = run_reader(d, &m, &inp, *cap, heap, *ml, script);
                if heap.is_some() && ev.last().map_or(false, |l| l == "err:alloc") {
                    // theorem C02_heap_limit: an insufficient heap limit ends the search with the
                    // allocation error after a PREFIX of the slice search's callbacks
                    let want = if real_ml { spec_ml.as_ref().unwrap() } else { &spec };
                    let n = ev.len() - 1;
                    if n <= want.len() && ev[..n] == want[..n] {
                        rep.branch("ds:heap-insufficient-error-after-prefix");
                    } else {
                        let class = if d.det != 0 && !real_ml && detection_may_differ(d, &inp, st) {
                            "binary-detection-window-by-strategy"
                        } else if real_ml {
                            ""
                        } else {
                            classify(d, &m, &inp, true, want, &ev)
                        };
                        if class.is_empty() {
                            rep.branch("class:unclassified");
                        } else {
                            rep.branch(&format!("class:{}:attributed", class));
                        }
                        rep.violation(Violation {
                            kind: "impl_vs_spec".into(),
                            class: class.into(),
                            tie: "theorem C02_heap_limit: allocation error only after a prefix of search_slice's callbacks".into(),
                            case: case.to_string(),
                            detail: format!(
                                "pattern {:?}: search_reader cap={:?} heap={:?} ml={} fails after callbacks that are not a prefix: {}",
                                d.pat, cap, heap, ml, first_diff(want, &ev)
                            ),
                        });
                    }
                    continue;
                }
                rep.branch("ds:reader");
                if log.contains(&Step::Intr) {
                    rep.branch("ds:reader-interrupted");
                }
                let eff_cap = cap.or(heap.map(|h| h.min(65536))).unwrap_or(65536);
                if eff_cap < inp.len() {
                    rep.branch("ds:reader-rolled");
                    if (max_ctx > 0 && has_ctx_event) || d.passthru {
                        rep.branch("ds:reader-rolled-with-context");
                        rep.nontrivial(case);
                    }
                }
                if eff_cap == 1 {
                    rep.branch("ds:capacity-1");
                }
                (
                    ev,
                    format!("search_reader cap={:?} heap={:?} ml={} reads={}", cap, heap, ml, script_str(&log)),
                    script.clone(),
                )
            }
            Strat::Path { mmap, ml } | Strat::File { mmap, ml } => {
                if real_ml {
                    rep.branch("ds:path-ml-real");
                }
                if file.is_none() {
                    std::fs::create_dir_all(scratch).ok();
                    let p = scratch.join("c02-input");
                    std::fs::write(&p, &inp).expect("write scratch file");
                    file = Some(p);
                }
                let as_file = matches!(st, Strat::File { .. });
                rep.branch(match (as_file, *mmap) {
                    (false, true) => "ds:path-mmap",
                    (false, false) => "ds:path-read",
                    (true, true) => "ds:file-mmap",
                    (true, false) => "ds:file-read",
                });
                (
                    run_path_or_file(d, &m, file.as_ref().unwrap(), *mmap, *ml, as_file),
                    format!("search_{} mmap={} ml={}", if as_file { "file" } else { "path" }, mmap, ml),
                    vec![],
                )
            }
        };
        let spec: &Vec<String> = if real_ml { spec_ml.as_ref().unwrap() } else { &spec };
        let reader_strategy =
            matches!(st, Strat::Reader { .. } | Strat::Path { mmap: false, .. } | Strat::File { mmap: false, .. });
        // binary detection on: the roll buffer's detection window is not the slice's (by design)
        let det_differs = d.det != 0 && reader_strategy && !real_ml && detection_may_differ(d, &inp, st);
        if d.det != 0 && reader_strategy && !real_ml && inp.contains(&0) {
            rep.branch(if det_differs {
                "ds:detection:nul-outside-common-window(may differ)"
            } else {
                "ds:detection:nul-inside-common-window(must agree)"
            });
        }
        if &got != spec {
            // (a really multi-line search has no line-by-line fast path: no class applies to it)
            // (`convert-byte-count-by-strategy` -- under `convert` a slice search reported the first NUL's offset as
            // bytes searched -- was repaired by /repo 848ed7e: such a difference is a new violation now)
            let class = if det_differs {
                "binary-detection-window-by-strategy"
            } else if real_ml {
                if transcoder_mechanism(d, &m, &inp, reader_strategy, &got, true) {
                    "transcoder-drops-pending-bytes-at-eof"
                } else {
                    ""
                }
            } else {
                classify(d, &m, &inp, reader_strategy, spec, &got)
            };
            let _ = &script;
            if class.is_empty() {
                rep.branch("class:unclassified");
                rep.branch(&format!(
                    "unclassified:pat={}:fast={}:lt={:?}:inv={}:stop={}:{}",
                    d.pat,
                    d.fast as u8,
                    d.lt,
                    d.invert as u8,
                    d.stop.is_some() as u8,
                    if reader_strategy { "reader" } else { "slice-like" }
                ));
            } else {
                rep.branch(&format!("class:{}:attributed", class));
            }
            if certified == Some(true) && d.stop.is_none() && class.is_empty() {
                rep.branch("ds:differs-although-C02_fast-applies");
            }
            let mut name = name;
            if name.len() > 300 {
                name.truncate(300);
            }
            rep.violation(Violation {
                kind: "impl_vs_spec".into(),
                class: class.into(),
                tie: "event stream of search_reader/search_path/multi_line vs search_slice".into(),
                case: case.to_string(),
                detail: format!(
                    "pattern {:?} on {} bytes: {} differs from search_slice: {}",
                    d.pat,
                    inp.len(),
                    name,
                    first_diff(&spec, &got)
                ),
            });
        }
    }
    if d.son {
        rep.branch("ds:stop-on-nonmatch");
    }
    if d.passthru {
        rep.branch("ds:passthru");
    }
    if d.invert {
        rep.branch("ds:invert");
    }
    rep.branch(match d.lt {
        Lt::Lf => "ds:lf",
        Lt::Crlf => "ds:crlf",
        Lt::Nul => "ds:nul",
        Lt::Semi => "ds:terminator-semicolon",
    });
}

fn gen_ds(rng: &mut Rng, boundary: bool, big: bool) -> Ds {
    let lt = *rng.pick(&[Lt::Lf, Lt::Lf, Lt::Lf, Lt::Crlf, Lt::Crlf, Lt::Nul, Lt::Nul, Lt::Semi]);
    let pat = rng.pick(&PATTERNS).to_string();
    let input = if big && rng.chance(1, 4) {
        Input::Long(rng.next())
    } else if big {
        // long enough for the real 64 KiB buffer to roll
        Input::Gen(rng.next(), rng.range(2000, 9000), rng.range(10, 60))
    } else if boundary {
        let t = lt_byte(lt);
        Input::Hex(match rng.below(7) {
            0 => vec![],
            1 => vec![t],
            2 => b"a".to_vec(),
            3 => vec![b'a', t, t, b'a'],
            4 => b"a\rb\r".to_vec(),
            5 => {
                let mut v = vec![b'a'; rng.range(60, 200)];
                v.push(t);
                v.extend_from_slice(b"ab");
                v
            }
            _ => gen_lines(rng, t, lt == Lt::Crlf, 4, 3, &alphabet_with_foreign(t, b"ab")),
        })
    } else {
        let max_lines = *rng.pick(&[3usize, 8, 20, 60]);
        let max_len = *rng.pick(&[3usize, 10, 40]);
        // two thirds of the inputs carry the other settings' terminator bytes inside their records
        let mut alpha = if rng.chance(2, 3) { alphabet_with_foreign(lt_byte(lt), b"aabc x") } else { b"aabc x".to_vec() };
        if rng.chance(1, 4) {
            // non-ASCII text and bytes that are not UTF-8
            alpha.extend_from_slice(&[0xC3, 0xA9, 0xE2, 0x82, 0xAC, 0x80, 0xFF]);
        }
        Input::Hex(gen_lines(rng, lt_byte(lt), lt == Lt::Crlf, max_lines, max_len, &alpha))
    };
    let passthru = rng.chance(1, 6);
    let mut d = Ds {
        pat,
        fast: rng.chance(1, 2),
        lt,
        after: rng.below(4),
        before: rng.below(4),
        passthru,
        invert: rng.chance(1, 4),
        line_number: rng.chance(2, 3),
        son: rng.chance(1, 5),
        stop: if rng.chance(1, 5) { Some(rng.below(9)) } else { None },
        sniff: true,
        // binary detection on (never with NUL as the terminator: rg turns detection off there)
        det: if lt != Lt::Nul && rng.chance(1, 8) { *rng.pick(&[1u8, 1, 2]) } else { 0 },
        input,
        strats: vec![],
    };
    if !big && rng.chance(1, 12) {
        // BOM sniffing on and a BOM at the start: every strategy hands the input to the transcoder
        if let Input::Hex(v) = &d.input {
            let mut w = rng.pick(&BOMS).to_vec();
            w.extend_from_slice(v);
            d.input = Input::Hex(w);
        }
    } else if !big && rng.chance(1, 5) {
        // no BOM sniffing: the mark is data, for the reader as for the slice
        d.sniff = false;
        if rng.chance(3, 4) {
            if let Input::Hex(v) = &d.input {
                let mut w = rng.pick(&BOMS).to_vec();
                w.extend_from_slice(v);
                d.input = Input::Hex(w);
            }
        }
    }
    let len = materialise(&d.input, d.lt).len();
    let caps: &[usize] = if boundary { &[1, 1, 2, 3] } else { &[1, 2, 3, 5, 8, 13, 64, 200] };
    if big {
        for _ in 0..2 {
            let script = match rng.below(3) {
                0 => vec![],
                1 => (0..200).map(|_| Step::Ret(rng.range(1, 70000))).collect(),
                _ => (0..400).map(|_| Step::Ret(rng.range(1, 5000))).collect(),
            };
            d.strats.push(Strat::Reader { cap: None, heap: None, ml: rng.chance(1, 4), script });
        }
        d.strats.push(Strat::Reader { cap: Some(*rng.pick(&[1usize, 100, 4096])), heap: None, ml: false, script: vec![] });
        d.strats.push(Strat::Path { mmap: true, ml: false });
        d.strats.push(Strat::Path { mmap: false, ml: false });
    } else {
        for _ in 0..3 {
            d.strats.push(Strat::Reader {
                cap: Some(*rng.pick(caps)),
                heap: None,
                ml: rng.chance(1, 5),
                script: gen_script(rng, len, false),
            });
        }
        // default capacity with fragmented reads
        d.strats.push(Strat::Reader { cap: None, heap: None, ml: false, script: gen_script(rng, len, false) });
        // heap limit that is just sufficient
        d.strats.push(Strat::Reader { cap: None, heap: Some(0), ml: false, script: gen_script(rng, len, false) });
        if rng.chance(1, 6) {
            // interrupted reads (kept at a low rate: separate stream)
            d.strats.push(Strat::Reader { cap: Some(*rng.pick(caps)), heap: None, ml: false, script: gen_script(rng, len, true) });
        }
        d.strats.push(Strat::SliceMl);
        if rng.chance(1, 3) {
            d.strats.push(Strat::Path { mmap: true, ml: rng.chance(1, 3) });
            d.strats.push(Strat::Path { mmap: false, ml: rng.chance(1, 3) });
            d.strats.push(Strat::File { mmap: rng.chance(1, 2), ml: rng.chance(1, 3) });
        }
        if rng.chance(1, 5) {
            // a heap limit that is too small somewhere: the search must fail after a prefix
            d.strats.push(Strat::Reader { cap: None, heap: Some(rng.range(1, 12)), ml: rng.chance(1, 4), script: gen_script(rng, len, false) });
        }
    }
    d
}

// ---------------------------------------------------------------- hs: one Searcher reused for several inputs

/// How one step of a history hands its input to the searcher.
#[derive(Clone, Copy, Debug, PartialEq, Eq)]
enum HStrat {
    Slice,
    Reader,
    Path,
    File,
}

/// One `Searcher` (line by line or really multi-line, with or without memory maps) searches several
/// inputs in a row; every search must equal the same search by a fresh `Searcher`: no state (roll
/// buffer, multi-line buffer, decoder buffers) may leak from one input to the next.
#[derive(Clone, Debug)]
struct Hs {
    d: Ds,
    ml: bool,
    mmap: bool,
    steps: Vec<(HStrat, Vec<u8>)>,
}

const HS_PATTERNS: [&str; 8] = ["a", "ab", "^a", "[^a]", "a\nb", "\n", "[^x]+", "b\n*a"];

impl Hs {
    fn case_str(&self) -> String {
        let steps: Vec<String> = self
            .steps
            .iter()
            .map(|(st, inp)| {
                format!(
                    "{}:{}",
                    match st {
                        HStrat::Slice => "s",
                        HStrat::Reader => "r",
                        HStrat::Path => "p",
                        HStrat::File => "f",
                    },
                    hex(inp)
                )
            })
            .collect();
        let ds = self.d.case_str();
        // the `ds` text without its input and strategies
        let head: Vec<&str> = ds.split(' ').skip(1).filter(|f| !f.starts_with("inp=") && !f.starts_with("strats=")).collect();
        format!("hs {} ml={} mmap={} steps={}", head.join(" "), self.ml as u8, self.mmap as u8, steps.join("|"))
    }
    fn parse(parts: &[&str]) -> Option<Hs> {
        let get = |k: &str| parts.iter().find_map(|p| p.strip_prefix(k).and_then(|r| r.strip_prefix('=')));
        let mut dparts: Vec<&str> = parts.to_vec();
        dparts.push("inp=-");
        dparts.push("strats=");
        let d = Ds::parse(&dparts)?;
        let mut steps = vec![];
        for f in get("steps")?.split('|').filter(|f| !f.is_empty()) {
            let (k, h) = f.split_once(':')?;
            let st = match k {
                "s" => HStrat::Slice,
                "r" => HStrat::Reader,
                "p" => HStrat::Path,
                "f" => HStrat::File,
                _ => return None,
            };
            steps.push((st, unhex(h)?));
        }
        Some(Hs { d, ml: get("ml")? == "1", mmap: get("mmap")? == "1", steps })
    }
    fn searcher(&self) -> grep_searcher::Searcher {
        let mut b = self.d.builder();
        b.multi_line(self.ml);
        if self.mmap {
            // SAFETY: the scratch files are private to this process and not modified while mapped.
            b.memory_map(unsafe { MmapChoice::auto() });
        } else {
            b.memory_map(MmapChoice::never());
        }
        b.build()
    }
}

fn hs_step(s: &mut grep_searcher::Searcher, m: &RegexMatcher, st: HStrat, inp: &[u8], file: &Path) -> Vec<String> {
    let mut sink = RecSink::new();
    let r = match st {
        HStrat::Slice => s.search_slice(m, inp, &mut sink),
        HStrat::Reader => s.search_reader(m, inp, &mut sink),
        HStrat::Path => s.search_path(m, file, &mut sink),
        HStrat::File => match std::fs::File::open(file) {
            Ok(f) => s.search_file(m, &f, &mut sink),
            Err(e) => Err(e),
        },
    };
    finish_events(sink, r)
}

fn run_hs(case: &str, h: &Hs, scratch: &Path, rep: &mut Report) {
    rep.eval();
    let m = match h.d.matcher() {
        Some(m) => m,
        None => {
            rep.branch("hs:pattern-rejected");
            return;
        }
    };
    let real_ml = h.ml && !h.d.expect_ml_downgrade(&m);
    rep.branch(if real_ml { "hs:multi-line" } else { "hs:line-by-line" });
    std::fs::create_dir_all(scratch).ok();
    let mut reused = h.searcher();
    let mut nonempty_before = false;
    for (i, (st, inp)) in h.steps.iter().enumerate() {
        let file = scratch.join(format!("c02-hist-{}", i));
        if matches!(st, HStrat::Path | HStrat::File) {
            std::fs::write(&file, inp).expect("write scratch file");
        }
        let got = hs_step(&mut reused, &m, *st, inp, &file);
        let want = hs_step(&mut h.searcher(), &m, *st, inp, &file);
        rep.branch(match (st, h.mmap) {
            (HStrat::Slice, _) => "hs:slice",
            (HStrat::Reader, _) => "hs:reader",
            (HStrat::Path, true) => "hs:path-mmap",
            (HStrat::Path, false) => "hs:path-read",
            (HStrat::File, true) => "hs:file-mmap",
            (HStrat::File, false) => "hs:file-read",
        });
        if i > 0 && nonempty_before && !inp.is_empty() {
            rep.branch("hs:reused-after-nonempty-input");
            if real_ml && !h.mmap && matches!(st, HStrat::Path | HStrat::File) {
                rep.branch("hs:reused-multi-line-heap-read");
                rep.nontrivial(case);
            }
        }
        nonempty_before |= !inp.is_empty();
        if got != want {
            rep.violation(Violation {
                kind: "impl_vs_spec".into(),
                class: "".into(),
                tie: "a Searcher reused for several inputs vs a fresh Searcher per input (same strategy)".into(),
                case: case.to_string(),
                detail: format!(
                    "pattern {:?}, search #{} ({:?}, {} bytes, multi_line={}, mmap={}): reused searcher differs from a fresh one: {}",
                    h.d.pat,
                    i + 1,
                    st,
                    inp.len(),
                    h.ml,
                    h.mmap,
                    first_diff(&want, &got)
                ),
            });
            return;
        }
    }
}

fn gen_hs(rng: &mut Rng) -> Hs {
    let mut d = gen_ds(rng, false, false);
    d.strats.clear();
    d.input = Input::Hex(vec![]);
    d.stop = None;
    let ml = rng.chance(2, 3);
    if ml {
        // half of the multi-line histories use a pattern that can match the terminator
        d.fast = false;
        if rng.chance(1, 2) {
            d.pat = rng.pick(&HS_PATTERNS).to_string();
        }
        d.passthru = false;
    }
    let t = lt_byte(d.lt);
    let n = rng.range(2, 5);
    let mut steps = vec![];
    for _ in 0..n {
        let st = *rng.pick(&[HStrat::Slice, HStrat::Reader, HStrat::Path, HStrat::Path, HStrat::File, HStrat::File]);
        let inp = if rng.chance(1, 8) {
            vec![]
        } else {
            let (nl, ml_) = (*rng.pick(&[2usize, 5, 12]), *rng.pick(&[3usize, 10]));
            gen_lines(rng, t, d.lt == Lt::Crlf, nl, ml_, b"aabx ")
        };
        steps.push((st, inp));
    }
    Hs { d, ml, mmap: rng.chance(1, 3), steps }
}

// ---------------------------------------------------------------- rb: search_reader vs the ReadByLine model

/// One reader-strategy search with a literal matcher (searcher-core's `LitMatcher`, whose Lean twin
/// is `litMatcher`), a sink script, a capacity / heap limit and a read script.
#[derive(Clone, Debug)]
struct Rb {
    cfg: searcher_common::Cfg,
    m: searcher_common::LitMatcher,
    inp: Vec<u8>,
    cap: Option<usize>,
    heap: Option<usize>,
    script: Vec<Step>,
    sink: searcher_common::Script,
    /// `bom_sniffing` (off: an input may start with a BOM, which is then data)
    sniff: bool,
}

impl Rb {
    fn case_str(&self) -> String {
        let o = |x: &Option<usize>| x.map_or("-".to_string(), |n| n.to_string());
        format!(
            "rb cfg={} needle={} term={} nm={} cand={} inp={} cap={} heap={} script={} sink={} sniff={}",
            self.cfg.token(),
            hex(&self.m.needle),
            searcher_common::opt_lt_name(self.m.term),
            self.m.nm.as_ref().map_or("~".to_string(), |b| hex(b)),
            self.m.cand.as_ref().map_or("~".to_string(), |b| hex(b)),
            hex(&self.inp),
            o(&self.cap),
            o(&self.heap),
            script_str(&self.script),
            self.sink.token(),
            self.sniff as u8
        )
    }
    fn parse(parts: &[&str]) -> Option<Rb> {
        let get = |k: &str| parts.iter().find_map(|p| p.strip_prefix(k).and_then(|r| r.strip_prefix('=')));
        let o = |x: &str| if x == "-" { Some(None) } else { x.parse().ok().map(Some) };
        let ob = |x: &str| if x == "~" { Some(None) } else { unhex(x).map(Some) };
        Some(Rb {
            cfg: searcher_common::Cfg::parse_token(get("cfg")?)?,
            m: searcher_common::LitMatcher::new(
                unhex(get("needle")?)?,
                searcher_common::parse_opt_lt(get("term")?)?,
                ob(get("nm")?)?,
                ob(get("cand")?)?,
            ),
            inp: unhex(get("inp")?)?,
            cap: o(get("cap")?)?,
            heap: o(get("heap")?)?,
            script: parse_script(get("script")?)?,
            sink: searcher_common::Script::parse_token(get("sink")?)?,
            sniff: get("sniff").map_or(true, |v| v == "1"),
        })
    }
}

fn run_rb(case: &str, c: &Rb, drv: &mut Driver, rep: &mut Report) {
    rep.eval();
    // a matcher that announces a terminator different from the searcher's is a configuration error
    if let Some(t) = c.m.term {
        if t != c.cfg.lt {
            rep.branch("rb:mismatched-terminator(skipped)");
            return;
        }
    }
    let mut b = SearcherBuilder::new();
    b.line_terminator(c.cfg.lt.to_line_terminator())
        .invert_match(c.cfg.inv)
        .after_context(c.cfg.a)
        .before_context(c.cfg.b)
        .passthru(c.cfg.pt)
        .line_number(c.cfg.ln)
        .stop_on_nonmatch(c.cfg.son)
        .multi_line(c.cfg.ml)
        .bom_sniffing(c.sniff)
        .heap_limit(c.heap);
    if let Some(cap) = c.cap {
        b.verif_buffer_capacity(cap);
    }
    let mut searcher = b.build();
    let mut sink = searcher_common::RecSink::new(c.sink);
    let mut rdr = ScriptedReader::new(&c.inp, &c.script);
    let r = searcher.search_reader(&c.m, &mut rdr, &mut sink);
    let imp = format!("{}|{}", sink.events.join(";"), if r.is_ok() { "ok" } else { "err" });
    let log = rdr.log.clone();
    let o = |x: &Option<usize>| x.map_or("-".to_string(), |n| n.to_string());
    let eff = c.cfg.effective();
    // Experiment switch RGV_C02_F10B_FIXED=1, only meaningful with VERIF_REPO pointing at a tree that has
    // /verif/proposals/c02-f10b.patch applied (not committed; see known_findings.d/C02.json, F10b); unset, it
    // changes nothing. (A tree patched so that a sink stop on the fast path leaves
    // `pos` where the slow path leaves it): the real fast-path search must then equal the model's
    // SLOW-path search event for event, byte count included -- the model is asked with the matcher's
    // fast-path announcements removed (`slowOf`, theorem C02_fast_any_sink says the rest is equal).
    let f10b_fixed = std::env::var("RGV_C02_F10B_FIXED").is_ok() && !c.cfg.ml;
    let model_m = if f10b_fixed {
        rep.branch("rb:patched-tree:compared-with-slow-path-model");
        searcher_common::LitMatcher::new(c.m.needle.clone(), None, None, c.m.cand.clone())
    } else {
        searcher_common::LitMatcher::new(c.m.needle.clone(), c.m.term, c.m.nm.clone(), c.m.cand.clone())
    };
    let model = drv.ask(&format!(
        "c02.rbl {} {} {} (script {}) {} {} {}",
        eff.to_sx(),
        model_m.to_sx(),
        hex(&c.inp),
        script_str(&log).replace(',', " ").replace('-', ""),
        o(&c.cap),
        o(&c.heap),
        c.sink.to_sx()
    ));
    // (experiment switch, multi_line requested: the downgrade decision needs the matcher's announcements, so
    // the fast-path model is kept and a difference in nothing but the final byte count is tolerated)
    let only_fin_count = |a: &str, b: &str| -> bool {
        let cut = |s: &str| s.rfind(";fin ").map(|i| (s[..i].to_string(), s[i..].split(' ').skip(2).collect::<Vec<_>>().join(" ")));
        cut(a).is_some() && cut(a) == cut(b)
    };
    if imp != model && std::env::var("RGV_C02_F10B_FIXED").is_ok() && c.cfg.ml && only_fin_count(&imp, &model) {
        rep.branch("rb:patched-tree:ml-requested:byte-count-not-compared");
    } else if imp != model {
        rep.violation(Violation {
            kind: "impl_vs_model".into(),
            class: "".into(),
            tie: "Searcher::search_reader (decoder pass-through, LineBuffer, ReadByLine::{run,fill}, Core::roll) vs Model.ReadByLine.searchReader".into(),
            case: case.to_string(),
            detail: format!("impl {} model {}", &imp[..imp.len().min(600)], &model[..model.len().min(600)]),
        });
    }
    // the C02 statement inside the model: reader run = slice run (never expected to differ when the
    // matcher is context-independent, which a literal is)
    let slice = drv.ask(&format!("c02.slice {} {} {} {}", eff.to_sx(), model_m.to_sx(), hex(&c.inp), c.sink.to_sx()));
    if model != slice {
        let split = |s: &str| -> (Vec<String>, String) {
            let (e, r) = s.rsplit_once('|').unwrap_or((s, ""));
            (e.split(';').filter(|x| !x.is_empty()).map(|x| x.to_string()).collect(), r.to_string())
        };
        let (mev, mres) = split(&model);
        let (sev, sres) = split(&slice);
        // (1) theorem C02_heap_limit: under a heap limit the reader may fail with the allocation
        // error after a PREFIX of the slice searcher's callbacks -- and only then
        let heap_prefix = c.heap.is_some() && mres == "err" && mev.len() <= sev.len() && sev[..mev.len()] == mev[..];
        // (2) F10b `sink-stop-fast-path-byte-count`, same mechanism test as in `classify`:
        // only the byte count of the last event `fin` differs, the sink stopped (callback `k` was made
        // and is not `fin`), the fast path was taken, and the refused callback is a context line /
        // break or the search is inverted
        let f10b = match c.sink {
            searcher_common::Script::Stop(k) if mev.len() == sev.len() && mev.len() >= 2 && mres == sres => {
                let n = mev.len() - 1;
                let only_count = mev[..n] == sev[..n]
                    && mev[n].starts_with("fin ")
                    && sev[n].starts_with("fin ")
                    && mev[n].split(' ').skip(2).collect::<Vec<_>>() == sev[n].split(' ').skip(2).collect::<Vec<_>>();
                let stopped = k < n;
                let refused_ctx = stopped && (mev[k].starts_with("c ") || mev[k] == "brk");
                let lt = c.cfg.lt;
                let fast = !eff.pt
                    && !(eff.son && eff.inv)
                    && match c.m.term {
                        Some(t) => t == lt,
                        None => c.m.nm.as_ref().map_or(false, |b| b.contains(&lt.byte())),
                    }
                    // /repo a2e984b: never the fast path with a terminator byte other than \n
                    && lt.byte() == b'\n';
                only_count && stopped && fast && (eff.inv || refused_ctx)
            }
            _ => false,
        };
        if heap_prefix {
            rep.branch("rb:heap-limit-error-after-prefix");
        } else if f10b {
            rep.branch("class:sink-stop-fast-path-byte-count:attributed(model)");
            rep.branch("rb:F10b-sink-stop-byte-count");
            return;
        } else {
            rep.branch("class:unclassified");
            rep.violation(Violation {
                kind: "model_vs_spec".into(),
                class: "".into(),
                tie: "C02 in the model: events (searchReader …) = events (searchSlice …)".into(),
                case: case.to_string(),
                detail: format!("reader model {} slice model {}", &model[..model.len().min(600)], &slice[..slice.len().min(600)]),
            });
        }
    }
    rep.branch("rb:run");
    if c.cfg.ml {
        rep.branch("rb:multi-line-requested");
        if c.cfg.lt == searcher_common::Lt::Crlf && c.m.nm.as_ref().map_or(false, |b| b.contains(&b'\n') && !b.contains(&b'\r')) {
            rep.branch("rb:multi-line-crlf-nm-lf-only");
        }
    }
    if !c.sniff {
        rep.branch(if BOMS.iter().any(|b| c.inp.starts_with(b)) { "rb:no-sniff-bom-input" } else { "rb:no-sniff" });
    }
    if log.contains(&Step::Intr) {
        rep.branch("rb:interrupted");
    }
    match c.sink {
        searcher_common::Script::All => {}
        searcher_common::Script::Stop(_) => rep.branch("rb:sink-stop"),
        searcher_common::Script::Err(_) => rep.branch("rb:sink-err"),
    }
    let eff_cap = c.cap.or(c.heap.map(|h| h.min(65536))).unwrap_or(65536);
    if eff_cap < c.inp.len() {
        rep.branch("rb:rolled");
        if (eff.a > 0 || eff.b > 0 || eff.pt) && sink.events.iter().any(|e| e.starts_with("c ")) {
            rep.branch("rb:rolled-with-context");
            rep.nontrivial(case);
        }
    }
}

fn gen_rb(rng: &mut Rng, boundary: bool) -> Rb {
    let mut cfg = searcher_common::gen_cfg(rng, 3);
    // multi_line requested: the strategy choice of search_reader is part of the model
    if rng.chance(1, 4) {
        cfg.ml = true;
    }
    // CRLF + multi_line + a matcher that can never match `\n` (but says nothing about `\r`)
    let crlf_nm = rng.chance(1, 12);
    if crlf_nm {
        cfg.lt = searcher_common::Lt::Crlf;
        cfg.ml = true;
    }
    let needle: Vec<u8> = match rng.below(4) {
        0 => b"x".to_vec(),
        1 => b"ab".to_vec(),
        2 => b"a".to_vec(),
        _ => b"b x".to_vec(),
    };
    let m = match searcher_common::gen_lit_matcher(rng, &cfg, &needle) {
        searcher_common::MatcherSpec::Lit { needle, term, nm, cand } => {
            searcher_common::LitMatcher::new(needle, term, nm, cand)
        }
        _ => searcher_common::LitMatcher::new(needle, None, None, None),
    };
    let m = if crlf_nm { searcher_common::LitMatcher::new(m.needle.clone(), None, Some(vec![b'\n']), m.cand.clone()) } else { m };
    let t = cfg.lt.byte();
    let inp = if boundary {
        match rng.below(5) {
            0 => vec![],
            1 => vec![t],
            2 => b"x".to_vec(),
            3 => vec![b'x', t, t, b'a', b'b'],
            _ => gen_lines(rng, t, cfg.lt == searcher_common::Lt::Crlf, 4, 3, &alphabet_with_foreign(t, b"abx")),
        }
    } else {
        let (ml, mx) = (*rng.pick(&[3usize, 8, 20]), *rng.pick(&[3usize, 10, 30]));
        let alpha = if rng.chance(2, 3) { alphabet_with_foreign(t, b"aabx  ") } else { b"aabx  ".to_vec() };
        gen_lines(rng, t, cfg.lt == searcher_common::Lt::Crlf, ml, mx, &alpha)
    };
    let cap = if rng.chance(1, 8) { None } else { Some(*rng.pick(&[1usize, 1, 2, 3, 5, 8, 13, 64])) };
    let heap = if rng.chance(1, 8) { Some(rng.range(1, 40)) } else { None };
    let intr = rng.chance(1, 6);
    let script = gen_script(rng, inp.len(), intr);
    let sink = match rng.below(6) {
        0 => searcher_common::Script::Stop(rng.below(8)),
        1 => searcher_common::Script::Err(rng.below(8)),
        _ => searcher_common::Script::All,
    };
    let sniff = !rng.chance(1, 6);
    let mut inp = inp;
    if !sniff && rng.chance(3, 4) {
        let mut w = rng.pick(&BOMS).to_vec();
        w.extend_from_slice(&inp);
        inp = w;
    }
    let script = if sniff { script } else { gen_script(rng, inp.len(), intr) };
    Rb { cfg, m, inp, cap, heap, script, sink, sniff }
}


// ---------------------------------------------------------------- cl cases: the rg binary, three ways in

/// `rg` itself on one file given three ways: memory map, `--no-mmap` (roll buffer on a `File`), and on
/// stdin (roll buffer on a pipe). stdout must be byte-identical. Inputs hold no NUL unless `-a` /
/// `--null-data` switches binary detection off (with detection on the strategies differ by design,
/// class binary-detection-window-by-strategy).
#[derive(Clone, Debug)]
struct Cl {
    pat: String,
    flags: Vec<String>,
    inp: Vec<u8>,
}

const CL_FLAGS: [&str; 30] = [
    "-n", "-N", "-A1", "-B2", "-C1", "-v", "--crlf", "-U", "-c", "--count-matches", "-o", "-m2", "--passthru",
    "--stop-on-nonmatch", "-b", "--column", "--vimgrep", "--null-data", "-a", "-r[$0]", "--trim", "-M20", "-w", "-x",
    "-i", "-F", "-Elatin1", "--no-unicode", "--max-columns-preview", "--no-encoding",
];

impl Cl {
    fn case_str(&self) -> String {
        format!("cl pat={} flags={} inp={}", hex(self.pat.as_bytes()), hex(self.flags.join(" ").as_bytes()), hex(&self.inp))
    }
    fn parse(parts: &[&str]) -> Option<Cl> {
        let get = |k: &str| parts.iter().find_map(|p| p.strip_prefix(k).and_then(|r| r.strip_prefix('=')));
        let flags = String::from_utf8(unhex(get("flags")?)?).ok()?;
        Some(Cl {
            pat: String::from_utf8(unhex(get("pat")?)?).ok()?,
            flags: flags.split(' ').filter(|f| !f.is_empty()).map(|f| f.to_string()).collect(),
            inp: unhex(get("inp")?)?,
        })
    }
}

fn run_cl(case: &str, c: &Cl, args: &Args, rep: &mut Report) {
    use std::process::Command;
    let rg = match &args.rg {
        Some(p) => p.clone(),
        None => {
            rep.branch("cl:skipped-no-rg");
            return;
        }
    };
    rep.eval();
    let dir = args.scratch.join("cl");
    std::fs::create_dir_all(&dir).ok();
    let file = dir.join("f");
    std::fs::write(&file, &c.inp).expect("write scratch file");
    let run = |how: &str| -> (Option<i32>, Vec<u8>, String) {
        let mut cmd = Command::new(&rg);
        cmd.current_dir(&dir).env_clear();
        cmd.arg("--no-config").arg("--color=never").arg("-I");
        for f in &c.flags {
            cmd.arg(f);
        }
        cmd.arg("-e").arg(&c.pat);
        match how {
            "mmap" => {
                cmd.arg("--mmap").arg("f");
            }
            "read" => {
                cmd.arg("--no-mmap").arg("f");
            }
            _ => {
                cmd.stdin(std::fs::File::open(&file).expect("open scratch file"));
            }
        }
        let out = cmd.output().expect("run rg");
        (out.status.code(), out.stdout, String::from_utf8_lossy(&out.stderr).to_string())
    };
    let (rc0, out0, err0) = run("mmap");
    if rc0 == Some(2) && out0.is_empty() {
        rep.branch("cl:rg-error(flags/pattern)");
        let _ = err0;
        return;
    }
    for f in &c.flags {
        rep.branch(&format!("cl:flag:{}", f));
    }
    for how in ["read", "stdin"] {
        let (rc, out, err) = run(how);
        rep.branch(&format!("cl:mmap-vs-{}", how));
        if err.contains("panicked") || rc.is_none() {
            rep.violation(Violation {
                kind: "impl_vs_spec".into(),
                class: "".into(),
                tie: "rg must not crash".into(),
                case: case.to_string(),
                detail: format!("rg ({}) ended with {:?}: {}", how, rc, &err[..err.len().min(300)]),
            });
            continue;
        }
        if out != out0 || rc != rc0 {
            let class = "";
            if class.is_empty() {
                rep.branch("class:unclassified");
            } else {
                rep.branch(&format!("class:{}:attributed", class));
            }
            rep.violation(Violation {
                kind: "impl_vs_spec".into(),
                class: class.into(),
                tie: "rg's stdout and exit code for one file: --mmap vs --no-mmap vs stdin".into(),
                case: case.to_string(),
                detail: format!(
                    "rg {} -e {:?}: --mmap f wrote {:?} (exit {:?}), {} wrote {:?} (exit {:?})",
                    c.flags.join(" "),
                    c.pat,
                    show(&out0[..out0.len().min(300)]),
                    rc0,
                    if how == "read" { "--no-mmap f" } else { "< f" },
                    show(&out[..out.len().min(300)]),
                    rc
                ),
            });
        }
    }
    if !out0.is_empty() && c.inp.len() > 1 {
        rep.nontrivial(case);
    }
}

fn gen_cl(rng: &mut Rng, big: bool) -> Cl {
    let mut flags: Vec<String> = vec![];
    for _ in 0..rng.range(0, 5) {
        let f = rng.pick(&CL_FLAGS).to_string();
        if !flags.contains(&f) {
            flags.push(f);
        }
    }
    let text_mode = flags.iter().any(|f| f == "-a" || f == "--null-data");
    let mut alpha: Vec<u8> = b"aabc x\r".to_vec();
    if text_mode {
        alpha.push(0);
    }
    if rng.chance(1, 4) {
        alpha.extend_from_slice(&[0xC3, 0xA9, 0xE2, 0x82, 0xAC, 0x80, 0xFF]);
    }
    let crlf = flags.iter().any(|f| f == "--crlf") || rng.chance(1, 6);
    let inp = if big {
        // beyond the 64 KiB buffer
        let mut v = vec![];
        let want = 70000 + rng.below(70000);
        while v.len() < want {
            v.extend(gen_lines(rng, b'\n', crlf, 60, 40, &alpha));
        }
        v
    } else {
        let (ml, mx) = (*rng.pick(&[3usize, 8, 20, 60]), *rng.pick(&[3usize, 10, 40]));
        gen_lines(rng, b'\n', crlf, ml, mx, &alpha)
    };
    Cl { pat: rng.pick(&PATTERNS).to_string(), flags, inp }
}

fn run_case(case: &str, args: &Args, drv: &mut Driver, rep: &mut Report) {
    let parts: Vec<&str> = case.split(' ').collect();
    match parts.first().copied() {
        Some("lb") => match LbCase::parse(&parts) {
            Some(c) if c.bin == Bin::None => check_lb_case(case, &c, "c02", drv, rep),
            _ => rep.notes.push(format!("unparsable case: {}", case)),
        },
        Some("rb") => match Rb::parse(&parts) {
            Some(c) => run_rb(case, &c, drv, rep),
            None => rep.notes.push(format!("unparsable case: {}", case)),
        },
        Some("ds") => match Ds::parse(&parts) {
            Some(d) => run_ds(case, &d, &args.scratch, drv, rep),
            None => rep.notes.push(format!("unparsable case: {}", case)),
        },
        Some("cl") => match Cl::parse(&parts) {
            Some(c) => run_cl(case, &c, args, rep),
            None => rep.notes.push(format!("unparsable case: {}", case)),
        },
        Some("hs") => match Hs::parse(&parts) {
            Some(h) => run_hs(case, &h, &args.scratch, rep),
            None => rep.notes.push(format!("unparsable case: {}", case)),
        },
        _ => rep.notes.push(format!("unparsable case: {}", case)),
    }
}

fn main() {
    let args = parse_args();
    let mut drv = Driver::spawn(&args.driver);
    let mut rep = Report::new(
        "C02",
        "lb: random line-structured inputs (LF/NUL/';' terminators, long lines) x capacities 0..4096 x eager/limited \
         allocation x read scripts (1-byte, random, Interrupted) x fill/consume sequences generated against the real \
         buffer; non-trivial = the buffer rolled (abs>0 with data) and grew or is smaller than the input. \
         ds: 16 patterns x fast/slow matcher x LF/CRLF/NUL x contexts 0..3 x passthru/invert/line numbers/stop-on-nonmatch x \
         inputs 0-4 KiB (thorough: to ~300 KiB) x reader strategies (capacity 1..200 via hook, default 64 KiB, minimal \
         sufficient heap limit, scripted read sizes) + mmap/no-mmap paths + multi_line(true) when the matcher cannot match \
         the terminator; non-trivial = reader capacity < input length and a context line (or passthru) was delivered. \
         Interrupted reads are a separate low-rate stream. \
         CRLF + multi_line + patterns / literal matchers that can match CR but never LF; inputs starting with a UTF-8/UTF-16 \
         BOM under bom_sniffing(false). hs: one Searcher (line by line or really multi-line, mmap on/off) reused for 2-5 \
         inputs through search_slice / search_reader / search_path / search_file, each search compared with a fresh \
         Searcher's. ds also: 33 pattern shapes (\\A \\z (?-m:^) (?-m:$) \\B \\b), terminator ';', non-UTF-8 bytes, BOM with \
         sniffing on (transcoded), lines longer than 64 KiB (thorough), real multi-line searches vs the multi-line slice \
         search, insufficient heap limits (prefix), search_file, binary detection quit/convert (agreement required inside \
         the common detection window). cl: the rg binary on one file via --mmap / --no-mmap / stdin with 0-4 random flags: \
         stdout and exit code identical. Distinct by case text.",
    );
    quiet_panics();
    for c in corpus_cases(&args) {
        guarded(&c, &mut rep, |rep| run_case(&c, &args, &mut drv, rep));
    }
    if args.replay.is_none() {
        let mut rng = Rng::new(args.seed);
        let n = args.cases.unwrap_or(if args.thorough { 40000 } else { 3000 });
        // probing aid: RGV_C02_STREAM=cl runs that stream alone
        let only_stream = std::env::var("RGV_C02_STREAM").ok();
        for i in 0..n {
            let case = if i % 3 == 0 {
                gen_lb_case(&mut rng, Bin::None, i % 30 == 0).case_str()
            } else if i % 3 == 1 {
                gen_rb(&mut rng, i % 30 == 1).case_str()
            } else if only_stream.as_deref() == Some("cl") || i % 24 == 11 {
                gen_cl(&mut rng, i % 240 == 11).case_str()
            } else if i % 12 == 5 {
                gen_hs(&mut rng).case_str()
            } else {
                let big = args.thorough && i % 200 == 1;
                gen_ds(&mut rng, i % 20 == 2, big).case_str()
            };
            if i < 6 {
                rep.sample(if case.len() > 400 { format!("{}…", &case[..400]) } else { case.clone() });
            }
            guarded(&case, &mut rep, |rep| run_case(&case, &args, &mut drv, rep));
        }
    }
    rep.write(&args);
}
