//! C01 (searcher level) — a line is reported iff the pattern matches that line's content.
//!
//! Real `RegexMatcher` built the way `hiargs.rs::matcher_rust` builds it, real `Searcher::search_slice`.
//!   impl  vs model : Sink event stream vs Lean model (`c01.model`, the matcher enters as a table)
//!   impl  vs spec  : lines reported as matching vs `regex::bytes::Regex::is_match(content)` per line
//!                    (content = line minus terminator byte, and minus a preceding `\r` under CRLF)
//!   model vs spec  : under the guards of the theorems (`C01_content_slow`: none; `C01_content_fast`: the
//!                    `LineSafe` certificate check holds on the matcher's answers), relative to the matcher's
//!                    own `is_match` on the content
//! Known-finding classes: `fastpath-matcher-not-linesafe-crlf` (F1),
//! `fastpath-matcher-not-linesafe` (F2), `crlf-cr-unmatchable` (matcher level: a lone CR inside a line cannot be
//! matched under --crlf).
#[path = "../searcher_common.rs"]
mod searcher_common;

use grep_matcher::Matcher;
use grep_regex::{RegexMatcher, RegexMatcherBuilder};
use rgverif_harness::*;
use searcher_common::*;

#[derive(Clone, Debug)]
struct C1 {
    cfg: Cfg,
    ci: bool,
    fixed: bool,
    /// `-w`: `RegexMatcherBuilder::word(true)`
    word: bool,
    /// `-S`: `RegexMatcherBuilder::case_smart(true)`
    smart: bool,
    /// `-x`: `RegexMatcherBuilder::whole_line(true)`
    xline: bool,
    pats: Vec<String>,
    input: Vec<u8>,
}

impl C1 {
    fn line(&self) -> String {
        let ps: Vec<String> = self.pats.iter().map(|p| hex(p.as_bytes())).collect();
        if self.xline {
            return format!(
                "re01y {} i{} F{} w{} S{} x1 {} {}",
                self.cfg.token(),
                self.ci as u8,
                self.fixed as u8,
                self.word as u8,
                self.smart as u8,
                ps.join(","),
                hex(&self.input)
            );
        }
        if self.word || self.smart {
            return format!(
                "re01x {} i{} F{} w{} S{} {} {}",
                self.cfg.token(),
                self.ci as u8,
                self.fixed as u8,
                self.word as u8,
                self.smart as u8,
                ps.join(","),
                hex(&self.input)
            );
        }
        format!("re01 {} i{} F{} {} {}", self.cfg.token(), self.ci as u8, self.fixed as u8, ps.join(","), hex(&self.input))
    }
    fn parse(s: &str) -> Option<C1> {
        let mut p: Vec<&str> = s.split_whitespace().collect();
        let (mut word, mut smart) = (false, false);
        let mut xline = false;
        if p.len() == 9 && p[0] == "re01y" {
            xline = p[6] == "x1";
            p.remove(6);
            p[0] = "re01x";
        }
        if p.len() == 8 && p[0] == "re01x" {
            word = p[4] == "w1";
            smart = p[5] == "S1";
            p.remove(5);
            p.remove(4);
            p[0] = "re01";
        }
        if p.len() != 6 || p[0] != "re01" {
            return None;
        }
        let cfg = Cfg::parse_token(p[1])?;
        let ci = p[2] == "i1";
        let fixed = p[3] == "F1";
        let mut pats = vec![];
        for h in p[4].split(',') {
            pats.push(String::from_utf8(unhex(h)?).ok()?);
        }
        Some(C1 { cfg, ci, fixed, word, smart, xline, pats, input: unhex(p[5])? })
    }
}

/// `hiargs.rs::matcher_rust` for line-oriented search.
fn build_matcher(c: &C1) -> Result<RegexMatcher, String> {
    let mut b = RegexMatcherBuilder::new();
    b.multi_line(true).unicode(true).octal(false).fixed_strings(c.fixed).case_insensitive(c.ci);
    if c.smart {
        b.case_smart(true);
    }
    if c.word {
        b.word(true);
    }
    if c.xline {
        b.whole_line(true);
    }
    b.line_terminator(Some(b'\n')).dot_matches_new_line(false);
    if c.cfg.lt == Lt::Crlf {
        b.crlf(true);
    }
    if c.cfg.lt == Lt::Nul {
        b.line_terminator(Some(0));
    }
    b.build_many(&c.pats).map_err(|e| e.to_string())
}

/// The documented smart-case rule, decided on the pattern TEXT (independently of regex-syntax's AST): the
/// pattern is searched case-insensitively iff it contains at least one literal character and none of its
/// literal characters is uppercase. Escapes (`\w`, `\pL`, `\b`, `\x00` …), flag groups `(?…)`, counted
/// repetitions `{m,n}` and operators contribute no literal; letters inside `[...]` are literals.
fn smart_case_analysis(pat: &str) -> (bool, bool) {
    let cs: Vec<char> = pat.chars().collect();
    let (mut any_lit, mut any_upper) = (false, false);
    let mut i = 0;
    while i < cs.len() {
        let c = cs[i];
        if c == '\\' {
            i += 1;
            if i < cs.len() {
                match cs[i] {
                    'p' | 'P' => {
                        if i + 1 < cs.len() && cs[i + 1] == '{' {
                            while i < cs.len() && cs[i] != '}' {
                                i += 1;
                            }
                        } else {
                            i += 1;
                        }
                    }
                    'x' => i += 2,
                    _ => {}
                }
            }
            i += 1;
            continue;
        }
        if c == '(' && i + 1 < cs.len() && cs[i + 1] == '?' {
            while i < cs.len() && cs[i] != ':' && cs[i] != ')' {
                i += 1;
            }
            i += 1;
            continue;
        }
        if c == '[' && i + 1 < cs.len() && cs[i + 1] == ':' {
            // `[:upper:]` inside a bracketed class: a class name, not literals
            i += 2;
            while i + 1 < cs.len() && !(cs[i] == ':' && cs[i + 1] == ']') {
                i += 1;
            }
            i += 2;
            continue;
        }
        if c == '{' {
            while i < cs.len() && cs[i] != '}' {
                i += 1;
            }
            i += 1;
            continue;
        }
        if "()[]|*+?^$.-".contains(c) {
            i += 1;
            continue;
        }
        any_lit = true;
        if c.is_uppercase() {
            any_upper = true;
        }
        i += 1;
    }
    (any_lit, any_upper)
}

/// The user's pattern as the regex crate understands it (the reference of the property).
fn build_reference(c: &C1) -> Result<regex::bytes::Regex, String> {
    // smart case is ONE decision for the alternation of all the patterns ("the pattern" of the documentation; grep-regex
    // joins them before it analyses the syntax tree); it also applies to -F, where every character is a literal
    let (mut any_lit, mut any_upper) = (false, false);
    for p in &c.pats {
        let (l, u) = if c.fixed { (!p.is_empty(), p.chars().any(|ch| ch.is_uppercase())) } else { smart_case_analysis(p) };
        any_lit |= l;
        any_upper |= u;
    }
    let insensitive = c.ci || (c.smart && any_lit && !any_upper);
    let alts: Vec<String> = c
        .pats
        .iter()
        .map(|p| {
            let body = if c.fixed { regex::escape(p) } else { p.clone() };
            if insensitive {
                format!("(?i:{})", body)
            } else {
                format!("(?:{})", body)
            }
        })
        .collect();
    let mut joined = alts.join("|");
    if c.xline {
        // `into_whole_line` (takes precedence over -w): the whole expression between the line anchors
        joined = format!("(?m:^)(?:{})(?m:$)", joined);
    } else if c.word {
        // `into_word`: the whole expression between the Unicode half-word assertions
        joined = format!("\\b{{start-half}}(?:{})\\b{{end-half}}", joined);
    }
    let mut b = regex::bytes::RegexBuilder::new(&joined);
    // NUL-data only changes how the input is cut into records: `.`, `^`, `$` keep their `\n` meaning
    // (grep-regex does not hand the NUL terminator to the regex syntax; see the FIXME in core.rs).
    b.multi_line(true).unicode(true).crlf(c.cfg.lt == Lt::Crlf);
    b.build().map_err(|e| e.to_string())
}

fn gen_atom(rng: &mut Rng, lt: Lt) -> String {
    let k = rng.below(26);
    match k {
        22 => "\\A".into(),
        23 => "\\z".into(),
        24 => "(?-m:^)".into(),
        25 => "(?-m:$)".into(),
        0 | 1 => "a".into(),
        2 => "b".into(),
        3 => "[ab]".into(),
        4 => ".".into(),
        5 => "\\b".into(),
        6 => "\\B".into(),
        7 => "^".into(),
        8 => "$".into(),
        9 => "\\r".into(),
        10 => "[^a]".into(),
        11 => "\\s".into(),
        12 => "\\w".into(),
        13 => "".into(),
        14 => "(?R)\\r$".into(),
        15 => "(?R)$".into(),
        16 => "\\x00".into(),
        17 => "A".into(),
        18 => {
            if lt == Lt::Nul {
                "\\n".into()
            } else {
                "c".into()
            }
        }
        19 => "\\W".into(),
        20 => "(?-u:\\xff)".into(),
        _ => "\\S".into(),
    }
}

fn gen_pattern(rng: &mut Rng, depth: usize, lt: Lt) -> String {
    if depth == 0 {
        return gen_atom(rng, lt);
    }
    match rng.below(10) {
        9 => format!("({})", gen_pattern(rng, depth - 1, lt)),
        0 | 1 => gen_atom(rng, lt),
        2 | 3 | 4 => format!("{}{}", gen_pattern(rng, depth - 1, lt), gen_pattern(rng, depth - 1, lt)),
        5 => format!("(?:{}|{})", gen_pattern(rng, depth - 1, lt), gen_pattern(rng, depth - 1, lt)),
        6 => format!("(?:{})*", gen_pattern(rng, depth - 1, lt)),
        7 => format!("(?:{})?", gen_pattern(rng, depth - 1, lt)),
        _ => format!("(?:{})+", gen_pattern(rng, depth - 1, lt)),
    }
}

fn gen_input(rng: &mut Rng, lt: Lt) -> Vec<u8> {
    let n = rng.range(0, 5);
    let mut out = vec![];
    let alpha: &[u8] = match lt {
        Lt::Nul => b"aabA \n\r\xff",
        _ => b"aabA \r\x00\xff",
    };
    for i in 0..n {
        for _ in 0..rng.range(0, 3) {
            out.push(*rng.pick(alpha));
        }
        if i + 1 < n || rng.chance(3, 4) {
            match lt {
                Lt::Lf => out.push(b'\n'),
                Lt::Nul => out.push(0),
                Lt::Crlf => {
                    if rng.chance(3, 4) {
                        out.push(b'\r');
                    }
                    out.push(b'\n');
                }
            }
        }
    }
    out
}

fn gen_case(rng: &mut Rng) -> C1 {
    let lt = *rng.pick(&[Lt::Lf, Lt::Lf, Lt::Crlf, Lt::Crlf, Lt::Nul]);
    let cfg = Cfg { lt, inv: rng.chance(1, 4), a: 0, b: 0, pt: rng.chance(1, 3), ln: true, son: false, ml: false, bin: Bin::None };
    let fixed = rng.chance(1, 10);
    let np = if rng.chance(1, 5) { 2 } else { 1 };
    let pats: Vec<String> = (0..np)
        .map(|_| if fixed { ["a", "ab", "a.", "$", "\\B"][rng.below(5)].to_string() } else { gen_pattern(rng, 2, lt) })
        .collect();
    C1 { cfg, ci: rng.chance(1, 5), fixed, word: false, smart: false, xline: false, pats, input: gen_input(rng, lt) }
}

/// `-w` with patterns LIT · (group / alternation / repetition starting with a non-literal) · LIT: ripgrep's own
/// inner-literal extraction is active (Unicode word looks keep regex-automata from accelerating by itself),
/// and lines that do match are generated.
fn gen_word_case(rng: &mut Rng) -> C1 {
    let lits = ["foo", "ab", "baz", "x", "quux", "bar", "a"];
    let l1 = *rng.pick(&lits);
    let l2 = *rng.pick(&lits);
    let l3 = *rng.pick(&lits);
    let gap = *rng.pick(&["[A-Z]+", "[0-9]", "\\d+", "[A-Z]*", ".", "\\s"]);
    let pat = match rng.below(5) {
        0 => format!("{}({}{}){}", l1, gap, l2, l3),
        1 => format!("{}(?:{}{}|{}){}", l1, gap, l2, gap, l3),
        2 => format!("{}(?:{}{})+{}", l1, gap, l2, l3),
        3 => format!("{}(?:{}{})?{}", l1, gap, l2, l3),
        _ => format!("{}{}{}{}", l1, gap, l2, l3),
    };
    let lt = *rng.pick(&[Lt::Lf, Lt::Lf, Lt::Crlf]);
    let cfg = Cfg { lt, inv: rng.chance(1, 5), a: 0, b: 0, pt: rng.chance(1, 6), ln: true, son: false, ml: false, bin: Bin::None };
    let fill = |rng: &mut Rng| -> String {
        match gap {
            "[A-Z]+" | "[A-Z]*" => (0..rng.range(1, 2)).map(|_| *rng.pick(&['X', 'Y', 'Q'])).collect(),
            "[0-9]" | "\\d+" => "7".to_string(),
            "\\s" => " ".to_string(),
            _ => "z".to_string(),
        }
    };
    let mut input = vec![];
    let n = rng.range(1, 5);
    for i in 0..n {
        let line = match rng.below(5) {
            0 | 1 => format!("{}{}{}{}", l1, fill(rng), l2, l3),
            2 => format!("- {}{}{}{} !", l1, fill(rng), l2, l3),
            3 => format!("{}{}", l1, l3),
            _ => format!("w{}{}{}{}w", l1, fill(rng), l2, l3),
        };
        input.extend_from_slice(line.as_bytes());
        if i + 1 < n || rng.chance(3, 4) {
            input.extend_from_slice(lt.bytes());
        }
    }
    C1 { cfg, ci: false, fixed: false, word: rng.chance(4, 5), smart: false, xline: false, pats: vec![pat], input }
}

/// `-S`: uppercase letters only inside repetitions / groups / classes, or only as escapes (`\W`, `\pL`), mixed
/// with lowercase literals; inputs with case variants of the same words.
fn gen_smart_case(rng: &mut Rng) -> C1 {
    let atoms = [
        "status ", "o", "K?", "(OK)+", "N*", "ame", "[a-z]", "[A-Z]", "\\W", "\\pL", "k", "(?:Ok|ko)", "a{1,2}", "B{1,2}", "$", "^", "n",
        "(k)?", "[Kk]", "\\w", "ok",
    ];
    let n = rng.range(1, 4);
    let pat: String = (0..n).map(|_| *rng.pick(&atoms)).collect();
    let lt = *rng.pick(&[Lt::Lf, Lt::Lf, Lt::Crlf]);
    let cfg = Cfg { lt, inv: rng.chance(1, 5), a: 0, b: 0, pt: rng.chance(1, 5), ln: true, son: false, ml: false, bin: Bin::None };
    let words = [
        "status ok", "status OK", "STATUS OK", "status oK", "Name", "name", "NAME", "ok", "OK", "Ok", "k", "K", "nn", "N", "a", "B", "bb", "",
    ];
    let mut input = vec![];
    let nl = rng.range(1, 6);
    for i in 0..nl {
        input.extend_from_slice(rng.pick(&words).as_bytes());
        if i + 1 < nl || rng.chance(3, 4) {
            input.extend_from_slice(lt.bytes());
        }
    }
    C1 { cfg, ci: false, fixed: false, word: rng.chance(1, 6), smart: true, xline: false, pats: vec![pat], input }
}


/// Counted repetitions, classes, long literals and alternations around and above every limit of ripgrep's own
/// inner-literal extractor (`Extractor { limit_class: 10, limit_repeat: 10, limit_literal_len: 100, limit_total: 64 }`,
/// anchored in checks/C11.json), in the three shapes that keep regex-automata from accelerating by itself so that
/// ripgrep's extractor runs (`-w`, a leading `\b`, an alternation with a class-prefixed branch); every pattern comes
/// with lines that match and near-miss lines (one repetition fewer / more, a non-member of the class).
fn gen_limit_case(rng: &mut Rng) -> C1 {
    let lits = ["c", "foo", "ab", "qu"];
    let l1 = *rng.pick(&lits);
    let l2 = *rng.pick(&["y", "bar", "z", "ox"]);
    // (pattern body, lines that are instances or near misses)
    let (body, mut cands): (String, Vec<String>) = match rng.below(8) {
        0 | 1 => {
            // exact count of one letter or of a two-letter group
            let n = *rng.pick(&[2usize, 9, 10, 11, 12, 13, 20, 21]);
            if rng.chance(2, 3) {
                let x = *rng.pick(&["Z", "Q", "7"]);
                let inst = |k: usize| format!("{}{}{}", l1, x.repeat(k), l2);
                (format!("{}{}{{{}}}{}", l1, x, n, l2), vec![inst(n - 1), inst(n), inst(n + 1), inst(10), inst(11)])
            } else {
                let inst = |k: usize| format!("{}{}{}", l1, "ZQ".repeat(k), l2);
                (format!("{}(?:ZQ){{{}}}{}", l1, n, l2), vec![inst(n - 1), inst(n), inst(n + 1), inst(10)])
            }
        }
        2 => {
            // bounded / open ranges around the limit
            let n = *rng.pick(&[1usize, 9, 10, 11, 12]);
            let m = n + rng.range(0, 3);
            let x = *rng.pick(&["Z", "Q"]);
            let inst = |k: usize| format!("{}{}{}", l1, x.repeat(k), l2);
            let rep = if rng.chance(1, 3) { format!("{{{},}}", n) } else { format!("{{{},{}}}", n, m) };
            (format!("{}{}{}{}", l1, x, rep, l2), vec![inst(n.saturating_sub(1)), inst(n), inst(m), inst(m + 1), inst(10), inst(11)])
        }
        3 => {
            // classes of 9..12 members between literals (limit_class = 10)
            let k = *rng.pick(&[2usize, 9, 10, 11, 12]);
            let hi = (b'a' + (k as u8) - 1) as char;
            let member = (b'a' + rng.below(k) as u8) as char;
            let non = (b'a' + k as u8) as char;
            (
                format!("{}[a-{}]{}", l1.to_uppercase(), hi, l2.to_uppercase()),
                vec![
                    format!("{}{}{}", l1.to_uppercase(), member, l2.to_uppercase()),
                    format!("{}{}{}", l1.to_uppercase(), hi, l2.to_uppercase()),
                    format!("{}{}{}", l1.to_uppercase(), non, l2.to_uppercase()),
                    format!("{}{}", l1.to_uppercase(), l2.to_uppercase()),
                ],
            )
        }
        4 => {
            // cross products around limit_total = 64: [ab]{5} = 32, [ab]{6} = 64, [ab]{7} = 128, [abc]{4} = 81
            let (cls, alpha, n): (&str, &[u8], usize) = *rng.pick(&[
                ("[ab]", &b"ab"[..], 5usize),
                ("[ab]", &b"ab"[..], 6),
                ("[ab]", &b"ab"[..], 7),
                ("[abc]", &b"abc"[..], 4),
                ("[abcd]", &b"abcd"[..], 3),
            ]);
            let word = |rng: &mut Rng, k: usize| -> String { (0..k).map(|_| *rng.pick(alpha) as char).collect() };
            let (w0, w1, w2) = (word(rng, n), word(rng, n - 1), word(rng, n + 1));
            (
                format!("X{}{{{}}}Y", cls, n),
                vec![format!("X{}Y", w0), format!("X{}Y", w1), format!("X{}Y", w2), format!("X{}dY", &w0[1..])],
            )
        }
        5 => {
            // literals of 98..102 bytes (limit_literal_len = 100) before and after a class
            let k = *rng.pick(&[98usize, 99, 100, 101, 102]);
            let long = "q".repeat(k);
            let tail = *rng.pick(&["", "k", "kk"]);
            (
                format!("{}[0-9]{}{}", long, l2, tail),
                vec![
                    format!("{}7{}{}", long, l2, tail),
                    format!("{}7{}{}", "q".repeat(k - 1), l2, tail),
                    format!("{}7{}{}", "q".repeat(k + 1), l2, tail),
                    format!("{}x{}{}", long, l2, tail),
                ],
            )
        }
        6 => {
            // alternations of 63..66 literals
            let k = *rng.pick(&[63usize, 64, 65, 66]);
            let alts: Vec<String> = (0..k).map(|i| format!("w{}{}", (b'a' + (i % 26) as u8) as char, (b'A' + (i / 26) as u8) as char)).collect();
            let pick = alts[rng.below(k)].clone();
            let last = alts[k - 1].clone();
            (format!("(?:{})[0-9]{}", alts.join("|"), l2), vec![format!("{}7{}", pick, l2), format!("{}7{}", last, l2), format!("wzZ7{}", l2), format!("{}{}", pick, l2)])
        }
        _ => {
            // nested: a repetition of a literal-bearing group above the limit, with a literal-free tail
            let n = *rng.pick(&[10usize, 11, 12]);
            let inst = |k: usize| format!("{}{}9{}", l1, "Zk".repeat(k), l2);
            (format!("{}(?:Zk){{{}}}[0-9]{}", l1, n, l2), vec![inst(n - 1), inst(n), inst(n + 1)])
        }
    };
    let shape = rng.below(4);
    let pat = match shape {
        0 | 1 => body.clone(),                                             // with -w
        2 => format!("\\b{}", body),                                       // leading \b
        _ => format!("\\w+\\s+(?:{}|[A-Z]atso[a-z])", body),               // alternation with a class-prefixed branch
    };
    let word = shape <= 1;
    if shape == 3 {
        cands.push("Catsop".to_string());
    }
    let lt = *rng.pick(&[Lt::Lf, Lt::Lf, Lt::Crlf]);
    let cfg = Cfg { lt, inv: rng.chance(1, 4), a: 0, b: 0, pt: rng.chance(1, 8), ln: true, son: false, ml: false, bin: Bin::None };
    let mut input = vec![];
    let n = rng.range(2, 6);
    for i in 0..n {
        let w = rng.pick(&cands).clone();
        let line = match rng.below(4) {
            0 => w,
            1 => format!("ab {} q", w),
            2 => format!("ab {}", w),
            _ => format!("v{}v", w),
        };
        input.extend_from_slice(line.as_bytes());
        if i + 1 < n || rng.chance(3, 4) {
            input.extend_from_slice(lt.bytes());
        }
    }
    C1 { cfg, ci: false, fixed: false, word, smart: false, xline: false, pats: vec![pat], input }
}

/// `-S` with patterns that contain NO literal at all (only classes, escapes, Unicode properties, anchors): smart
/// case must leave them case-sensitive. The classes are not closed under case folding.
fn gen_smart_nolit_case(rng: &mut Rng) -> C1 {
    let atoms = [
        "\\p{Lu}", "\\p{Ll}", "[[:upper:]]", "[[:lower:]]", "\\p{Lu}+", "\\p{Ll}+", "\\pL", "\\W", "\\s", "\\d", ".", "^", "$", "\\b",
        "(?:\\p{Lu}|\\d)", "[[:upper:]]{2}", "\\P{Ll}", "[^[:lower:]]", "(\\p{Lu})", "[[:upper:][:digit:]]",
    ];
    let n = rng.range(1, 3);
    let pat: String = (0..n).map(|_| *rng.pick(&atoms)).collect();
    let lt = *rng.pick(&[Lt::Lf, Lt::Lf, Lt::Crlf]);
    let cfg = Cfg { lt, inv: rng.chance(1, 4), a: 0, b: 0, pt: rng.chance(1, 6), ln: true, son: false, ml: false, bin: Bin::None };
    let words = ["abc", "ABC", "Abc", "a b", "A B", "\u{e9}", "\u{c9}", "1", "a1", "A1", "x", "X", "", "ab", "AB", "aB"];
    let mut input = vec![];
    let nl = rng.range(1, 6);
    for i in 0..nl {
        input.extend_from_slice(rng.pick(&words).as_bytes());
        if i + 1 < nl || rng.chance(3, 4) {
            input.extend_from_slice(lt.bytes());
        }
    }
    C1 { cfg, ci: false, fixed: false, word: false, smart: true, xline: false, pats: vec![pat], input }
}

/// Classes that could match the line terminator (`\s`, `\W`, `\D`, negated classes) and literal terminators INSIDE
/// capturing groups (plain, named, nested, under alternation / repetition), next to a line end; the two halves of
/// a would-be match sit on consecutive lines, so a matcher that keeps the terminator in such a class matches
/// across the line break.
fn gen_capture_case(rng: &mut Rng) -> C1 {
    let lt = *rng.pick(&[Lt::Lf, Lt::Lf, Lt::Crlf, Lt::Nul]);
    let cls = *rng.pick(&["\\s", "\\W", "\\D", "[^a-z]", "[^a]", "\\s+", "\\W*", "[\\s\\d]", "\\P{L}"]);
    let tlit = match lt {
        Lt::Nul => "\\x00",
        _ => "\\n",
    };
    let (a, b) = (*rng.pick(&["foo", "a", "ab"]), *rng.pick(&["bar", "b", "a"]));
    let pat = match rng.below(12) {
        0 => format!("{}({}){}", a, cls, b),
        1 => format!("({}){}", cls, b),
        2 => format!("{}({})", a, cls),
        3 => format!("(?P<ws>{}){}", cls, b),
        4 => format!("{}(({})){}", a, cls, b),
        5 => format!("({}|{}){}", a, cls, b),
        6 => format!("{}({}|x)+{}", a, cls, b),
        7 => format!("(?:({})){}", cls, b),
        8 => format!("{}(?:x|({})){}", a, cls, b),
        9 => format!("({}{}{})", a, tlit, b), // must be rejected
        10 => format!("{}({}){}", a, tlit, b), // must be rejected
        _ => format!("({}({})?)+{}", a, cls, b),
    };
    let cfg = Cfg { lt, inv: rng.chance(1, 4), a: 0, b: 0, pt: rng.chance(1, 8), ln: true, son: false, ml: false, bin: Bin::None };
    let pieces = [a.to_string(), b.to_string(), format!("{} {}", a, b), format!("{}1{}", a, b), format!("x{}", b), format!("{} ", a), String::new(), format!(" {}", b), format!("{}{}", a, b)];
    let mut input = vec![];
    let nl = rng.range(2, 6);
    for i in 0..nl {
        // favour the pair `a` / `b` on consecutive lines
        let piece = if i % 2 == 0 && rng.chance(1, 2) { a.to_string() } else if i % 2 == 1 && rng.chance(1, 2) { b.to_string() } else { rng.pick(&pieces).clone() };
        input.extend_from_slice(piece.as_bytes());
        if i + 1 < nl || rng.chance(3, 4) {
            input.extend_from_slice(lt.bytes());
        }
    }
    C1 { cfg, ci: false, fixed: false, word: false, smart: false, xline: false, pats: vec![pat], input }
}

/// The restrictions of the other streams lifted at once: haystack anchors, half-word and start/end word
/// assertions, `(?s:.)`, `(?-u:…)` (also matching invalid UTF-8), case-insensitive non-ASCII letters (é/É, k/K/KELVIN
/// SIGN, s/ſ), alternations with empty branches, lazy and empty-only repetitions; -i, -S, -w, -x, -F (with `\n` / `\r`
/// in the literal) in every combination with LF / CRLF / NUL; context sizes, line numbers off, stop_on_nonmatch,
/// passthru, inversion; inputs with non-ASCII letters, invalid UTF-8 next to matches, lone CR, NUL, lines of only
/// terminators, a long line.
fn gen_probe_case(rng: &mut Rng) -> C1 {
    let lt = *rng.pick(&[Lt::Lf, Lt::Lf, Lt::Crlf, Lt::Nul]);
    fn atom(rng: &mut Rng, lt: Lt) -> String {
        let xs = [
            "\\A", "\\z", "(?-m:^)", "(?-m:$)", "\\b{start-half}", "\\b{end-half}", "\\b{start}", "\\b{end}", "(?s:.)", "(?-u:\\w)",
            "(?-u:\\b)", "(?-u:\\B)", "(?-u:.)", "(?i:k)", "(?i:\u{e9})", "(?i:s)", "\u{212a}", "\u{17f}", "\u{e9}", "\u{c9}", "(?:|a)",
            "(?:a|)", "(?:)", "a??", "\\s*", "x*", "k", "S", "[^a]", "\\W", "\\pL", "\\PL", "(?-u:[^a])", "$", "^", "a", ".",
        ];
        if rng.chance(1, 4) {
            gen_atom(rng, lt)
        } else {
            rng.pick(&xs).to_string()
        }
    }
    let fixed = rng.chance(1, 10);
    let np = if rng.chance(1, 5) { 2 } else { 1 };
    let pats: Vec<String> = (0..np)
        .map(|_| {
            if fixed {
                ["a\nb", "a\rb", "a.", "\u{e9}", "K", "a", "\r", "\n", "$"][rng.below(9)].to_string()
            } else {
                let n = rng.range(1, 3);
                let mut p = String::new();
                for _ in 0..n {
                    let a = atom(rng, lt);
                    p.push_str(&match rng.below(8) {
                        0 => format!("(?:{})*", a),
                        1 => format!("(?:{})?", a),
                        2 => format!("({})", a),
                        3 => format!("(?:{}|{})", a, atom(rng, lt)),
                        _ => a,
                    });
                }
                p
            }
        })
        .collect();
    let cfg = Cfg {
        lt,
        inv: rng.chance(1, 4),
        a: rng.range(0, 2),
        b: rng.range(0, 2),
        pt: rng.chance(1, 4),
        ln: rng.chance(2, 3),
        son: rng.chance(1, 6),
        ml: false,
        bin: Bin::None,
    };
    let words: [&[u8]; 22] = [
        b"a", b"A", b"k", b"K", "\u{212a}".as_bytes(), b"s", b"S", "\u{17f}".as_bytes(), "\u{e9}".as_bytes(), "\u{c9}".as_bytes(), b"\xff", b"\x80",
        b"\xc3", b"\r", b"\x00", b" ", b"b", b"ab", b"", b"x", b"\n", b"a\xffa",
    ];
    let mut input = vec![];
    let nl = rng.range(0, 6);
    for i in 0..nl {
        if rng.chance(1, 40) {
            input.extend(std::iter::repeat(b'a').take(300));
        }
        for _ in 0..rng.range(0, 3) {
            let w = *rng.pick(&words);
            if w == b"\n" && lt != Lt::Nul {
                continue;
            }
            if w == b"\x00" && lt == Lt::Nul {
                continue;
            }
            input.extend_from_slice(w);
        }
        if i + 1 < nl || rng.chance(3, 4) {
            if lt == Lt::Crlf && rng.chance(1, 4) {
                input.push(b'\n');
            } else {
                input.extend_from_slice(lt.bytes());
            }
        }
    }
    C1 { cfg, ci: rng.chance(1, 4), fixed, word: rng.chance(1, 6), smart: rng.chance(1, 8), xline: rng.chance(1, 6), pats, input }
}

/// The `m …` entries of an event stream (offset and bytes are what identifies a reported line).
fn reported(run: &str) -> Vec<String> {
    let (evs, _) = split_run(run);
    evs.iter()
        .filter(|e| e.starts_with("m "))
        .map(|e| {
            let f: Vec<&str> = e.split(' ').collect();
            format!("{}:{}", f[2], f[3])
        })
        .collect()
}

fn run_case(line: &str, drv: &mut Driver, rep: &mut Report) {
    let c = match C1::parse(line) {
        Some(c) => c,
        None => {
            rep.violation(Violation {
                kind: "impl_vs_model".into(),
                class: "".into(),
                tie: "harness".into(),
                case: line.to_string(),
                detail: "unparsable case line".into(),
            });
            return;
        }
    };
    rep.eval();
    let m = match build_matcher(&c) {
        Ok(m) => m,
        Err(_) => {
            rep.branch("pattern-rejected-by-matcher");
            return;
        }
    };
    let re = match build_reference(&c) {
        Ok(r) => r,
        Err(_) => {
            rep.branch("pattern-rejected-by-reference");
            return;
        }
    };
    let cfg = c.cfg.effective();
    let csx = cfg.to_sx();
    let mut s = cfg.searcher();
    let imp = run_with(&mut s, &m, &c.input, Script::All, &Strategy::Slice).0;
    let (tsx, incons) = table_sx(&m, &cfg, &c.input);
    if let Some(msg) = incons {
        rep.violation(Violation {
            kind: "impl_vs_model".into(),
            class: "".into(),
            tie: "Matcher::is_match vs shortest_match (the model derives one from the other)".into(),
            case: line.to_string(),
            detail: msg,
        });
    }
    let inp = hex(&c.input);
    let path = drv.ask(&format!("c01.path {} {}", csx, table_head_sx(&m)));
    let model = drv.ask(&format!("c01.model {} {} {} (sink all)", csx, tsx, inp));
    let lines = split_lines(&c.input, cfg.lt.byte());
    // property-level selection: the reference regex on the property's content
    let bits_r: Vec<bool> = lines.iter().map(|l| re.is_match(content(l, cfg.lt)) != cfg.inv).collect();
    // matcher-relative selection (what the theorems speak about)
    let bits_m = sel_bits_matcher(&m, &cfg, &c.input);
    let spec_r = drv.ask(&format!("c01.spec {} {} {}", csx, bits_str(&bits_r), inp));
    let spec_m = drv.ask(&format!("c01.spec {} {} {}", csx, bits_str(&bits_m), inp));
    let guard = drv.ask(&format!("c01.guard {} {}", cfg.lt.name(), inp));
    let safe = if path == "fast" { drv.ask(&format!("c01.linesafe {} {} {}", csx, tsx, inp)) } else { "-".to_string() };
    for r in [&path, &guard, &safe] {
        if r.as_str() == "bad-op" || r.as_str() == "table-miss" {
            rep.violation(Violation {
                kind: "impl_vs_model".into(),
                class: "".into(),
                tie: "driver".into(),
                case: line.to_string(),
                detail: format!("driver answered {}", r),
            });
            return;
        }
    }
    rep.branch(&format!("path:{}", path));
    rep.branch(&format!("lt:{}", cfg.lt.name()));
    if cfg.inv {
        rep.branch("inverted");
    }
    if c.fixed {
        rep.branch("fixed-strings");
    }
    if c.ci {
        rep.branch("case-insensitive");
    }
    if c.pats.len() > 1 {
        rep.branch("multiple-patterns");
    }
    if guard == "0" {
        rep.branch("crlf-bare-lf-line-present");
    }
    if safe == "0" {
        rep.branch("linesafe-certificate-fails");
    } else if safe == "1" {
        rep.branch("linesafe-certificate-holds");
    }
    if bits_r != bits_m {
        rep.branch("matcher-verdict-differs-from-reference-regex");
    }
    let any_sel = bits_r.iter().any(|&b| b);
    let any_unsel = bits_r.iter().any(|&b| !b);
    let kinds = ["\\b", "\\B", "^", "$", "[", ".", "|", "*", "+", "?", "\\r", "\\s", "\\w"]
        .iter()
        .filter(|k| c.pats.iter().any(|p| p.contains(*k)))
        .count();
    if any_sel && any_unsel && kinds >= 2 {
        rep.nontrivial(line);
    }
    // C: impl vs model
    if imp != model {
        rep.violation(Violation {
            kind: "impl_vs_model".into(),
            class: "".into(),
            tie: "Sink event stream of Searcher::search_slice with a real RegexMatcher vs Lean model searchSlice (theorems C01_slow / C01_fast)".into(),
            case: line.to_string(),
            detail: format!("patterns {:?} input {:?}: impl {} model {}", c.pats, show(&c.input), imp, model),
        });
    }
    // F: impl vs the property
    //
    // Attribution to a known-finding class is decided LINE BY LINE: every line on which the searcher deviates
    // from the property must show the class's own mechanism; one deviating line without it makes the whole case
    // unclassified. The facts used, per line ℓ (offset `off`, bytes `l`, content `cont`):
    //   prop      the property's bit (reference regex on the content, flipped by -v)
    //   imp_bit   the searcher reported ℓ as matching
    //   alone     ripgrep's matcher on the sliced content (what the slow path asks)
    //   in_ctx    ripgrep's matcher in buffer context, from the start of ℓ (what the fast path asks), `mm` its match
    let matched_offs = |run: &str| -> std::collections::HashSet<usize> {
        let (evs, _) = split_run(run);
        evs.iter()
            .filter(|e| e.starts_with("m "))
            .filter_map(|e| e.split(' ').nth(2).and_then(|x| x.parse::<usize>().ok()))
            .collect()
    };
    let imp_offs = matched_offs(&imp);
    // the property's reported lines: the grep model over the reference's selection (with stop_on_nonmatch the lines
    // behind the stop are not reported although the reference selects them)
    let prop_offs = matched_offs(&spec_r);
    // the reference again as a regex-automata meta regex: it can be asked for a match inside a byte span of the
    // content with the look-arounds still seeing the bytes around the span (needed for the F18 mechanism)
    let meta = regex_automata::meta::Regex::builder()
        .syntax(regex_automata::util::syntax::Config::new().multi_line(true).unicode(true).utf8(false).crlf(c.cfg.lt == Lt::Crlf))
        .configure(regex_automata::meta::Regex::config().utf8_empty(false))
        .build(re.as_str())
        .ok();
    let mut crosses_terminator = false;
    let mut ctx_dependent = false;
    let mut line_classes: Vec<&'static str> = vec![]; // one entry per deviating line ("" = no mechanism found)
    let mut dev_notes: Vec<String> = vec![];
    {
        let mut off = 0usize;
        for l in lines.iter() {
            let cont = content(l, cfg.lt);
            let terminated = l.last() == Some(&cfg.lt.byte());
            let line_last = off + l.len() - if terminated { 1 } else { 0 };
            let mm = m.find_at(&c.input, off).ok().flatten();
            // a match found in buffer context that CONTAINS a terminator byte (`\n` / NUL, or the `\r` of `\r\n`):
            // the matcher must never do that (strip.rs); no known finding is about such a match
            if let Some(mm) = &mm {
                if c.input[mm.start()..mm.end()].contains(&cfg.lt.byte()) {
                    crosses_terminator = true;
                }
                if cfg.lt == Lt::Crlf {
                    for k in mm.start()..mm.end() {
                        if c.input[k] == b'\r' && c.input.get(k + 1) == Some(&b'\n') {
                            crosses_terminator = true;
                        }
                    }
                }
            }
            let in_ctx = mm.as_ref().map_or(false, |mm| mm.start() <= line_last);
            let alone = m.is_match(cont).unwrap_or(false);
            if in_ctx != alone {
                ctx_dependent = true;
            }
            let prop = prop_offs.contains(&off);
            let imp_bit = imp_offs.contains(&off);
            if imp_bit != prop {
                let ref_full = re.is_match(cont);
                // --- F18 `crlf-cr-unmatchable` (matcher level, any path). Mechanism: under --crlf the content holds a
                // CR that is not part of the terminator; ripgrep's matcher on the sliced content disagrees with the
                // reference; and it says exactly what the reference says when no match may CONTAIN a CR byte (a
                // match inside one of the CR-free stretches of the content, look-arounds still seeing the CRs) —
                // i.e. the pattern matches this line only through the CR; the searcher follows the matcher.
                let f18 = cfg.lt == Lt::Crlf && cont.contains(&b'\r') && alone != ref_full && imp_bit == (alone != cfg.inv) && {
                    let mut cr_free = false;
                    if let Some(meta) = &meta {
                        let mut a = 0usize;
                        for k in 0..=cont.len() {
                            if k == cont.len() || cont[k] == b'\r' {
                                if meta.search(&regex_automata::Input::new(cont).span(a..k)).is_some() {
                                    cr_free = true;
                                }
                                a = k + 1;
                            }
                        }
                    }
                    meta.is_some() && cr_free == alone
                };
                // The former classes F1 (`fastpath-matcher-not-linesafe-crlf`: empty match between `\r` and `\n`) and F2 / F24
                // (`fastpath-matcher-not-linesafe`: CRLF-aware anchor under an LF terminator; Unicode word look at a line that
                // starts with continuation bytes) were repaired in /repo 4165f41 (the fast searcher confirms such matches on the
                // line; CRLF-aware anchors without crlf take the slow searcher): a deviation of that kind is unclassified now.
                let cl = if crosses_terminator {
                    ""
                } else if f18 {
                    "crlf-cr-unmatchable"
                } else {
                    ""
                };
                line_classes.push(cl);
                dev_notes.push(format!(
                    "line@{} class={:?} in_ctx={} alone={} ref={} imp={} mm={:?}",
                    off,
                    cl,
                    in_ctx,
                    alone,
                    ref_full,
                    imp_bit,
                    mm.as_ref().map(|x| (x.start(), x.end()))
                ));
            }
            off += l.len();
        }
    }
    if ctx_dependent {
        rep.branch("matcher-verdict-depends-on-buffer-context");
    }
    if crosses_terminator {
        rep.branch("matcher-match-contains-terminator");
    }
    // the coarse predicates the classes used to be decided by (kept as counters only)
    let cr_in_content = lines.iter().any(|l| content(l, cfg.lt).contains(&b'\r'));
    let coarse = if cfg.lt == Lt::Crlf && cr_in_content && bits_m != bits_r { "crlf-cr-unmatchable" } else { "" };
    // with stop_on_nonmatch a first deviation moves the point where the search stops, so every later difference is its
    // consequence: only the FIRST deviating line has to show the mechanism then
    if cfg.son && line_classes.len() > 1 {
        line_classes.truncate(1);
    }
    let class: &str = if !line_classes.is_empty() && !crosses_terminator && line_classes.iter().all(|c| !c.is_empty()) {
        line_classes[0]
    } else {
        ""
    };
    if reported(&imp) != reported(&spec_r) {
        if !class.is_empty() {
            for cl in &line_classes {
                rep.branch(&format!("class:{}:attributed", cl));
            }
        } else if !coarse.is_empty() {
            rep.branch(&format!("class:{}:coarse-predicate-only-reported-unclassified", coarse));
        }
    }
    if reported(&imp) != reported(&spec_r) {
        rep.violation(Violation {
            kind: "impl_vs_spec".into(),
            class: class.into(),
            tie: "lines reported as matching vs the reference regex on each line's content".into(),
            case: line.to_string(),
            detail: format!(
                "patterns {:?} input {:?} ({} path): reported {:?}, property says {:?}; deviating lines: {}{}",
                c.pats,
                show(&c.input),
                path,
                reported(&imp),
                reported(&spec_r),
                dev_notes.join(" / "),
                if crosses_terminator { " [a match in buffer context contains a terminator byte]" } else { "" }
            ),
        });
    }
    // T: model vs the matcher-relative spec, under the theorems' guards
    let guarded = path == "slow" || (path == "fast" && safe == "1");
    if guarded && !is_driver_error(&model) && reported(&model) != reported(&spec_m) {
        rep.violation(Violation {
            kind: "model_vs_spec".into(),
            class: "".into(),
            tie: "theorem C01_content_slow / C01_content_fast contradicted".into(),
            case: line.to_string(),
            detail: format!("model {} spec {}", model, spec_m),
        });
    }
}

fn main() {
    let args = parse_args();
    let mut drv = Driver::spawn(&args.driver);
    let mut rep = Report::new(
        "C01",
        "Searcher-level cases: a real RegexMatcher built as hiargs.rs builds it (multi_line, line terminator LF / CRLF / NUL, \
         -i, -F, several -e) over generated patterns with anchors, word boundaries, \\r, classes, empty alternatives; inputs with \
         lone CR, bare LF under CRLF, NUL, invalid UTF-8, empty lines, missing final terminator; inversion; passthru (forces the slow \
         path). Non-trivial = the pattern uses >= 2 kinds of operators and the input has both selected and unselected lines. \
         Two further streams: -w (word(true)) over patterns LIT (gap LIT) LIT \
         with matching lines, so that ripgrep's own inner-literal extraction is exercised, and -S (case_smart(true)) over patterns whose \
         uppercase letters sit only under repetitions / groups / classes / escapes, with case variants as input; the reference decides \
         smart case from the documented rule on the pattern text and wraps -w in the Unicode half-word assertions. Three more streams: \
         counted repetitions / classes / long literals / alternations around and above every limit of ripgrep's inner-literal extractor \
         (limit_repeat 10, limit_class 10, limit_literal_len 100, limit_total 64) under -w, a leading \\b or a class-prefixed alternative, \
         with matching and near-miss lines; -S with literal-free patterns (Unicode / POSIX case classes); terminator-capable classes and \
         literal terminators inside capturing groups with the two halves of a would-be match on consecutive lines. A match that contains \
         a terminator byte is never attributed to a known finding. A probe stream lifts the restrictions of the others at once: haystack \
         anchors, half-word / start / end word assertions, (?s:.), (?-u:...), case-insensitive non-ASCII letters, empty alternation branches; \
         -i -S -w -x -F (also with \\n / \\r in the literal) in every combination with LF / CRLF / NUL; context sizes, line numbers off, \
         stop_on_nonmatch; invalid UTF-8 next to matches, lone CR, NUL, a long line.",
    );
    for c in corpus_cases(&args) {
        run_case(&c, &mut drv, &mut rep);
    }
    if args.replay.is_none() {
        let mut rng = Rng::new(args.seed);
        let n = args.cases.unwrap_or(if args.thorough { 100000 } else { 6000 });
        for i in 0..n {
            let c = match i % 12 {
                3 => gen_word_case(&mut rng),
                6 => gen_smart_case(&mut rng),
                1 | 9 => gen_limit_case(&mut rng),
                4 => gen_smart_nolit_case(&mut rng),
                7 | 10 => gen_capture_case(&mut rng),
                2 | 5 => gen_probe_case(&mut rng),
                _ => gen_case(&mut rng),
            }
            .line();
            if i < 12 {
                rep.sample(c.clone());
            }
            run_case(&c, &mut drv, &mut rep);
        }
    }
    rep.write(&args);
}
