//! C04 — ignore files mean what git says.
//!
//! Per case: a generated directory tree (names with dots, dashes, upper case, names that look like globs)
//! with `.gitignore` files at 0–3 levels, materialised under `args.scratch`.
//!   C1  impl_vs_model  `ignore::WalkBuilder` (which entries are visited) and
//!                      `Gitignore::{matched, matched_path_or_any_parents}` vs the Lean model
//!   F   impl_vs_spec   the walker vs the real `git check-ignore --no-index` on the same tree
//!   C2  model_vs_spec  `Spec.GitSpec.gitIgnored` vs the real git (validates S), and M vs S under the
//!                      theorem's guard
use ignore::gitignore::GitignoreBuilder;
use ignore::{Match, WalkBuilder};
use rgverif_harness::*;
use std::collections::{BTreeMap, BTreeSet};
use std::io::Write;
use std::path::{Path, PathBuf};
use std::process::{Command, Stdio};

const TIE_WALK: &str = "ignore::WalkBuilder (dir.rs matched_ignore + walk.rs pruning) vs Model.Gitignore.rgSkipped (theorem C04)";
const TIE_API: &str = "Gitignore::{matched, matched_path_or_any_parents} vs Model.Gitignore.{matched, matchedPathOrAnyParents}";
const TIE_LINE: &str = "GitignoreBuilder::add_line vs Model.Gitignore.addLine";
const TIE_GIT: &str = "ignore::WalkBuilder vs real git check-ignore (property: the files skipped are the files git ignores)";
const TIE_SPEC: &str = "Spec.GitSpec.gitIgnored vs real git check-ignore (C2: validates the spec)";

#[derive(Clone, Debug)]
struct Case {
    ci: bool,
    /// relative path ('/'-joined) -> is_dir ; parents always present
    entries: BTreeMap<Vec<u8>, bool>,
    /// directory (relative, "" = root) -> content of its .gitignore
    ignores: BTreeMap<Vec<u8>, Vec<u8>>,
    /// entries (non-directories in `entries`) that are symbolic links: path -> target (never followed)
    links: BTreeMap<Vec<u8>, Vec<u8>>,
}

impl Case {
    fn line(&self) -> String {
        let e: Vec<String> = self
            .entries
            .iter()
            .map(|(p, d)| match self.links.get(p) {
                Some(t) => format!("{}:l{}", hex(p), hex(t)),
                None => format!("{}:{}", hex(p), if *d { "d" } else { "f" }),
            })
            .collect();
        let i: Vec<String> = self.ignores.iter().map(|(d, c)| format!("{}:{}", hex(d), hex(c))).collect();
        format!("tree ci={} E={} I={}", self.ci as u8, e.join(","), if i.is_empty() { "-".to_string() } else { i.join(",") })
    }
    fn parse(s: &str) -> Option<Case> {
        let parts: Vec<&str> = s.split_whitespace().collect();
        if parts.len() != 4 || parts[0] != "tree" {
            return None;
        }
        let ci = parts[1] == "ci=1";
        let mut entries = BTreeMap::new();
        let mut links = BTreeMap::new();
        for e in parts[2].strip_prefix("E=")?.split(',').filter(|x| !x.is_empty()) {
            let (p, k) = e.split_once(':')?;
            let path = unhex(p)?;
            if let Some(t) = k.strip_prefix('l') {
                links.insert(path.clone(), unhex(t)?);
            }
            entries.insert(path, k == "d");
        }
        let mut ignores = BTreeMap::new();
        let i = parts[3].strip_prefix("I=")?;
        if i != "-" {
            for e in i.split(',').filter(|x| !x.is_empty()) {
                let (d, c) = e.split_once(':')?;
                ignores.insert(unhex(d)?, unhex(c)?);
            }
        }
        Some(Case { ci, entries, ignores, links })
    }
}

// ---------------------------------------------------------------- generators

const NAMES: &[&str] = &[
    "a", "b", "A", "ab", "a.", "a.b", ".a", "-", "a-b", "b.a", "a..", "..a", "B.a", "a*", "*", "[", "[a]", "a[", "-a", "aA",
    // leading / inner blanks and tabs (git keeps them: only trailing spaces are trimmed)
    " a", "a b", "\ta", " lead", "a\tb", "a\t",
    // non-ASCII names (patterns are byte strings for git; `?` and classes work on bytes on both sides)
    "é", "aé.b", "日",
];

fn gen_tree(rng: &mut Rng, c: &mut Case, dir: &[u8], depth: usize) {
    let n = if depth == 0 { rng.range(2, 5) } else { rng.range(1, 4) };
    if rng.chance(1, 25) {
        // a name that is not UTF-8 (Latin-1 "aé")
        let mut p = dir.to_vec();
        if !p.is_empty() {
            p.push(b'/');
        }
        p.extend(b"a\xe9");
        c.entries.insert(p, false);
    }
    let mut used: BTreeSet<&str> = BTreeSet::new();
    for _ in 0..n {
        let name = *rng.pick(NAMES);
        if !used.insert(name) {
            continue;
        }
        let mut p = dir.to_vec();
        if !p.is_empty() {
            p.push(b'/');
        }
        p.extend(name.as_bytes());
        if rng.chance(1, 12) {
            // a symbolic link (to a sibling directory, a sibling file, or nowhere); never followed
            let target: &[u8] = [&b"a"[..], b"b", b"ab", b"nowhere", b"."][rng.below(5)];
            c.entries.insert(p.clone(), false);
            c.links.insert(p.clone(), target.to_vec());
            continue;
        }
        let is_dir = depth < 3 && rng.chance(2, 5);
        c.entries.insert(p.clone(), is_dir);
        if is_dir {
            gen_tree(rng, c, &p, depth + 1);
        }
    }
}

fn esc_name(rng: &mut Rng, name: &str) -> String {
    // escape glob characters of a real name most of the time (so the line means the name literally)
    // (all or nothing: a half-escaped `[a\]` puts a backslash inside a class, which is left open)
    let esc = rng.chance(3, 4);
    let mut s = String::new();
    for ch in name.chars() {
        if (ch == '*' || ch == '[' || ch == ']') && esc {
            s.push('\\');
        }
        s.push(ch);
    }
    s
}

/// turn a name into a pattern for it
fn wild_name(rng: &mut Rng, name: &str, odd: bool) -> String {
    let cs: Vec<char> = name.chars().collect();
    match rng.below(if odd { 11 } else { 8 }) {
        0 | 1 => esc_name(rng, name),
        2 => "*".into(),
        3 if !cs.is_empty() => {
            let i = rng.below(cs.len());
            let mut s: String = cs[..i].iter().collect();
            s.push('*');
            if rng.chance(1, 2) {
                s.extend(cs[(i + 1).min(cs.len())..].iter());
            }
            s
        }
        4 if !cs.is_empty() => {
            let i = rng.below(cs.len());
            let mut s: String = cs[..i].iter().collect();
            s.push('?');
            s.extend(cs[i + 1..].iter());
            s
        }
        5 if !cs.is_empty() && cs.iter().all(|c| c.is_ascii_lowercase() || c.is_ascii_digit() || *c == '.' || *c == '-') => {
            let i = rng.below(cs.len());
            let mut s: String = cs[..i].iter().collect();
            let c = cs[i];
            s.push_str(&match rng.below(4) {
                0 => format!("[{}]", c),
                1 => format!("[{}x]", c),
                2 if c.is_ascii_lowercase() => "[a-c]".to_string(),
                _ => format!("[x{}]", c),
            });
            s.extend(cs[i + 1..].iter());
            s
        }
        6 => format!("*{}", cs.last().map(|c| c.to_string()).unwrap_or_default()),
        7 => esc_name(rng, name),
        // odd: constructs where rg is known / suspected to differ or that the documentation leaves open
        8 if !cs.is_empty() => {
            let i = rng.below(cs.len());
            let mut s: String = cs[..i].iter().collect();
            s.push_str(["[!x]", "[^x]", "[!a]", "[--A]"][rng.below(4)]);
            s.extend(cs[i + 1..].iter());
            s
        }
        9 => format!("{}**", esc_name(rng, name)),
        _ => name.to_string(),
    }
}

fn gen_line(rng: &mut Rng, c: &Case, dir: &[u8], odd: bool) -> String {
    // entries below this directory, relative to it
    let below: Vec<(Vec<u8>, bool)> = c
        .entries
        .iter()
        .filter_map(|(p, d)| {
            if dir.is_empty() {
                Some((p.clone(), *d))
            } else if p.len() > dir.len() + 1 && p.starts_with(dir) && p[dir.len()] == b'/' {
                Some((p[dir.len() + 1..].to_vec(), *d))
            } else {
                None
            }
        })
        .collect();
    match rng.below(24) {
        0 => return "# comment".into(),
        1 => return ["", "  ", "#", "\\#a", "\\!a", "!", "/", "*", "**", "**/", "/*", "*/", "/**", "!*", "!*/", "!/", "! ", "\\/"][rng.below(if odd { 18 } else { 17 })].into(),
        2 if rng.chance(1, 3) => return ["[é]", "?", "??", "a?.b", "[a-é]*", "é*", "*é"][rng.below(7)].into(),
        _ => {}
    }
    let (rel, is_dir) = if below.is_empty() || rng.chance(1, 8) {
        (rng.pick(NAMES).as_bytes().to_vec(), rng.chance(1, 3))
    } else {
        rng.pick(&below).clone()
    };
    let rel = String::from_utf8_lossy(&rel).to_string();
    let comps: Vec<&str> = rel.split('/').collect();
    let name = comps[comps.len() - 1];
    let mut pat = match rng.below(if odd && comps.len() >= 2 { 14 } else { 12 }) {
        // odd: a bracket expression standing where the path has its separator
        12 | 13 => {
            let k = rng.range(1, comps.len() - 1);
            format!(
                "{}{}{}",
                comps[..k].iter().map(|c| esc_name(rng, c)).collect::<Vec<_>>().join("/"),
                ["[!x]", "[^a]", "[--A]", "[.-a]"][rng.below(4)],
                comps[k..].iter().map(|c| esc_name(rng, c)).collect::<Vec<_>>().join("/")
            )
        }
        0 | 1 | 2 => wild_name(rng, name, odd),
        3 => format!("/{}", wild_name(rng, comps[0], odd)),
        4 => comps.iter().map(|c| wild_name(rng, c, odd)).collect::<Vec<_>>().join("/"),
        5 => format!("**/{}", wild_name(rng, name, odd)),
        6 => format!("{}/**", esc_name(rng, comps[0])),
        7 if comps.len() >= 2 => format!("{}/**/{}", esc_name(rng, comps[0]), wild_name(rng, name, odd)),
        8 => format!("*/{}", wild_name(rng, name, odd)),
        9 if comps.len() >= 2 => format!("{}/*", comps[..comps.len() - 1].iter().map(|c| esc_name(rng, c)).collect::<Vec<_>>().join("/")),
        10 => format!("/{}", comps.iter().map(|c| esc_name(rng, c)).collect::<Vec<_>>().join("/")),
        // a slash-free pattern that BEGINS with `**` and goes on (`**che`, `**.bak`, `**name`): for git an ordinary
        // basename pattern that applies at every depth (`**` = `*` there); add_line must still give it the implicit
        // `**/` prefix -- only the bare `**` and `**/x` are exempt (has_doublestar_prefix; seeded change C04-1-1)
        11 if rng.chance(1, 2) => {
            let cs: Vec<char> = name.chars().collect();
            let k = if cs.is_empty() { 0 } else { rng.below(cs.len()) };
            format!("**{}", esc_name(rng, &cs[k..].iter().collect::<String>()))
        }
        _ => esc_name(rng, name),
    };
    if (is_dir && rng.chance(1, 2)) || rng.chance(1, 10) {
        pat.push('/');
    }
    if rng.chance(1, 4) {
        pat.insert(0, '!');
    }
    if rng.chance(1, 10) {
        pat.push_str(["  ", " ", "\\ "][rng.below(3)]);
    }
    // a trailing tab belongs to the pattern (F34, repaired by 5031338: only trailing spaces are insignificant)
    if rng.chance(1, 14) {
        pat.push_str(["\t", "\t ", " \t"][rng.below(3)]);
    }
    // indentation: for git the blanks / tabs belong to the pattern (an indented `!x` is not a negation,
    // an indented `#x` not a comment)
    if rng.chance(1, 12) {
        pat.insert_str(0, [" ", "  ", "\t", " \t"][rng.below(4)]);
    }
    pat
}

/// Files whose rules fall into the same `GlobSet` strategy class (suffix `**/x/y`, literal `/x/y`, basename
/// literal `x`, extension `*.e`, required extension `**/x*.e`, prefix-like `x/y/**`) with literals of DIFFERENT
/// lengths in either order, and a tree in which the named paths occur at the top and nested below other
/// directories.
fn gen_family_case(rng: &mut Rng) -> Case {
    const PLAIN: &[&str] = &["a", "b", "ab", "abc", "a.b", "b.a", "x.log", "build", "gen", "tmp", "aA", "a-b"];
    let mut c = Case { ci: rng.chance(1, 8), entries: BTreeMap::new(), ignores: BTreeMap::new(), links: BTreeMap::new() };
    let nt = rng.range(2, 4);
    let mut targets: Vec<Vec<&str>> = vec![];
    for _ in 0..nt {
        let k = rng.range(1, 3);
        targets.push((0..k).map(|_| *rng.pick(PLAIN)).collect());
    }
    fn add_path(c: &mut Case, comps: &[&str], last_is_dir: bool) {
        let mut p: Vec<u8> = vec![];
        for (i, comp) in comps.iter().enumerate() {
            if !p.is_empty() {
                p.push(b'/');
            }
            p.extend(comp.as_bytes());
            let is_dir = i + 1 < comps.len() || last_is_dir;
            // never turn an existing directory into a file or vice versa
            if let Some(&d) = c.entries.get(&p) {
                if d != is_dir {
                    return;
                }
            } else {
                c.entries.insert(p.clone(), is_dir);
            }
        }
    }
    let hosts: Vec<&str> = (0..2).map(|_| *rng.pick(&["sub", "s", "a", "build", "x"][..])).collect();
    for t in &targets {
        let as_dir = rng.chance(1, 2);
        for prefix in [vec![], vec![hosts[0]], vec![hosts[0], hosts[1]], vec![hosts[1]]] {
            if !prefix.is_empty() && rng.chance(1, 4) {
                continue;
            }
            let mut comps: Vec<&str> = prefix.clone();
            comps.extend(t.iter());
            add_path(&mut c, &comps, as_dir);
            if as_dir {
                let mut inner = comps.clone();
                inner.push(*rng.pick(PLAIN));
                add_path(&mut c, &inner, false);
            }
        }
    }
    for _ in 0..rng.range(1, 3) {
        add_path(&mut c, &[*rng.pick(PLAIN)], false);
    }
    let family = rng.below(6);
    let mut lines: Vec<String> = vec![];
    for t in &targets {
        let joined = t.join("/");
        let name = t[t.len() - 1];
        let mut l = match family {
            0 => format!("**/{}", joined),
            1 => format!("/{}", joined),
            2 => name.to_string(),
            3 => format!("*.{}", name.rsplit('.').next().unwrap_or(name)),
            4 => format!("**/{}*.{}", &name[..1], name.rsplit('.').next().unwrap_or(name)),
            _ => format!("{}/**", joined),
        };
        if rng.chance(1, 6) {
            l.insert(0, '!');
        }
        if rng.chance(1, 6) {
            l.push('/');
        }
        lines.push(l);
    }
    // a rule of another family in between now and then
    if rng.chance(1, 3) {
        let t = rng.pick(&targets).clone();
        lines.insert(rng.below(lines.len() + 1), format!("**/{}", t.join("/")));
    }
    // both orders of literal length
    match rng.below(3) {
        0 => lines.sort_by_key(|l| l.len()),
        1 => lines.sort_by_key(|l| std::cmp::Reverse(l.len())),
        _ => {}
    }
    let dir: Vec<u8> = if rng.chance(1, 4) && c.entries.get(hosts[0].as_bytes()) == Some(&true) { hosts[0].as_bytes().to_vec() } else { vec![] };
    let mut content = lines.join("\n").into_bytes();
    content.push(b'\n');
    c.ignores.insert(dir.clone(), content);
    let mut p = dir;
    if !p.is_empty() {
        p.push(b'/');
    }
    p.extend(b".gitignore");
    c.entries.insert(p, false);
    c
}

fn gen_case(rng: &mut Rng) -> Case {
    let mut c = Case { ci: rng.chance(1, 5), entries: BTreeMap::new(), ignores: BTreeMap::new(), links: BTreeMap::new() };
    gen_tree(rng, &mut c, b"", 0);
    let odd = rng.chance(1, 6);
    let mut dirs: Vec<Vec<u8>> = vec![vec![]];
    dirs.extend(c.entries.iter().filter(|(_, d)| **d).map(|(p, _)| p.clone()));
    for d in dirs {
        let p = if d.is_empty() { 9 } else { 4 };
        if rng.chance(p, 10) {
            let n = rng.range(1, 4);
            let lines: Vec<String> = (0..n).map(|_| gen_line(rng, &c, &d, odd)).collect();
            let mut content = lines.join("\n").into_bytes();
            if rng.chance(4, 5) {
                content.push(b'\n');
            }
            // how the FILE is written: CRLF line ends, a CR at the end of a file without final LF, a byte order
            // mark, a line that is not UTF-8, a very long line
            if rng.chance(1, 14) {
                content = String::from_utf8_lossy(&content).replace('\n', "\r\n").into_bytes();
            }
            if rng.chance(1, 16) {
                while content.last() == Some(&b'\n') || content.last() == Some(&b'\r') {
                    content.pop();
                }
                content.push(b'\r');
            }
            if rng.chance(1, 14) {
                let mut c2 = vec![0xef, 0xbb, 0xbf];
                c2.extend(&content);
                content = c2;
            }
            if rng.chance(1, 20) {
                let bad: &[u8] = [&b"a\xe9\n"[..], b"\xff\xfe\n", b"*\xe9\n"][rng.below(3)];
                let pos = if rng.chance(1, 2) { 0 } else { content.iter().position(|b| *b == b'\n').map(|i| i + 1).unwrap_or(content.len()) };
                if pos == content.len() && !content.is_empty() && content.last() != Some(&b'\n') {
                    content.push(b'\n');
                }
                let pos = pos.min(content.len());
                let mut c2 = content[..pos].to_vec();
                c2.extend(bad);
                c2.extend(&content[pos..]);
                content = c2;
            }
            if rng.chance(1, 60) {
                // (moderate lengths: the Lean guards and matchers are quadratic in the line length)
                let long = if rng.chance(1, 2) { "x".repeat(600) } else { format!("{}a", "*/".repeat(40)) };
                let mut c2 = format!("{}\n", long).into_bytes();
                c2.extend(&content);
                content = c2;
            }
            c.ignores.insert(d, content);
        }
    }
    // the ignore files are entries of the tree as well
    let ig: Vec<Vec<u8>> = c.ignores.keys().cloned().collect();
    for d in ig {
        let mut p = d.clone();
        if !p.is_empty() {
            p.push(b'/');
        }
        p.extend(b".gitignore");
        c.entries.insert(p, false);
    }
    c
}

// ---------------------------------------------------------------- running one case

struct Env {
    scratch: PathBuf,
    git_dir: PathBuf,
    counter: u64,
}

fn os(p: &[u8]) -> &std::ffi::OsStr {
    use std::os::unix::ffi::OsStrExt;
    std::ffi::OsStr::from_bytes(p)
}

fn materialise(env: &mut Env, c: &Case) -> PathBuf {
    env.counter += 1;
    let root = env.scratch.join(format!("t{}", env.counter));
    std::fs::create_dir_all(&root).unwrap();
    for (p, d) in &c.entries {
        let full = root.join(os(p));
        if *d {
            std::fs::create_dir_all(&full).unwrap();
        } else {
            if let Some(parent) = full.parent() {
                std::fs::create_dir_all(parent).unwrap();
            }
            if let Some(t) = c.links.get(p) {
                std::os::unix::fs::symlink(os(t), &full).unwrap();
            } else if !p.ends_with(b".gitignore") {
                std::fs::write(&full, b"x\n").unwrap();
            }
        }
    }
    for (d, content) in &c.ignores {
        let full = root.join(os(d)).join(".gitignore");
        std::fs::write(&full, content).unwrap();
    }
    root
}

fn git_ignored(env: &Env, root: &Path, c: &Case) -> Result<BTreeSet<Vec<u8>>, String> {
    let mut child = Command::new("git")
        .arg("-c")
        .arg(format!("core.ignorecase={}", c.ci))
        .args(["check-ignore", "--no-index", "-z", "--stdin"])
        .current_dir(root)
        .env("GIT_DIR", &env.git_dir)
        .env("GIT_WORK_TREE", root)
        .env("GIT_CONFIG_NOSYSTEM", "1")
        .env("GIT_CONFIG_GLOBAL", "/dev/null")
        .env("HOME", env.scratch.join("home"))
        .env("XDG_CONFIG_HOME", env.scratch.join("xdg"))
        .stdin(Stdio::piped())
        .stdout(Stdio::piped())
        .stderr(Stdio::piped())
        .spawn()
        .map_err(|e| e.to_string())?;
    {
        let mut stdin = child.stdin.take().unwrap();
        for p in c.entries.keys() {
            stdin.write_all(p).unwrap();
            stdin.write_all(&[0]).unwrap();
        }
    }
    let out = child.wait_with_output().map_err(|e| e.to_string())?;
    if !(out.status.success() || out.status.code() == Some(1)) {
        return Err(format!("git check-ignore failed: {}", String::from_utf8_lossy(&out.stderr)));
    }
    Ok(out.stdout.split(|b| *b == 0).filter(|p| !p.is_empty()).map(|p| p.to_vec()).collect())
}

fn walk_visited(root: &Path, c: &Case) -> BTreeSet<Vec<u8>> {
    use std::os::unix::ffi::OsStrExt;
    let mut wb = WalkBuilder::new(root);
    wb.hidden(false)
        .parents(false)
        .ignore(false)
        .git_global(false)
        .git_exclude(false)
        .git_ignore(true)
        .require_git(false)
        .ignore_case_insensitive(c.ci)
        .threads(1);
    let mut seen = BTreeSet::new();
    for e in wb.build() {
        if let Ok(e) = e {
            if let Ok(rel) = e.path().strip_prefix(root) {
                let b = rel.as_os_str().as_bytes().to_vec();
                if !b.is_empty() {
                    seen.insert(b);
                }
            }
        }
    }
    seen
}

fn cps(line: &str) -> String {
    let v: Vec<String> = line.chars().map(|c| (c as u32).to_string()).collect();
    format!("(l {})", v.join(" ")).replace(" )", ")")
}

/// the lines `GitignoreBuilder::add` hands to `add_line`: `BufRead::lines()`; a chunk that is not UTF-8 is skipped
/// (234ccee; it still counts as a line), one trailing LF then one trailing CR go (3df4263, also on a last line without
/// LF), one U+FEFF is dropped from the first line (e983cb6)
fn content_lines(content: &[u8]) -> Vec<String> {
    let mut out = vec![];
    for (i, chunk) in content.split_inclusive(|b| *b == b'\n').enumerate() {
        match std::str::from_utf8(chunk) {
            Err(_) => continue,
            Ok(s) => {
                let s = s.strip_suffix('\n').unwrap_or(s);
                let s = s.strip_suffix('\r').unwrap_or(s);
                let s = if i == 0 { s.strip_prefix('\u{feff}').unwrap_or(s) } else { s };
                out.push(s.to_string());
            }
        }
    }
    out
}

/// the class predicates of the known findings, computed on the lines of the case
fn line_has_class_admitting_slash(line: &str) -> bool {
    let b = line.as_bytes();
    let mut i = 0;
    while i < b.len() {
        match b[i] {
            b'\\' => i += 2,
            b'[' => {
                let mut j = i + 1;
                let neg = j < b.len() && (b[j] == b'!' || b[j] == b'^');
                if neg {
                    j += 1;
                }
                let first = j;
                let mut admits = neg;
                while j < b.len() && (b[j] != b']' || j == first) {
                    if b[j] == b'/' {
                        admits = true;
                    }
                    if b[j] == b'-' && j > first && j + 1 < b.len() && b[j + 1] != b']' && b[j - 1] <= b'/' && b'/' <= b[j + 1] {
                        admits = true;
                    }
                    j += 1;
                }
                if j < b.len() && admits {
                    return true;
                }
                i = j + 1;
            }
            _ => i += 1,
        }
    }
    false
}

/// git's `match_pathname` compares the literal prefix (`nowildcardlen`) on its own and runs wildmatch on the
/// rest, so a `**` directly after a literal prefix that does not end in `/` counts as "at the start of the
/// pattern" and spans directories (`/b**`, `a/b**`, `/b**/c`); ripgrep and gitignore(5) read it as `*`.
/// Only patterns with a `/` (match_pathname) are concerned.
fn line_has_prefix_then_dstar(line: &str) -> bool {
    let mut b: &[u8] = line.as_bytes();
    if b.first() == Some(&b'#') {
        return false;
    }
    // trailing unescaped blanks
    while b.last() == Some(&b' ') && !(b.len() >= 2 && b[b.len() - 2] == b'\\') {
        b = &b[..b.len() - 1];
    }
    if b.first() == Some(&b'!') {
        b = &b[1..];
    }
    if b.last() == Some(&b'/') {
        b = &b[..b.len() - 1];
    }
    if !b.contains(&b'/') {
        return false;
    }
    if b.first() == Some(&b'/') {
        b = &b[1..];
    }
    let k = b.iter().position(|c| matches!(c, b'*' | b'?' | b'[' | b'\\')).unwrap_or(b.len());
    if k == 0 || b[k - 1] == b'/' || !b[k..].starts_with(b"**") {
        return false;
    }
    let mut j = k;
    while j < b.len() && b[j] == b'*' {
        j += 1;
    }
    j == b.len() || b[j] == b'/' || (b[j] == b'\\' && j + 1 < b.len() && b[j + 1] == b'/')
}

/// globset has no escapes inside a bracket class (`[\\]]` is the class of the backslash followed by a literal `]`),
/// git's wildmatch reads `\\x` inside brackets as the character x: a line with a backslash between an unescaped
/// `[` and the `]` that closes it for ripgrep
fn line_has_backslash_in_class(line: &str) -> bool {
    let b = line.as_bytes();
    let mut i = 0;
    while i < b.len() {
        match b[i] {
            b'\\' => i += 2,
            b'[' => {
                let mut j = i + 1;
                if j < b.len() && (b[j] == b'!' || b[j] == b'^') {
                    j += 1;
                }
                let first = j;
                let mut bs = false;
                while j < b.len() && (b[j] != b']' || j == first) {
                    if b[j] == b'\\' {
                        bs = true;
                    }
                    j += 1;
                }
                if j < b.len() && bs {
                    return true;
                }
                i = j + 1;
            }
            _ => i += 1,
        }
    }
    false
}

/// ripgrep rejects a line whose glob has a reversed class range (`[bz-a]`: "invalid range") and drops it with an
/// error message; git never rejects a pattern, a reversed range is simply empty
fn line_is_rejected_for_invalid_range(line: &str) -> bool {
    let mut b = GitignoreBuilder::new("");
    match b.add_line(None, line) {
        Err(e) => e.to_string().contains("invalid range"),
        Ok(_) => false,
    }
}

/// Attribution of ONE disagreeing path to a known-finding class.  A class is attributed only when its own
/// mechanism is demonstrably at work for this very path:
///   (a) the caller has checked that the model (which mirrors the recorded behaviour) predicts ripgrep's answer
///       and that the spec predicts git's — a deviation the model does not predict is never excused;
///   (b) an ignore file in a directory above the path has a line with the class's syntactic feature, and for that
///       very line ripgrep's reading and git's reading (the two sides of `LineAgree`, driver op `c04.hit`) differ on
///       this path or on one of the directories leading to it (an ignored / re-included directory decides for
///       everything below it).  `bracket-class-admits-slash`: additionally the relative path on which they differ
///       contains a '/' — the byte the class has to consume; `literal-prefix-then-double-star`: the line has `**`
///       directly after a literal prefix that does not end in '/'; `backslash-inside-class`: the line has a
///       backslash inside a bracket expression; `reversed-range-line-rejected`: the real `add_line` rejects the line
///       with "invalid range".
fn mechanism_at_work(c: &Case, p: &[u8], is_dir: bool, feature: fn(&str) -> bool, need_slash: bool, drv: &mut Driver) -> bool {
    for (d, content) in &c.ignores {
        let below: &[u8] = if d.is_empty() {
            p
        } else if p.len() > d.len() + 1 && p.starts_with(d) && p[d.len()] == b'/' {
            &p[d.len() + 1..]
        } else {
            continue;
        };
        let comps: Vec<&[u8]> = below.split(|b| *b == b'/').collect();
        for l in content_lines(content) {
            if !feature(&l) {
                continue;
            }
            for k in 1..=comps.len() {
                if need_slash && k < 2 {
                    continue;
                }
                let q_is_dir = k < comps.len() || is_dir;
                let rel: Vec<String> = comps[..k].iter().map(|x| hex(x)).collect();
                let m = drv.ask(&format!("c04.hit {} {} ({} {})", c.ci as u8, cps(&l), q_is_dir as u8, rel.join(" ")));
                let b = m.as_bytes();
                if b.len() == 2 && b[0] != b[1] {
                    return true;
                }
            }
        }
    }
    false
}

/// Reading-level classes: ripgrep's reader (`GitignoreBuilder::add`: `BufRead::lines`, no BOM handling, stops at a
/// line that is not UTF-8) and git's reader (`add_patterns_from_buffer`: skips a BOM, supplies the final LF, strips a CR
/// before LF, never decodes) produce different lines from the same file.  Mechanism test = counterfactual repair: an
/// ignore file in a directory above the path shows the cause, and with exactly that cause removed from those files
/// (everything else untouched) model and spec agree on this path.
fn reader_mechanism(c: &Case, p: &[u8], is_dir: bool, repair: fn(&[u8]) -> Option<Vec<u8>>, drv: &mut Driver) -> bool {
    let mut changed = false;
    let mut igns = vec![];
    for (d, content) in &c.ignores {
        let above = d.is_empty() || (p.len() > d.len() + 1 && p.starts_with(d) && p[d.len()] == b'/');
        let content2 = match (above, repair(content)) {
            (true, Some(r)) => {
                changed = true;
                r
            }
            _ => content.clone(),
        };
        let comps: Vec<String> = d.split(|b| *b == b'/').filter(|x| !x.is_empty()).map(|x| hex(x)).collect();
        igns.push(format!("(ign (d {}) (bytes {}))", comps.join(" "), hex(&content2)).replace(" )", ")"));
    }
    if !changed {
        return false;
    }
    let pcomps: Vec<String> = p.split(|b| *b == b'/').map(|x| hex(x)).collect();
    let m = drv.ask(&format!("c04.tree {} (igns {}) (paths ({} {}))", c.ci as u8, igns.join(" "), is_dir as u8, pcomps.join(" ")));
    let b = m.get(3..).unwrap_or("").as_bytes();
    b.len() == 2 && b[0] == b[1]
}

/// a line is not valid UTF-8: `GitignoreBuilder::add` cannot use it as a glob and skips it (since 234ccee only that
/// line, the reading goes on); for git the line is a pattern of bytes like any other (it matches a Latin-1 file name)
fn repair_invalid_utf8(content: &[u8]) -> Option<Vec<u8>> {
    let mut out = vec![];
    let mut bad = false;
    for chunk in content.split_inclusive(|b| *b == b'\n') {
        if std::str::from_utf8(chunk).is_err() {
            bad = true;
        } else {
            out.extend(chunk);
        }
    }
    if bad {
        Some(out)
    } else {
        None
    }
}

fn repair_all_reading(content: &[u8]) -> Option<Vec<u8>> {
    let mut cur = content.to_vec();
    let mut any = false;
    for f in [repair_invalid_utf8 as fn(&[u8]) -> Option<Vec<u8>>] {
        if let Some(r) = f(&cur) {
            cur = r;
            any = true;
        }
    }
    if any {
        Some(cur)
    } else {
        None
    }
}

fn classify_path(c: &Case, p: &[u8], is_dir: bool, drv: &mut Driver) -> &'static str {
    if reader_mechanism(c, p, is_dir, repair_invalid_utf8, drv) {
        return "undecodable-line-dropped";
    }
    // several reading-level causes in the files above the path at once: only removing all of them restores the
    // agreement; attributed to the first cause present
    if reader_mechanism(c, p, is_dir, repair_all_reading, drv) {
        let above = |d: &Vec<u8>| d.is_empty() || (p.len() > d.len() + 1 && p.starts_with(d) && p[d.len()] == b'/');
        for (name, f) in [("undecodable-line-dropped", repair_invalid_utf8 as fn(&[u8]) -> Option<Vec<u8>>)] {
            if c.ignores.iter().any(|(d, content)| above(d) && f(content).is_some()) {
                return name;
            }
        }
    }
    if mechanism_at_work(c, p, is_dir, line_has_class_admitting_slash, true, drv) {
        return "bracket-class-admits-slash";
    }
    if mechanism_at_work(c, p, is_dir, line_has_prefix_then_dstar, false, drv) {
        return "literal-prefix-then-double-star";
    }
    if mechanism_at_work(c, p, is_dir, line_has_backslash_in_class, false, drv) {
        return "backslash-inside-class";
    }
    if mechanism_at_work(c, p, is_dir, line_is_rejected_for_invalid_range, false, drv) {
        return "reversed-range-line-rejected";
    }
    ""
}

fn run_case(c: &Case, env: &mut Env, drv: &mut Driver, rep: &mut Report, quiet: bool) -> Vec<Violation> {
    let mut out = vec![];
    let case = c.line();
    let mk = |kind: &str, class: &str, tie: &str, detail: String| Violation {
        kind: kind.into(),
        class: class.into(),
        tie: tie.into(),
        case: case.clone(),
        detail,
    };
    let root = materialise(env, c);
    // ---- per line: add_line vs model
    for (d, content) in &c.ignores {
        for l in content_lines(content) {
            let mut b = GitignoreBuilder::new("");
            b.case_insensitive(c.ci).unwrap();
            let r = b.add_line(None, &l);
            let imp = match r {
                Err(_) => "err".to_string(),
                Ok(_) => match b.build() {
                    Err(_) => "builderr".to_string(),
                    Ok(gi) => {
                        if gi.is_empty() {
                            "skip".to_string()
                        } else {
                            "glob".to_string()
                        }
                    }
                },
            };
            let m = drv.ask(&format!("c04.line {} {}", c.ci as u8, cps(&l)));
            let mk0 = m.split(':').next().unwrap_or("").split(' ').next().unwrap_or("").to_string();
            if !quiet {
                rep.branch(&format!("line:{}", mk0));
                if m.ends_with(" ok1") {
                    rep.branch("line:okFileLine(proved sub-grammar)");
                }
                if l.starts_with('!') {
                    rep.branch("line:negated");
                }
                if l.trim_end().ends_with('/') {
                    rep.branch("line:dir-only");
                }
                if l.contains("**") {
                    rep.branch("line:double-star");
                }
                if l.contains('[') {
                    rep.branch("line:class");
                }
                if l.starts_with('/') || l.trim_end().trim_end_matches('/').contains('/') {
                    rep.branch("line:anchored");
                }
                if !d.is_empty() {
                    rep.branch("line:in-subdirectory");
                }
            }
            if imp != mk0 {
                out.push(mk("impl_vs_model", "", TIE_LINE, format!("line {:?} ci={}: add_line gives {}, model {}", l, c.ci, imp, m)));
            }
        }
    }
    // ---- Gitignore API on the root file
    if let Some(content) = c.ignores.get(&b""[..]) {
        let lines = content_lines(content);
        for root_name in ["", ".", "r", "./r"] {
            let mut b = GitignoreBuilder::new(root_name);
            b.case_insensitive(c.ci).unwrap();
            for l in &lines {
                let _ = b.add_line(None, l);
            }
            let gi = match b.build() {
                Ok(g) => g,
                Err(_) => continue,
            };
            let mut reqs = vec![];
            let mut imps = vec![];
            for (p, d) in &c.entries {
                let full: Vec<u8> = if root_name.is_empty() {
                    p.clone()
                } else {
                    let mut f = root_name.as_bytes().to_vec();
                    f.push(b'/');
                    f.extend(p);
                    f
                };
                let show_m = |m: Match<&ignore::gitignore::Glob>| match m {
                    Match::None => "n".to_string(),
                    Match::Ignore(g) => format!("i:{}:{}", hex(g.original().as_bytes()), hex(g.actual().as_bytes())),
                    Match::Whitelist(g) => format!("w:{}:{}", hex(g.original().as_bytes()), hex(g.actual().as_bytes())),
                };
                let a = show_m(gi.matched_path_or_any_parents(Path::new(os(&full)), *d));
                let b2 = show_m(gi.matched(Path::new(os(&full)), *d));
                imps.push(format!("{},{}", a, b2));
                reqs.push(format!("({} {})", *d as u8, hex(&full)));
            }
            let stripped_root = root_name.strip_prefix("./").unwrap_or(root_name);
            let ls: Vec<String> = lines.iter().map(|l| cps(l)).collect();
            let m = drv.ask(&format!("c04.file {} {} (lines {}) (paths {})", c.ci as u8, hex(stripped_root.as_bytes()), ls.join(" "), reqs.join(" ")));
            if m != imps.join(";") {
                let ms: Vec<&str> = m.split(';').collect();
                let mut detail = format!("root {:?}: model reply differs", root_name);
                for (i, (p, _)) in c.entries.iter().enumerate() {
                    if ms.get(i).map(|x| *x != imps[i]).unwrap_or(true) {
                        detail = format!("root {:?} path {:?}: impl {} model {}", root_name, show(p), imps[i], ms.get(i).unwrap_or(&"?"));
                        break;
                    }
                }
                out.push(mk("impl_vs_model", "", TIE_API, detail));
            }
        }
    }
    // ---- the tree: walker vs model vs git vs spec
    let visited = walk_visited(&root, c);
    let git = match git_ignored(env, &root, c) {
        Ok(g) => g,
        Err(e) => {
            rep.notes.push(e);
            std::fs::remove_dir_all(&root).ok();
            return out;
        }
    };
    let mut igns = vec![];
    for (d, content) in &c.ignores {
        let comps: Vec<String> = d.split(|b| *b == b'/').filter(|x| !x.is_empty()).map(|x| hex(x)).collect();
        igns.push(format!("(ign (d {}) (bytes {}))", comps.join(" "), hex(content)).replace(" )", ")"));
    }
    let mut paths = vec![];
    for (p, d) in &c.entries {
        let comps: Vec<String> = p.split(|b| *b == b'/').map(|x| hex(x)).collect();
        paths.push(format!("({} {})", *d as u8, comps.join(" ")));
    }
    let m = drv.ask(&format!("c04.tree {} (igns {}) (paths {})", c.ci as u8, igns.join(" "), paths.join(" ")));
    let guard = m.starts_with("g1 ");
    let m = m.get(3..).unwrap_or("").to_string();
    let mb = m.as_bytes();
    if mb.len() != 2 * c.entries.len() {
        out.push(mk("impl_vs_model", "", TIE_WALK, format!("model reply {:?}", m)));
        std::fs::remove_dir_all(&root).ok();
        return out;
    }
    let mut any_ignored = false;
    let mut any_kept = false;
    for (i, (p, is_dir)) in c.entries.iter().enumerate() {
        if !quiet {
            rep.eval();
        }
        let imp = !visited.contains(p);
        let mm = mb[2 * i] == b'1';
        let ms = mb[2 * i + 1] == b'1';
        let g = git.contains(p);
        if g {
            any_ignored = true;
        } else {
            any_kept = true;
        }
        if imp != mm {
            out.push(mk("impl_vs_model", "", TIE_WALK, format!("path {:?}: walker skips = {}, model = {}", show(p), imp, mm)));
        }
        if imp != g {
            // excused only if the model predicts exactly this deviation AND the class's mechanism is at work here
            let class = if imp == mm && mm != ms && ms == g { classify_path(c, p, *is_dir, drv) } else { "" };
            if !quiet {
                if class.is_empty() {
                    rep.branch("class:none:unclassified-deviation");
                } else {
                    rep.branch(&format!("class:{}:attributed", class));
                }
            }
            out.push(mk("impl_vs_spec", class, TIE_GIT, format!("path {:?}: ripgrep skips = {}, git ignores = {}", show(p), imp, g)));
        }
        if guard && mm != ms {
            out.push(mk("model_vs_spec", "", "theorem C04_partial contradicted (model vs spec under okFileLine)", format!("path {:?}: model {} spec {}", show(p), mm, ms)));
        }
        if ms != g {
            // the spec models real git in both finding classes as well, so this comparison is never excused
            out.push(mk("model_vs_spec", "", TIE_SPEC, format!("path {:?}: spec says ignored = {}, real git = {}", show(p), ms, g)));
        }
    }
    if !quiet {
        if any_ignored && any_kept && c.ignores.len() >= 1 {
            rep.nontrivial(&case);
        }
        rep.branch(&format!("tree:ignore-files:{}", c.ignores.len().min(4)));
        if guard && !c.ignores.is_empty() {
            rep.branch("tree:all-lines-in-proved-sub-grammar");
        }
        if c.ci {
            rep.branch("tree:case-insensitive");
        }
        if c.entries.keys().any(|p| p.ends_with(b".") && !p.ends_with(b"..")) {
            rep.branch("tree:name-ending-in-dot");
        }
        if c.ignores.keys().any(|d| d.iter().filter(|b| **b == b'/').count() >= 1) {
            rep.branch("tree:ignore-file-at-depth>=2");
        }
    }
    std::fs::remove_dir_all(&root).ok();
    out
}

static SHRUNK: std::sync::Mutex<BTreeMap<String, usize>> = std::sync::Mutex::new(BTreeMap::new());

fn run_and_report(c: &Case, env: &mut Env, drv: &mut Driver, rep: &mut Report) {
    let vs = run_case(c, env, drv, rep, false);
    let mut seen: Vec<(String, String, String)> = vec![];
    for v in vs {
        let key = (v.kind.clone(), v.class.clone(), v.tie.clone());
        if seen.contains(&key) {
            continue;
        }
        seen.push(key);
        // a recorded class is shrunk only the first two times it shows up in a run (shrinking re-runs git many times)
        if !v.class.is_empty() {
            let mut m = SHRUNK.lock().unwrap();
            let n = m.entry(v.class.clone()).or_insert(0);
            *n += 1;
            if *n > 2 {
                drop(m);
                rep.violation(v);
                continue;
            }
        }
        // shrink: drop ignore files, then lines, then entries
        let mut cur = c.clone();
        let same = |cand: &Case, env: &mut Env, drv: &mut Driver, rep: &mut Report| -> Option<Violation> {
            run_case(cand, env, drv, rep, true).into_iter().find(|x| x.kind == v.kind && x.tie == v.tie && x.class == v.class)
        };
        let mut best = v.clone();
        let dirs: Vec<Vec<u8>> = cur.ignores.keys().cloned().collect();
        for d in dirs {
            let mut cand = cur.clone();
            cand.ignores.remove(&d);
            let mut gp = d.clone();
            if !gp.is_empty() {
                gp.push(b'/');
            }
            gp.extend(b".gitignore");
            cand.entries.remove(&gp);
            if let Some(b) = same(&cand, env, drv, rep) {
                cur = cand;
                best = b;
            }
        }
        let dirs: Vec<Vec<u8>> = cur.ignores.keys().cloned().collect();
        for d in dirs {
            let lines = content_lines(&cur.ignores[&d]);
            let kept = shrink_list(&lines, &mut |cand_lines: &[String]| {
                let mut cand = cur.clone();
                cand.ignores.insert(d.clone(), (cand_lines.join("\n") + "\n").into_bytes());
                same(&cand, env, drv, rep).is_some()
            });
            let mut cand = cur.clone();
            cand.ignores.insert(d.clone(), (kept.join("\n") + "\n").into_bytes());
            if let Some(b) = same(&cand, env, drv, rep) {
                cur = cand;
                best = b;
            }
        }
        let paths: Vec<Vec<u8>> = cur.entries.keys().rev().cloned().collect();
        for p in paths {
            if p.ends_with(b".gitignore") {
                continue;
            }
            let mut cand = cur.clone();
            let mut pre = p.clone();
            pre.push(b'/');
            cand.entries.retain(|q, _| q != &p && !q.starts_with(&pre));
            cand.ignores.retain(|d, _| d != &p && !d.starts_with(&pre));
            if let Some(b) = same(&cand, env, drv, rep) {
                cur = cand;
                best = b;
            }
        }
        rep.violation(best);
    }
}

fn main() {
    let args = parse_args();
    let mut drv = Driver::spawn(&args.driver);
    let mut rep = Report::new(
        "C04",
        "one evaluation = one entry of a generated tree (ripgrep's walker vs real git vs model vs spec); non-trivial = a tree with at least one ignore file in which git ignores some entries and keeps others. \
         Trees: depth <= 4, names over {a,b,A,.,-,*,[,]} (dots first/last, dashes, upper case, names that look like globs); .gitignore at 0-3 levels; lines from the gitignore grammar \
         (literals, *, ?, classes, ** in its three positions, leading/inner slash, trailing slash, !, \\#, \\!, comments, blanks, trailing blanks, escaped trailing blank), steered towards names that exist; \
         with and without case-insensitive matching. Left open by git/the documentation and therefore generated only at low rate and never alarmed on beyond their recorded class: \
         bracket expressions that admit '/', '**' that is not a whole component, a '-' directly after a class range, POSIX [:classes:], upper-case letters inside classes or after '\\' under ignorecase, non-UTF-8 ignore files.",
    );
    std::fs::create_dir_all(&args.scratch).unwrap();
    let git_dir = args.scratch.join("gitdir");
    std::fs::create_dir_all(args.scratch.join("home")).unwrap();
    std::fs::create_dir_all(args.scratch.join("xdg")).unwrap();
    let st = Command::new("git")
        .args(["init", "-q", "--bare"])
        .arg(&git_dir)
        .env("GIT_CONFIG_NOSYSTEM", "1")
        .env("GIT_CONFIG_GLOBAL", "/dev/null")
        .env("HOME", args.scratch.join("home"))
        .status()
        .expect("git init");
    assert!(st.success());
    // a bare repository refuses work-tree operations unless told otherwise
    let _ = Command::new("git").arg("--git-dir").arg(&git_dir).args(["config", "core.bare", "false"]).env("GIT_CONFIG_GLOBAL", "/dev/null").status();
    let mut env = Env { scratch: args.scratch.clone(), git_dir, counter: 0 };
    for line in corpus_cases(&args) {
        match Case::parse(&line) {
            Some(c) => run_and_report(&c, &mut env, &mut drv, &mut rep),
            None => rep.notes.push(format!("unparsable corpus case: {}", line)),
        }
    }
    if args.replay.is_none() {
        let mut rng = Rng::new(args.seed);
        let n = args.cases.unwrap_or(if args.thorough { 20000 } else { 1500 });
        for i in 0..n {
            let c = if i % 5 == 4 { gen_family_case(&mut rng) } else { gen_case(&mut rng) };
            if i < 4 {
                rep.sample(c.line());
            }
            run_and_report(&c, &mut env, &mut drv, &mut rep);
        }
    }
    rep.write(&args);
}
