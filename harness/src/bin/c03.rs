//! C03 — results follow the grep model: order, uniqueness, context windows, numbering.
//!
//! For every case: the Sink event stream of the real `Searcher::search_slice` vs the Lean model
//! (`c03.model`, Model/Core+Glue+Lines) vs the grep model (`c03.spec`, Spec/Grep.lean), and the reader /
//! path strategies vs the grep model. Thorough tier: exhaustive enumeration of all selection patterns
//! over <= 10 lines x (A,B) in 0..=3 x invert x passthru x 3 terminators x final terminator x path.
#[path = "../searcher_common.rs"]
mod searcher_common;

use std::collections::BTreeMap;
use std::path::PathBuf;

use grep_matcher::Matcher;
use grep_searcher::LineIter;
use rgverif_harness::*;
use searcher_common::*;

const READER_CHUNKS: [usize; 4] = [2, 3, 7, 4096];

struct Ctx {
    drv: Driver,
    rep: Report,
    scratch: PathBuf,
    files: u64,
    /// ONE pair of Searcher objects per configuration, reused by every case with that configuration
    searchers: std::collections::HashMap<String, Searchers>,
}

fn count_class(rep: &Report, kind: &str, class: &str) -> usize {
    rep.violations.iter().filter(|v| v.kind == kind && v.class == class).count()
}

/// impl(Slice), model, spec and path of one case (no reporting) — used by the shrinker.
fn eval3<M: Matcher>(ctx: &mut Ctx, cfg: &Cfg, m: &M, msx: &str, bits: &[bool], input: &[u8]) -> (String, String, String) {
    let eff = cfg.effective().to_sx();
    let mut s = cfg.searcher();
    let imp = run_with(&mut s, m, input, Script::All, &Strategy::Slice).0;
    let model = ctx.drv.ask(&format!("c03.model {} {} {} (sink all)", eff, msx, hex(input)));
    let spec = ctx.drv.ask(&format!("c03.spec {} {} {}", eff, bits_str(bits), hex(input)));
    (imp, model, spec)
}

enum AnyM {
    Lit(LitMatcher),
    Re(grep_regex::RegexMatcher),
}

/// A parsed case with its matcher and the four driver requests (path, model, spec, lines).
struct Prep {
    line: String,
    case: Case,
    m: AnyM,
    msx: String,
    bits: Vec<bool>,
    reqs: [String; 4],
    allow_shrink: bool,
}

fn prepare(line: &str, ctx: &mut Ctx, allow_shrink: bool) -> Option<Prep> {
    let case = match Case::parse(line) {
        Some(c) => c,
        None => {
            ctx.rep.notes.push(format!("unparsable case: {}", line));
            return None;
        }
    };
    if case.cfg.ml {
        ctx.rep.notes.push(format!("C03 case with ml=1 ignored (multi-line search is not line oriented): {}", line));
        return None;
    }
    let (m, msx, head, bits) = match &case.m {
        MatcherSpec::Lit { needle, term, .. } => {
            let m = case.lit_matcher().unwrap();
            if term.is_some() && *term != Some(case.cfg.lt) {
                // malformed: Searcher::check_config refuses before any callback (not modelled)
                ctx.rep.eval();
                ctx.rep.branch("malformed:mismatched-line-terminator");
                let imp = run_impl(&case.cfg, &m, &case.input, Script::All, &Strategy::Slice, false);
                if imp != "|err" {
                    ctx.rep.violation(Violation {
                        kind: "impl_vs_spec".into(),
                        class: "".into(),
                        tie: "Searcher::check_config: mismatched line terminators are refused before any event".into(),
                        case: line.to_string(),
                        detail: format!("expected |err, impl {}", imp),
                    });
                }
                return None;
            }
            let bits = sel_bits_lit(needle, &case.cfg, &case.input);
            let msx = m.to_sx();
            (AnyM::Lit(m), msx.clone(), msx, bits)
        }
        MatcherSpec::Re { mode, pattern } => {
            let m = match build_regex(*mode, case.cfg.lt, pattern) {
                Ok(m) => m,
                Err(_) => {
                    ctx.rep.branch("re:pattern-rejected");
                    return None;
                }
            };
            let (tsx, incons) = table_sx(&m, &case.cfg, &case.input);
            if let Some(msg) = incons {
                ctx.rep.violation(Violation {
                    kind: "impl_vs_model".into(),
                    class: "".into(),
                    tie: "RegexMatcher::is_match vs shortest_match (the model derives is_match from shortest_match)".into(),
                    case: line.to_string(),
                    detail: msg,
                });
            }
            let bits = sel_bits_matcher(&m, &case.cfg, &case.input);
            let head = table_head_sx(&m);
            ctx.rep.branch("matcher:regex");
            (AnyM::Re(m), tsx, head, bits)
        }
    };
    let effsx = case.cfg.effective().to_sx();
    let inp = hex(&case.input);
    let reqs = [
        format!("c03.path {} {}", effsx, head),
        format!("c03.model {} {} {} (sink all)", effsx, msx, inp),
        format!("c03.spec {} {} {}", effsx, bits_str(&bits), inp),
        format!("c03.lines {} {}", case.cfg.lt.name(), inp),
    ];
    Some(Prep { line: line.to_string(), case, m, msx, bits, reqs, allow_shrink })
}

/// Ask the driver for a whole batch at once (robust against scheduling latency), then evaluate.
fn flush(batch: &mut Vec<Prep>, ctx: &mut Ctx) {
    if batch.is_empty() {
        return;
    }
    let reqs: Vec<String> = batch.iter().flat_map(|p| p.reqs.iter().cloned()).collect();
    let answers = ctx.drv.ask_all(&reqs);
    for (i, p) in batch.drain(..).enumerate() {
        let a = &answers[4 * i..4 * i + 4];
        match &p.m {
            AnyM::Lit(m) => run_generic(&p, m, a, ctx),
            AnyM::Re(m) => run_generic(&p, m, a, ctx),
        }
    }
}

fn run_case(line: &str, ctx: &mut Ctx, allow_shrink: bool) {
    if line.starts_with("ml03 ") {
        run_ml03(line, ctx);
        return;
    }
    if line.starts_with("hist ") {
        run_history(line, ctx);
        return;
    }
    let mut b: Vec<Prep> = prepare(line, ctx, allow_shrink).into_iter().collect();
    flush(&mut b, ctx);
}

fn run_generic<M: Matcher>(p: &Prep, m: &M, answers: &[String], ctx: &mut Ctx) {
    let (line, case, msx, bits, allow_shrink) = (&p.line[..], &p.case, &p.msx[..], &p.bits[..], p.allow_shrink);
    let cfg = &case.cfg;
    let input = &case.input[..];
    let eff = cfg.effective();
    ctx.rep.eval();

    let (path, model, spec, lines_reply) = (&answers[0][..], &answers[1][..], &answers[2][..], &answers[3][..]);
    let skey = cfg.token();
    let mut ss = ctx.searchers.remove(&skey).unwrap_or_else(|| Searchers::new(cfg));
    let imp = run_with(&mut ss.plain, m, input, Script::All, &Strategy::Slice).0;

    if path != "fast" && path != "slow" {
        ctx.rep.violation(Violation {
            kind: "impl_vs_model".into(),
            class: "".into(),
            tie: "driver c03.path".into(),
            case: line.to_string(),
            detail: format!("driver answered {:?}", path),
        });
    }
    // No known-finding class is left for this property: the fast-path divergence with invert_match +
    // stop_on_nonmatch (former class "son-invert-fastpath") was fixed in /repo 4546c35, where
    // is_line_by_line_fast sends that combination to the slow path.
    let known = "";
    if cfg.inv && cfg.son {
        ctx.rep.branch("invert+stop-on-nonmatch");
    }

    // ---- branches
    let lt = cfg.lt;
    let lines = split_lines(input, lt.byte());
    {
        let rep = &mut ctx.rep;
        rep.branch(&format!("path:{}", path));
        rep.branch(&format!("lt:{}", lt.name()));
        if cfg.inv {
            rep.branch("inverted");
        }
        if cfg.pt {
            rep.branch("passthru");
        }
        if cfg.son {
            rep.branch("stop-on-nonmatch");
        }
        if !cfg.ln {
            rep.branch("no-line-numbers");
        }
        if imp.contains(";brk;") {
            rep.branch("has-break");
        }
        if lt == Lt::Nul && path == "fast" {
            rep.branch("nul-fast-via-non-matching-bytes");
        }
        if input.is_empty() {
            rep.branch("empty-input");
        }
        if !input.is_empty() && input.last() != Some(&lt.byte()) {
            rep.branch("unterminated-last-line");
        }
        if lines.iter().any(|l| content(l, lt).is_empty()) {
            rep.branch("empty-line");
        }
        if lt == Lt::Crlf {
            let lone_cr = input.iter().enumerate().any(|(i, &b)| b == b'\r' && input.get(i + 1) != Some(&b'\n'));
            if lone_cr {
                rep.branch("crlf-lone-cr");
            }
            let bare_lf = input.iter().enumerate().any(|(i, &b)| b == b'\n' && (i == 0 || input[i - 1] != b'\r'));
            if bare_lf {
                rep.branch("crlf-bare-lf");
            }
        }
        // two selected lines with only unselected lines between them whose windows touch or overlap
        if eff.a + eff.b > 0 {
            let sel: Vec<usize> = bits.iter().enumerate().filter(|(_, &b)| b).map(|(i, _)| i).collect();
            if sel.windows(2).any(|w| w[1] - w[0] >= 2 && w[1] - w[0] - 1 <= eff.a + eff.b) {
                rep.branch("merged-windows");
            }
            if sel.windows(2).any(|w| w[1] - w[0] - 1 > eff.a + eff.b) {
                rep.branch("separated-windows");
            }
        }
        if let MatcherSpec::Lit { cand: Some(_), .. } = &case.m {
            if path == "fast" {
                rep.branch("candidate-prefilter");
            }
        }
        if imp.contains(";brk;") && imp.contains(";c ") {
            rep.nontrivial(line);
        }
    }

    // ---- the three comparisons on search_slice
    let ctxs = format!("[{} path={} input {:?} sel {}]", cfg.token(), path, show(input), bits_str(bits));
    let mut want_shrink = false;
    if imp != model && count_class(&ctx.rep, "impl_vs_model", "") < 5 {
        want_shrink = true;
    }
    if imp != spec && count_class(&ctx.rep, "impl_vs_spec", known) < 5 {
        want_shrink = true;
    }
    if model != spec && known.is_empty() && count_class(&ctx.rep, "model_vs_spec", "") < 5 {
        want_shrink = true;
    }
    if want_shrink && allow_shrink && lines.len() > 1 {
        // remove lines while the same pair keeps disagreeing, then report the small case instead
        let (d_im, d_is, d_ms) = (imp != model, imp != spec, model != spec);
        let owned: Vec<Vec<u8>> = lines.iter().map(|l| l.to_vec()).collect();
        let shrunk = shrink_list(&owned, &mut |ls: &[Vec<u8>]| {
            let inp: Vec<u8> = ls.concat();
            let c2 = case.with_input(inp.clone());
            let (b2, msx2) = match &c2.m {
                MatcherSpec::Lit { needle, .. } => (sel_bits_lit(needle, cfg, &inp), msx.to_string()),
                MatcherSpec::Re { .. } => (sel_bits_matcher(m, cfg, &inp), table_sx(m, cfg, &inp).0),
            };
            let (i2, m2, s2) = eval3(ctx, cfg, m, &msx2, &b2, &inp);
            (d_im && i2 != m2) || (!d_im && d_is && i2 != s2) || (!d_im && !d_is && d_ms && m2 != s2)
        });
        if shrunk.len() < owned.len() {
            let c2 = case.with_input(shrunk.concat());
            ctx.rep.branch("shrunk");
            run_case(&c2.line(), ctx, false);
            return;
        }
    }
    compare3(&mut ctx.rep, line, "search_slice", &imp, Some(model), Some(spec), known, &ctxs);

    // ---- the other strategies against the grep model
    let h = fnv(line.as_bytes());
    // a fresh file per case (rewriting one file in place makes ext4 flush on every close)
    ctx.files += 1;
    let file = scratch_file(&ctx.scratch, &format!("c03-{}.bin", ctx.files), input);
    let file_to_remove = file.clone();
    // (third component: a FRESH searcher with a 7-byte roll buffer, so that the buffer rolls and grows inside small
    // inputs: context carried across refills, `Core::roll`, `last_line_visited` forgotten -- seeded change C03-1-1)
    let strategies: Vec<(Strategy, bool, bool)> = vec![
        (Strategy::Reader(1), false, false),
        (Strategy::Reader(READER_CHUNKS[(h % READER_CHUNKS.len() as u64) as usize]), false, false),
        (Strategy::Reader(1), false, true),
        (Strategy::Reader(READER_CHUNKS[((h >> 8) % READER_CHUNKS.len() as u64) as usize]), false, true),
        (Strategy::Path(file.clone()), false, false),
        (Strategy::Path(file), true, false),
    ];
    for (st, mmap, small) in strategies {
        let name = format!(
            "{}{}{}",
            st.name(),
            if let Strategy::Path(_) = st { if mmap { "-mmap" } else { "-nommap" } } else { "" },
            if small { "-small" } else { "" }
        );
        let mut fresh_small = cfg.searcher_small();
        let s = if mmap { &mut ss.mmap } else if small { &mut fresh_small } else { &mut ss.plain };
        let out = run_with(s, m, input, Script::All, &st).0;
        ctx.rep.branch(&format!("strategy:{}", name));
        // the reader strategy vs the Lean model of search_reader (Model/ReadByLine.lean: BOM peek, roll buffer,
        // ReadByLine over Core), the subject of theorems C03_reader_slow / C03_reader_linesafe (Props/C03Reader.lean).
        // Literal matchers only (a table of a real matcher's answers is indexed by positions of the whole input).
        // (inputs up to 600 bytes: the list-based model is quadratic in the number of 1-byte reads)
        if let (Strategy::Reader(nchunk), MatcherSpec::Lit { .. }, true) = (&st, &case.m, input.len() <= 600) {
            let rm = ctx.drv.ask(&format!(
                "c03.rbl {} {} {} (script {}) {} - (sink all)",
                cfg.effective().to_sx(),
                msx,
                hex(input),
                vec![nchunk.to_string(); input.len() + 8].join(" "),
                if small { SMALL_CAP.to_string() } else { "-".to_string() }
            ));
            ctx.rep.eval();
            ctx.rep.branch("reader-model:compared");
            if rm != out {
                ctx.rep.violation(Violation {
                    kind: "impl_vs_model".into(),
                    class: "".into(),
                    tie: format!("{}: Sink event stream of search_reader vs Lean model searchReader (theorems C03_reader_*)", name),
                    case: line.to_string(),
                    detail: format!("{} strategy {} impl {} model {}", ctxs, name, out, rm),
                });
            }
        }
        // search_path without memory maps: the file is read through the same decoder + roll buffer; a File returns
        // min(free space, rest of the file) per read call = the model's reader with an empty script
        if let (Strategy::Path(_), false, MatcherSpec::Lit { .. }, true) = (&st, mmap, &case.m, input.len() <= 600) {
            let rm = ctx.drv.ask(&format!("c03.rbl {} {} {} (script) - - (sink all)", cfg.effective().to_sx(), msx, hex(input)));
            ctx.rep.eval();
            ctx.rep.branch("reader-model:path-nommap-compared");
            if rm != out {
                ctx.rep.violation(Violation {
                    kind: "impl_vs_model".into(),
                    class: "".into(),
                    tie: format!("{}: Sink event stream of search_path (no mmap) vs Lean model searchReader with an empty read script (theorems C03_reader_*)", name),
                    case: line.to_string(),
                    detail: format!("{} strategy {} impl {} model {}", ctxs, name, out, rm),
                });
            }
        }
        if out == spec {
            continue;
        }
        if out != imp {
            ctx.rep.branch("strategy-differs-from-slice");
        }
        ctx.rep.violation(Violation {
            kind: "impl_vs_spec".into(),
            class: known.into(),
            tie: format!("{}: Sink event stream of the real Searcher vs grep model (Spec/Grep.lean)", name),
            case: line.to_string(),
            detail: format!("{} strategy {} gives {} ; search_slice {} ; spec {}", ctxs, name, out, imp, spec),
        });
    }

    std::fs::remove_file(&file_to_remove).ok();
    ctx.searchers.insert(skey, ss);

    // ---- unit-level tie of the line splitting
    let lens_impl = lens_str(&LineIter::new(lt.byte(), input).map(|l| l.len()).collect::<Vec<_>>());
    let reply = lines_reply;
    match reply.split_once('|') {
        Some((spec_lens, model_lens)) => {
            if model_lens.trim() != lens_impl {
                ctx.rep.violation(Violation {
                    kind: "impl_vs_model".into(),
                    class: "".into(),
                    tie: "grep_searcher::LineIter vs Model.Lines.stepLines".into(),
                    case: line.to_string(),
                    detail: format!("input {:?}: impl [{}] model [{}]", show(input), lens_impl, model_lens),
                });
            }
            if spec_lens.trim() != lens_impl {
                ctx.rep.violation(Violation {
                    kind: "impl_vs_spec".into(),
                    class: "".into(),
                    tie: "grep_searcher::LineIter vs GrepSpec.splitLines".into(),
                    case: line.to_string(),
                    detail: format!("input {:?}: impl [{}] spec [{}]", show(input), lens_impl, spec_lens),
                });
            }
        }
        None => ctx.rep.violation(Violation {
            kind: "impl_vs_model".into(),
            class: "".into(),
            tie: "driver c03.lines".into(),
            case: line.to_string(),
            detail: format!("driver answered {:?}", reply),
        }),
    }
}

// ---------------------------------------------------------------- histories: one Searcher, several searches

/// `hist <cfgtoken> <needle-hex> <input-hex>,<input-hex>,…`: ONE Searcher object searches the inputs one after the
/// other through every strategy (slice, reader with small chunks, path); each search must give what a fresh
/// Searcher gives and what the model gives for that input alone — nothing of an earlier search may leak into a
/// later one (reusable line buffer, multi-line buffer, decode buffer). With `m1` and a needle containing the
/// terminator the searches go through the multi-line strategy.
fn run_history(line: &str, ctx: &mut Ctx) {
    let p: Vec<&str> = line.split_whitespace().collect();
    let parsed = (|| {
        if p.len() != 4 {
            return None;
        }
        let cfg = Cfg::parse_token(p[1])?;
        let needle = unhex(p[2])?;
        let inputs: Option<Vec<Vec<u8>>> = p[3].split(',').map(unhex).collect();
        Some((cfg, needle, inputs?))
    })();
    let (cfg, needle, inputs) = match parsed {
        Some(x) => x,
        None => {
            ctx.rep.notes.push(format!("unparsable history: {}", line));
            return;
        }
    };
    ctx.rep.eval();
    ctx.rep.branch(if cfg.ml { "history:multi-line" } else { "history:line-by-line" });
    let m = LitMatcher::new(needle, None, None, None);
    let msx = m.to_sx();
    let effsx = cfg.effective().to_sx();
    let mut one = Searchers::new(&cfg);
    for (i, input) in inputs.iter().enumerate() {
        let model = ctx.drv.ask(&format!("c03.model {} {} {} (sink all)", effsx, msx, hex(input)));
        ctx.files += 1;
        let file = scratch_file(&ctx.scratch, &format!("c03-h{}.bin", ctx.files), input);
        let strategies: Vec<(Strategy, bool)> = vec![
            (Strategy::Reader(3), false),
            (Strategy::Slice, false),
            (Strategy::Reader(1), false),
            (Strategy::Path(file.clone()), false),
            (Strategy::Path(file.clone()), true),
        ];
        for (st, mmap) in strategies {
            let s = if mmap { &mut one.mmap } else { &mut one.plain };
            let got = run_with(s, &m, input, Script::All, &st).0;
            let fresh = run_impl(&cfg, &m, input, Script::All, &st, mmap);
            ctx.rep.eval();
            if got != fresh {
                ctx.rep.violation(Violation {
                    kind: "impl_vs_spec".into(),
                    class: "".into(),
                    tie: format!("{}: a search does not depend on what the same Searcher searched before", st.name()),
                    case: line.to_string(),
                    detail: format!(
                        "search #{} ({}) of input {:?} by the reused Searcher gives {} ; a fresh Searcher gives {}",
                        i + 1,
                        st.name(),
                        show(input),
                        got,
                        fresh
                    ),
                });
            }
            if got != model {
                ctx.rep.violation(Violation {
                    kind: "impl_vs_model".into(),
                    class: "".into(),
                    tie: format!("{} by a reused Searcher vs Lean model searchSlice", st.name()),
                    case: line.to_string(),
                    detail: format!("search #{} of input {:?}: impl {} model {}", i + 1, show(input), got, model),
                });
            }
        }
        std::fs::remove_file(&file).ok();
    }
}

fn history_case(rng: &mut Rng) -> String {
    let ml = rng.chance(2, 3);
    let mut cfg = gen_cfg(rng, 2);
    cfg.lt = Lt::Lf;
    cfg.son = false;
    cfg.ml = ml;
    let needle: &[u8] = if ml { *rng.pick(&[&b"x\n"[..], b"x\ny", b"\n"]) } else { b"x" };
    let n = rng.range(2, 4);
    let inputs: Vec<String> = (0..n).map(|_| hex(&gen_lit_input(rng, Lt::Lf, b"x", 5, 1, 2))).collect();
    format!("hist {} {} {}", cfg.token(), hex(needle), inputs.join(","))
}

// ---------------------------------------------------------------- generated streams

fn lit_case(rng: &mut Rng) -> String {
    let mut cfg = gen_cfg(rng, 4);
    if rng.chance(1, 3) {
        // plain context search: the territory of breaks and window merging
        cfg.pt = false;
        cfg.son = false;
        if cfg.a + cfg.b == 0 {
            cfg.a = rng.range(0, 2);
            cfg.b = rng.range(if cfg.a == 0 { 1 } else { 0 }, 2);
        }
    }
    let needle: &[u8] = if rng.chance(1, 4) { b"xy" } else { b"x" };
    let (pn, pd) = *rng.pick(&[(1usize, 8usize), (1, 6), (1, 5), (1, 4), (1, 2), (3, 4)]);
    let nmax = if rng.chance(1, 3) { 20 } else { 12 };
    let mut input = gen_lit_input(rng, cfg.lt, needle, nmax, pn, pd);
    if rng.chance(1, 250) {
        // a line longer than the searcher's 64 KiB buffer (selected or not), somewhere among the others
        let mut long: Vec<u8> = std::iter::repeat(b'y').take(rng.range(65_530, 70_000)).collect();
        if rng.chance(1, 2) {
            let at = rng.range(0, long.len());
            long.splice(at..at, needle.iter().cloned());
        }
        long.extend_from_slice(cfg.lt.bytes());
        let lines = split_lines(&input, cfg.lt.byte());
        let k = rng.range(0, lines.len());
        let at: usize = lines[..k].iter().map(|l| l.len()).sum();
        input.splice(at..at, long);
    }
    let m = gen_lit_matcher(rng, &cfg, needle);
    Case { cfg, m, input, script: None }.line()
}

fn boundary_case(rng: &mut Rng, i: usize) -> String {
    let mut cfg = gen_cfg(rng, 4);
    let mut needle: Vec<u8> = b"x".to_vec();
    let t = cfg.lt.bytes();
    let rep = |unit: &[u8], n: usize| -> Vec<u8> { (0..n).flat_map(|_| unit.to_vec()).collect() };
    let sel_line: Vec<u8> = [b"x".as_ref(), t].concat();
    let non_line: Vec<u8> = [b"y".as_ref(), t].concat();
    let input: Vec<u8> = match i % 14 {
        0 => vec![],
        1 => rep(t, rng.range(1, 4)),
        2 => if rng.chance(1, 2) { b"x".to_vec() } else { b"y".to_vec() },
        3 => rep(&sel_line, rng.range(1, 6)),
        4 => rep(&non_line, rng.range(1, 6)),
        5 => {
            // A or B larger than the number of lines
            cfg.a = rng.range(5, 20);
            cfg.b = rng.range(5, 20);
            gen_lit_input(rng, cfg.lt, &needle, 5, 1, 3)
        }
        6 => {
            cfg.a = 0;
            cfg.b = 0;
            cfg.son = true;
            gen_lit_input(rng, cfg.lt, &needle, 8, 1, 2)
        }
        7 => {
            // lone CR / bare LF material
            cfg.lt = Lt::Crlf;
            let pieces: [&[u8]; 6] = [b"x\r\n", b"y\r\n", b"\r", b"x\n", b"\r\r\n", b"y\rx"];
            (0..rng.range(1, 6)).flat_map(|_| rng.pick(&pieces).to_vec()).collect()
        }
        8 => {
            // the empty needle: every line is selected
            needle = vec![];
            gen_lit_input(rng, cfg.lt, b"x", 5, 1, 2)
        }
        9 => {
            // single selected line in the middle of a long run
            let n = rng.range(3, 12);
            let k = rng.below(n);
            let mut v = vec![];
            for j in 0..n {
                v.extend_from_slice(if j == k { &sel_line } else { &non_line });
            }
            if rng.chance(1, 3) {
                v.truncate(v.len() - t.len());
            }
            v
        }
        10 => {
            // two selected lines at a controlled distance: windows touch / overlap / leave a gap of one
            let d = rng.range(1, 9);
            let mut v = sel_line.clone();
            v.extend(rep(&non_line, d));
            v.extend_from_slice(&sel_line);
            v.extend(rep(&non_line, rng.range(0, 5)));
            cfg.pt = false;
            v
        }
        11 => {
            // last line unterminated and selected, context before it
            let mut v = rep(&non_line, rng.range(1, 5));
            v.push(b'x');
            v
        }
        12 => {
            // only empty lines and one selected line
            let mut v = rep(t, rng.range(1, 4));
            v.extend_from_slice(&sel_line);
            v.extend(rep(t, rng.range(1, 4)));
            v
        }
        _ => {
            // malformed: the matcher announces a different terminator than the searcher's
            let other = match cfg.lt {
                Lt::Lf => Lt::Nul,
                Lt::Crlf => Lt::Lf,
                Lt::Nul => Lt::Lf,
            };
            let input = gen_lit_input(rng, cfg.lt, &needle, 4, 1, 2);
            return Case {
                cfg,
                m: MatcherSpec::Lit { needle, term: Some(other), nm: None, cand: None },
                input,
                script: None,
            }
            .line();
        }
    };
    let m = if needle.is_empty() {
        let term = if rng.chance(1, 2) { Some(cfg.lt) } else { None };
        MatcherSpec::Lit { needle, term, nm: None, cand: None }
    } else {
        gen_lit_matcher(rng, &cfg, &needle)
    };
    Case { cfg, m, input, script: None }.line()
}

fn regex_case(rng: &mut Rng) -> String {
    let cfg = gen_cfg(rng, 3);
    let mode = if cfg.lt != Lt::Crlf && rng.chance(1, 3) { ReMode::Plain } else { ReMode::Term };
    let mut p = gen_safe_pattern(rng, 2, true);
    if cfg.lt == Lt::Lf {
        p = gen_anchored(rng, p);
    }
    let input = gen_text_input(rng, cfg.lt, 10);
    Case { cfg, m: MatcherSpec::Re { mode, pattern: p }, input, script: None }.line()
}

// ---------------------------------------------------------------- exhaustive enumeration (thorough tier)

struct Shard {
    evals: u64,
    model_evals: u64,
    branches: BTreeMap<String, u64>,
    violations: Vec<Violation>,
    nontrivial: Vec<u64>,
    completed: bool,
}

#[derive(Clone, Debug)]
struct ExCfg {
    lt: Lt,
    a: usize,
    b: usize,
    inv: bool,
    pt: bool,
    fin: bool,
    fast: bool,
}

fn exhaustive_shard(driver: &std::path::Path, cfgs: &[ExCfg], max_n: usize) -> Shard {
    let mut drv = Driver::spawn(driver);
    let mut sh = Shard { evals: 0, model_evals: 0, branches: BTreeMap::new(), violations: vec![], nontrivial: vec![], completed: false };
    for ec in cfgs {
        let cfg = Cfg { lt: ec.lt, inv: ec.inv, a: ec.a, b: ec.b, pt: ec.pt, ln: true, son: false, ml: false, bin: Bin::None };
        let (term, nm) = if !ec.fast {
            (None, None)
        } else if ec.lt == Lt::Nul {
            (None, Some(vec![0u8]))
        } else {
            (Some(ec.lt), None)
        };
        let mspec = MatcherSpec::Lit { needle: b"x".to_vec(), term, nm: nm.clone(), cand: None };
        let m = LitMatcher::new(b"x".to_vec(), term, nm, None);
        let msx = m.to_sx();
        let effsx = cfg.effective().to_sx();
        let mut searcher = cfg.searcher();
        let path = drv.ask(&format!("c03.path {} {}", effsx, msx));
        *sh.branches.entry(format!("exhaustive:path:{}", path)).or_insert(0) += 1;
        let t = ec.lt.bytes();
        for n in 0..=max_n {
            let mut inputs: Vec<Vec<u8>> = Vec::with_capacity(1 << n);
            let mut reqs: Vec<String> = Vec::with_capacity(1 << n);
            let mut imps: Vec<String> = Vec::with_capacity(1 << n);
            for pat in 0u32..(1u32 << n) {
                let mut input = Vec::with_capacity(n * 3);
                let mut bits = String::with_capacity(n.max(1));
                for i in 0..n {
                    let s = (pat >> i) & 1 == 1;
                    input.push(if s { b'x' } else { b'y' });
                    input.extend_from_slice(t);
                    bits.push(if s != ec.inv { '1' } else { '0' });
                }
                if !ec.fin && n > 0 {
                    input.truncate(input.len() - t.len());
                }
                if n == 0 {
                    bits.push('-');
                }
                imps.push(run_with(&mut searcher, &m, &input, Script::All, &Strategy::Slice).0);
                reqs.push(format!("c03.spec {} {} {}", effsx, bits, hex(&input)));
                inputs.push(input);
            }
            let specs = drv.ask_all(&reqs);
            // 1/16 sample against the model
            let mut mreqs = vec![];
            let mut midx = vec![];
            for (i, input) in inputs.iter().enumerate() {
                if fnv(format!("{:?}{}", ec, i).as_bytes()) % 16 == 0 {
                    mreqs.push(format!("c03.model {} {} {} (sink all)", effsx, msx, hex(input)));
                    midx.push(i);
                }
            }
            let models = drv.ask_all(&mreqs);
            sh.model_evals += models.len() as u64;
            for (i, input) in inputs.iter().enumerate() {
                sh.evals += 1;
                let imp = &imps[i];
                let spec = &specs[i];
                let line = || Case { cfg: cfg.clone(), m: mspec.clone(), input: input.clone(), script: None }.line();
                if imp.contains(";brk;") && imp.contains(";c ") {
                    sh.nontrivial.push(fnv(line().as_bytes()));
                }
                if imp != spec {
                    *sh.branches.entry("exhaustive:mismatch:impl_vs_spec".to_string()).or_insert(0) += 1;
                    if sh.violations.len() < 5 {
                        sh.violations.push(Violation {
                            kind: "impl_vs_spec".into(),
                            class: "".into(),
                            tie: "search_slice (exhaustive enumeration) vs grep model (Spec/Grep.lean)".into(),
                            case: line(),
                            detail: format!("[{} path={} input {:?}] impl {} spec {}", cfg.token(), path, show(input), imp, spec),
                        });
                    }
                }
            }
            for (j, &i) in midx.iter().enumerate() {
                if imps[i] != models[j] {
                    *sh.branches.entry("exhaustive:mismatch:impl_vs_model".to_string()).or_insert(0) += 1;
                    if sh.violations.len() < 10 {
                        sh.violations.push(Violation {
                            kind: "impl_vs_model".into(),
                            class: "".into(),
                            tie: "search_slice (exhaustive enumeration) vs Lean model searchSlice".into(),
                            case: Case { cfg: cfg.clone(), m: mspec.clone(), input: inputs[i].clone(), script: None }.line(),
                            detail: format!("[{} path={} input {:?}] impl {} model {}", cfg.token(), path, show(&inputs[i]), imps[i], models[j]),
                        });
                    }
                }
            }
        }
    }
    sh.completed = true;
    sh
}

fn exhaustive(args: &Args, rep: &mut Report, max_n: usize, threads: usize) {
    let mut cfgs = vec![];
    for &lt in &[Lt::Lf, Lt::Crlf, Lt::Nul] {
        for a in 0..=3 {
            for b in 0..=3 {
                for &inv in &[false, true] {
                    for &pt in &[false, true] {
                        for &fin in &[true, false] {
                            for &fast in &[false, true] {
                                cfgs.push(ExCfg { lt, a, b, inv, pt, fin, fast });
                            }
                        }
                    }
                }
            }
        }
    }
    let shards: Vec<Vec<ExCfg>> =
        (0..threads).map(|t| cfgs.iter().enumerate().filter(|(i, _)| i % threads == t).map(|(_, c)| c.clone()).collect()).collect();
    let results: Vec<Shard> = std::thread::scope(|s| {
        let hs: Vec<_> = shards.iter().map(|sh| s.spawn(|| exhaustive_shard(&args.driver, sh, max_n))).collect();
        hs.into_iter()
            .map(|h| {
                h.join().unwrap_or(Shard {
                    evals: 0,
                    model_evals: 0,
                    branches: BTreeMap::new(),
                    violations: vec![],
                    nontrivial: vec![],
                    completed: false,
                })
            })
            .collect()
    });
    let mut all = true;
    let mut total = 0;
    let mut mtotal = 0;
    for sh in results {
        all &= sh.completed;
        total += sh.evals;
        mtotal += sh.model_evals;
        rep.evaluations += sh.evals;
        for (k, v) in sh.branches {
            *rep.branches.entry(k).or_insert(0) += v;
        }
        for h in sh.nontrivial {
            rep.nontrivial.insert(h);
        }
        for v in sh.violations {
            rep.violation(v);
        }
    }
    rep.exhaustive = all;
    rep.notes.push(format!(
        "exhaustive enumeration: {} configurations x all selection patterns over 0..={} lines = {} cases (impl vs spec), {} of them also against the model; completed={}",
        cfgs.len(),
        max_n,
        total,
        mtotal,
        all
    ));
}

// ---------------------------------------------------------------- the multi-line strategy under the grep model

/// `ml03 <cfg (m1, not inverted)> <pattern-hex> <input-hex>`: the same grep model (context windows, separators,
/// passthru, numbering, byte count) when the searcher runs its multi-line strategy: a real RegexMatcher built as under
/// `-U`, patterns that can match the terminator and the empty string (`^$`, `x*`, `\s*`, …, which also "match" the
/// empty position behind the final terminator), non-matching lines after the last real match. impl vs Lean model vs
/// `mlSpec`; reader and path strategies vs the slice strategy.
fn run_ml03(line: &str, ctx: &mut Ctx) {
    let p: Vec<&str> = line.split_whitespace().collect();
    let parsed = (|| {
        if p.len() != 4 {
            return None;
        }
        Some((Cfg::parse_token(p[1])?, String::from_utf8(unhex(p[2])?).ok()?, unhex(p[3])?))
    })();
    let Some((cfg0, pattern, input)) = parsed else {
        ctx.rep.violation(Violation {
            kind: "impl_vs_model".into(),
            class: "".into(),
            tie: "harness".into(),
            case: line.to_string(),
            detail: "unparsable ml03 case line".into(),
        });
        return;
    };
    ctx.rep.eval();
    let cfg = cfg0.effective();
    let mut b = grep_regex::RegexMatcherBuilder::new();
    b.multi_line(true).unicode(true).octal(false);
    if cfg.lt == Lt::Crlf {
        b.crlf(true).line_terminator(None);
    }
    let m = match b.build(&pattern) {
        Ok(m) => m,
        Err(_) => {
            ctx.rep.branch("ml03:pattern-rejected");
            return;
        }
    };
    let (tsx, _) = table_sx(&m, &cfg, &input);
    let head = table_head_sx(&m);
    let (csx, inp) = (cfg.to_sx(), hex(&input));
    let path = ctx.drv.ask(&format!("c03.path {} {}", csx, head));
    let model = ctx.drv.ask(&format!("c03.model {} {} {} (sink all)", csx, tsx, inp));
    let mut s = cfg.searcher();
    let imp = run_with(&mut s, &m, &input, Script::All, &Strategy::Slice).0;
    ctx.rep.branch(&format!("ml03:path:{}", path));
    let what = format!("{:?} on {:?} [{}]", pattern, show(&input), cfg.token());
    if imp != model {
        ctx.rep.violation(Violation {
            kind: "impl_vs_model".into(),
            class: "".into(),
            tie: "Sink event stream of search_slice (multi-line strategy) vs Lean model searchSlice".into(),
            case: line.to_string(),
            detail: format!("{}: impl {} model {}", what, imp, model),
        });
    }
    ctx.files += 1;
    let f = scratch_file(&ctx.scratch, &format!("c03-ml-{}.txt", ctx.files % 64), &input);
    for st in [Strategy::Reader(1), Strategy::Reader(5), Strategy::Path(f)] {
        let other = run_with(&mut s, &m, &input, Script::All, &st).0;
        if other != imp {
            ctx.rep.violation(Violation {
                kind: "impl_vs_spec".into(),
                class: "".into(),
                tie: format!("{} strategy vs slice strategy (multi-line)", st.name()),
                case: line.to_string(),
                detail: format!("{}: {} gives {} slice gives {}", what, st.name(), other, imp),
            });
        }
    }
    if path != "multi" {
        return; // downgraded to line-by-line search: the main streams cover it
    }
    let spec = ctx.drv.ask(&format!("c03.mlspec {} {} {}", csx, tsx, inp));
    if is_driver_error(&spec) {
        ctx.rep.violation(Violation {
            kind: "impl_vs_model".into(),
            class: "".into(),
            tie: "driver c03.mlspec".into(),
            case: line.to_string(),
            detail: format!("driver answered {}", spec),
        });
        return;
    }
    if imp.contains(";c ") {
        ctx.rep.branch("ml03:context-delivered");
    }
    if input.last() == Some(&cfg.lt.byte()) && m.find_at(&input, input.len()).ok().flatten().is_some() {
        ctx.rep.branch("ml03:empty-match-behind-final-terminator");
    }
    if imp != spec {
        ctx.rep.violation(Violation {
            kind: "impl_vs_spec".into(),
            class: "".into(),
            tie: "multi-line strategy: Sink event stream vs the grep model over the lines covered by the matches (mlSpec)".into(),
            case: line.to_string(),
            detail: format!("{}: impl {} spec {}", what, imp, spec),
        });
    }
    if !is_driver_error(&model) && model != spec {
        ctx.rep.violation(Violation {
            kind: "model_vs_spec".into(),
            class: "".into(),
            tie: "theorem C13_context contradicted".into(),
            case: line.to_string(),
            detail: format!("{}: model {} spec {}", what, model, spec),
        });
    }
}

fn ml03_case(rng: &mut Rng) -> String {
    let lt = *rng.pick(&[Lt::Lf, Lt::Lf, Lt::Crlf]);
    let cfg = Cfg { lt, inv: false, a: gen_ctx(rng, 3), b: gen_ctx(rng, 3), pt: rng.chance(1, 5), ln: rng.chance(3, 4), son: false, ml: true, bin: Bin::None };
    let pats = [
        "^$", "x*", "\\s*", "a\\n", "\\n", "a\\nb", "(?s)a.b", "^", "$", "b?\\n?", "(?:a|\\n)*", "\\n+", "a|^$", "^a?$", "[ab]*$", "\\s+", "a*\\n?",
        "(?s)b.*a", "^\\s*$", "b|\\z",
    ];
    let pat = *rng.pick(&pats);
    let words = ["a", "b", "", "ab", "c", "x a", "ba", " ", "cc"];
    let nl = rng.range(0, 7);
    let mut input = vec![];
    for i in 0..nl {
        input.extend_from_slice(rng.pick(&words).as_bytes());
        if i + 1 < nl || rng.chance(5, 6) {
            input.extend_from_slice(lt.bytes());
        }
    }
    format!("ml03 {} {} {}", cfg.token(), hex(pat.as_bytes()), hex(&input))
}

fn main() {
    let args = parse_args();
    let drv = Driver::spawn(&args.driver);
    let rep = Report::new(
        "C03",
        "Cases: literal matcher over structured lines (selection controlled per line; LF/CRLF/NUL, A,B in 0..4, invert, passthru, \
         stop-on-nonmatch, line numbers on/off, slow path / fast path by terminator / fast path by non-matching bytes, candidate \
         prefilter), a boundary stream, and real RegexMatcher over safe patterns (table matcher in the model). Compared: Sink event \
         streams of search_slice vs Lean model vs grep model; search_reader (1-byte and small chunks) and search_path (mmap / no \
         mmap) vs grep model (byte count after stop_on_nonmatch canonicalised: F10 belongs to C02). Non-trivial = the stream has at \
         least two delivered groups separated by a break and at least one context line. Distinct by case text. Thorough tier adds \
         the exhaustive enumeration of all selection patterns over <= 10 lines. A further stream runs the multi-line strategy (real \
         RegexMatcher as under -U; patterns that match the terminator and the empty string, also behind the final terminator; A,B in 0..3, \
         passthru) against the Lean model and the grep model over the covered lines (mlSpec), slice / reader / path.",
    );
    let mut ctx = Ctx { drv, rep, scratch: args.scratch.clone(), files: 0, searchers: Default::default() };
    for c in corpus_cases(&args) {
        run_case(&c, &mut ctx, false);
    }
    if args.replay.is_none() {
        let mut rng = Rng::new(args.seed);
        let n = args.cases.unwrap_or(if args.thorough { 160000 } else { 16000 });
        let mut batch: Vec<Prep> = vec![];
        for i in 0..n {
            let case = match i % 10 {
                0 => boundary_case(&mut rng, i / 10),
                1 | 4 | 7 => regex_case(&mut rng),
                _ => lit_case(&mut rng),
            };
            if i < 9 {
                ctx.rep.sample(case.clone());
            }
            if i % 25 == 3 {
                let h = history_case(&mut rng);
                run_history(&h, &mut ctx);
            }
            if i % 10 == 5 {
                let c = ml03_case(&mut rng);
                run_ml03(&c, &mut ctx);
            }
            if let Some(p) = prepare(&case, &mut ctx, true) {
                batch.push(p);
            }
            if batch.len() >= 48 {
                flush(&mut batch, &mut ctx);
            }
        }
        flush(&mut batch, &mut ctx);
        if args.thorough && args.cases.is_none() {
            exhaustive(&args, &mut ctx.rep, 10, 6);
        }
    }
    ctx.rep.write(&args);
}
