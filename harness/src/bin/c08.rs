//! C08 — multi-threaded output is a permutation of the single-threaded per-file blocks.
//!
//! tree … a generated tree (1-40 files of very different sizes, nested directories, optionally a slow
//!        `--pre` on some files) searched with `rg -j1` once and `rg -jN` (N in 2..16) repeatedly, in every
//!        output mode; both outputs are split into per-file blocks (by the path each line carries), then
//!        (C) reassembled by the Lean model (`c08.seq` for -j1: printer-owned separator; `c08.par` for -jN:
//!        termcolor BufferWriter) and compared byte for byte with what rg wrote, and (F) compared with each
//!        other as multisets of blocks + contiguity + separator placement + exit status.
//! sort … `--sort path` with -jN equals the -j1 output exactly, on every repetition.
//! nulldata … the two-file witness of F11 under --null-data.
use rgverif_harness::*;
use std::collections::{BTreeMap, BTreeSet};
use std::path::PathBuf;
use std::process::Command;

#[path = "../cli_common.rs"]
mod cli_common;
use cli_common::*;

const CLASS_F11: &str = "context-separator-terminator-under-crlf-or-null-data";

/// Cuts the `--stats` trailer (a blank line, then 8 counter lines) off the end of `out`.
fn split_stats(out: &[u8]) -> Option<(Vec<u8>, Vec<u8>)> {
    let lines = split_lines(out);
    if lines.len() < 9 {
        return None;
    }
    let tail = &lines[lines.len() - 9..];
    let is_counter = |l: &[u8], what: &str| {
        let t = String::from_utf8_lossy(l);
        let t = t.trim_end_matches('\n');
        t.strip_suffix(what).map_or(false, |n| !n.is_empty() && n.bytes().all(|b| b.is_ascii_digit()))
    };
    if tail[0] != b"\n" || !is_counter(tail[1], " matches") || !is_counter(tail[2], " matched lines")
        || !is_counter(tail[3], " files contained matches") || !is_counter(tail[4], " files searched")
        || !is_counter(tail[5], " bytes printed") || !is_counter(tail[6], " bytes searched") {
        return None;
    }
    let cut: usize = lines[..lines.len() - 9].iter().map(|l| l.len()).sum();
    Some((out[..cut].to_vec(), out[cut..].to_vec()))
}

/// --json: the summary message's counters (timings removed)
fn json_summary(out: &[u8]) -> Option<String> {
    split_lines(out).iter().rev().filter_map(|l| serde_json::from_slice::<serde_json::Value>(l).ok()).find(|v| v["type"] == "summary").map(|mut v| {
        if let Some(o) = v["data"]["stats"].as_object_mut() { o.remove("elapsed"); }
        v["data"]["stats"].to_string()
    })
}

/// the schedule-independent counters of a trailer: matches, matched lines, files with matches, files searched, bytes searched
fn stats_counters(trailer: &[u8]) -> Vec<String> {
    let l = split_lines(trailer);
    [1usize, 2, 3, 4, 6].iter().filter_map(|i| l.get(*i)).map(|x| String::from_utf8_lossy(x).trim_end().to_string()).collect()
}

/// the block is nothing but `path: binary file matches (found …)`
fn is_binmsg(path: &str, block: &[u8]) -> bool {
    block.starts_with(format!("{}: binary file matches (found", path).as_bytes()) && split_lines(block).len() == 1
}

struct Ctx {
    rg: PathBuf,
    scratch: PathBuf,
    counter: usize,
}

const MODES: &[&str] = &["nohead", "nohead-ctx", "heading", "heading-ctx", "count", "count-matches", "l", "files-without-match", "json", "files", "nohead-o"];
/// extra context flag crossed with every mode (the summary / JSON modes must ignore it)
const CTXS: &[&str] = &["0", "0", "A2", "B1", "C1"];

fn gen_tree_case(rng: &mut Rng, thorough: bool) -> String {
    let mode = *rng.pick(MODES);
    let crlf = matches!(mode, "nohead" | "nohead-ctx" | "heading" | "heading-ctx") && rng.chance(1, 8);
    let ctx = if mode == "files" { "0" } else { *rng.pick(CTXS) };
    let null = mode != "json" && rng.chance(1, 6);
    let stats = mode != "files" && mode != "json" && rng.chance(1, 5);
    let mc = if mode != "files" && rng.chance(1, 6) { rng.range(1, 3) } else { 0 };
    format!(
        "tree seed={} mode={} ctx={} ln={} null={} stats={} mc={} roots={} links={} bin={} files={} big={} slow={} crlf={} reps={}",
        rng.below(1 << 30),
        mode,
        ctx,
        (mode != "files" && rng.chance(1, 4)) as u8,
        null as u8,
        stats as u8,
        mc,
        rng.chance(1, 3) as u8,
        rng.chance(1, 4) as u8,
        rng.chance(1, 4) as u8,
        if rng.chance(1, 6) { rng.range(0, 2) } else { rng.range(2, 40) },
        rng.chance(1, 3) as u8,
        rng.chance(1, 6) as u8,
        crlf as u8,
        if thorough { 6 } else { 2 }
    )
}

struct Tree {
    names: Vec<String>,
}

fn build_tree(root: &std::path::Path, seed: u64, nfiles: usize, big: bool, crlf: bool) -> Tree {
    let mut rng = Rng::new(seed ^ 0xC08);
    let mut names = vec![];
    let eol = if crlf { "\r\n" } else { "\n" };
    for i in 0..nfiles {
        let depth = rng.below(3);
        let mut rel = String::new();
        for d in 0..depth {
            rel.push_str(&format!("d{}{}/", d, rng.below(2)));
        }
        std::fs::create_dir_all(root.join(&rel)).unwrap();
        rel.push_str(&format!("f{:02}.txt", i));
        let lines = match rng.below(10) {
            0 => 0,
            1..=5 => rng.range(1, 8),
            6..=8 => rng.range(20, 200),
            _ => if big { rng.range(1500, 4000) } else { rng.range(200, 600) },
        };
        let density = *rng.pick(&[0usize, 2, 10, 30, 90]);
        let mut s = String::new();
        for l in 0..lines {
            if rng.below(100) < density {
                s.push_str(&format!("w{} needle in line {} of file {}{}", rng.below(1000), l, i, eol));
            } else {
                s.push_str(&format!("w{} plain line {} of file {}{}", rng.below(1000), l, i, eol));
            }
        }
        std::fs::write(root.join(&rel), s).unwrap();
        names.push(rel);
    }
    Tree { names }
}

fn mode_args(mode: &str) -> Vec<&'static str> {
    let mut v = vec!["--color", "never", "--no-config", "--no-line-number"];
    match mode {
        "nohead" => v.extend(["--no-heading", "--with-filename"]),
        "nohead-o" => v.extend(["--no-heading", "--with-filename", "-o"]),
        "nohead-ctx" => v.extend(["--no-heading", "--with-filename", "-C1"]),
        "heading" => v.extend(["--heading", "--with-filename"]),
        "heading-ctx" => v.extend(["--heading", "--with-filename", "-C1"]),
        "count" => v.extend(["-c", "--with-filename"]),
        "count-matches" => v.extend(["--count-matches", "--with-filename"]),
        "files-without-match" => v.push("--files-without-match"),
        "l" => v.push("-l"),
        "json" => v.push("--json"),
        "files" => v.push("--files"),
        _ => {}
    }
    v
}

#[derive(Debug)]
struct Parsed {
    blocks: Vec<(String, Vec<u8>)>,
    /// separator line (with its terminator) found between consecutive blocks; `None` = nothing in between
    seps: Vec<Option<Vec<u8>>>,
    /// anything before the first / after the last block that is not part of a block
    stray: Vec<Vec<u8>>,
    /// the tagged modes: every line as `s` (separator) or `dN` (a line of file number N)
    tags: Vec<String>,
}

fn split_lines(out: &[u8]) -> Vec<&[u8]> {
    let mut v = vec![];
    let mut s = 0;
    for (i, b) in out.iter().enumerate() {
        if *b == b'\n' {
            v.push(&out[s..=i]);
            s = i + 1;
        }
    }
    if s < out.len() {
        v.push(&out[s..]);
    }
    v
}

fn strip_eol(l: &[u8]) -> &[u8] {
    let l = l.strip_suffix(b"\n").unwrap_or(l);
    l.strip_suffix(b"\r").unwrap_or(l)
}

/// The block grammar of each mode; `names` are the files of the tree (paths as rg prints them).
fn parse(mode: &str, out: &[u8], names: &BTreeSet<String>) -> Result<Parsed, String> {
    let mut p = Parsed { blocks: vec![], seps: vec![], stray: vec![], tags: vec![] };
    let mut pending: Vec<Vec<u8>> = vec![]; // separator-looking lines whose role is not yet known
    let push_line = |p: &mut Parsed, pending: &mut Vec<Vec<u8>>, path: &str, line: &[u8]| {
        let same = p.blocks.last().map_or(false, |(q, _)| q == path);
        if same {
            let b = &mut p.blocks.last_mut().unwrap().1;
            for s in pending.drain(..) {
                b.extend_from_slice(&s); // a separator inside a file's results (between context groups)
            }
            b.extend_from_slice(line);
        } else {
            if p.blocks.is_empty() {
                p.stray.extend(pending.drain(..));
            } else {
                let mut it = pending.drain(..);
                p.seps.push(it.next());
                p.stray.extend(it);
            }
            p.blocks.push((path.to_string(), line.to_vec()));
        }
    };
    match mode {
        "nohead" | "nohead-ctx" | "nohead-o" | "count" | "count-matches" | "l" | "files-without-match" | "files" => {
            for line in split_lines(out) {
                let body = strip_eol(line);
                if body == b"--" {
                    pending.push(line.to_vec());
                    p.tags.push("s".into());
                    continue;
                }
                let text = String::from_utf8_lossy(body);
                // the path a line carries: the longest known name followed by ':' / '-' / end of line
                let path = names
                    .iter()
                    .filter(|n| {
                        text.starts_with(n.as_str())
                            && matches!(text.as_bytes().get(n.len()), None | Some(b':') | Some(b'-') | Some(0))
                    })
                    .max_by_key(|n| n.len());
                match path {
                    Some(path) => {
                        p.tags.push(format!("d{}", names.iter().position(|n| n == path).unwrap_or(0)));
                        if matches!(mode, "count" | "count-matches" | "l" | "files-without-match" | "files") {
                            // one line per file: every line is a block of its own
                            if !p.blocks.is_empty() {
                                p.seps.push(pending.pop());
                            }
                            p.stray.extend(pending.drain(..));
                            p.blocks.push((path.clone(), line.to_vec()));
                        } else {
                            push_line(&mut p, &mut pending, path, line);
                        }
                    }
                    None => return Err(format!("line without a known path: {}", show(&line[..line.len().min(120)]))),
                }
            }
        }
        "heading" | "heading-ctx" => {
            let mut cur: Option<String> = None;
            for line in split_lines(out) {
                let body = strip_eol(line);
                if body.is_empty() {
                    // the blank line ("" ++ terminator) between two files
                    pending.push(line.to_vec());
                    p.tags.push("z".into());
                    cur = None;
                    continue;
                }
                let mut text = String::from_utf8_lossy(body).to_string();
                if cur.is_none() {
                    // --null: the heading is `path NUL`, without a line terminator: the first result follows on the same line
                    if let Some(k) = text.find('\0') { text.truncate(k); }
                }
                // `path: binary file matches (…)` is a block of its own, with or without a blank line before it
                if let Some(name) = names.iter().find(|nm| text.starts_with(&format!("{}: binary file matches (found", nm))) {
                    if p.blocks.is_empty() {
                        p.stray.extend(pending.drain(..));
                    } else {
                        let mut it = pending.drain(..);
                        p.seps.push(it.next());
                        p.stray.extend(it);
                    }
                    p.tags.push(format!("h{}", names.iter().position(|n| n == name).unwrap_or(0)));
                    p.blocks.push((name.clone(), line.to_vec()));
                    cur = Some(name.clone());
                    continue;
                }
                if cur.is_none() {
                    if !names.contains(&text) {
                        return Err(format!("expected a path heading, found: {}", show(&line[..line.len().min(120)])));
                    }
                    if p.blocks.iter().any(|(q, _)| *q == text) {
                        // second block for the same path: keep it separate so that contiguity fails below
                    }
                    if p.blocks.is_empty() {
                        p.stray.extend(pending.drain(..));
                    } else {
                        let mut it = pending.drain(..);
                        p.seps.push(it.next());
                        p.stray.extend(it);
                    }
                    p.tags.push(format!("h{}", names.iter().position(|n| *n == text).unwrap_or(0)));
                    p.blocks.push((text.clone(), line.to_vec()));
                    cur = Some(text);
                } else {
                    p.tags.push("b".into());
                    p.blocks.last_mut().unwrap().1.extend_from_slice(line);
                }
            }
        }
        "json" => {
            for line in split_lines(out) {
                let v: serde_json::Value = serde_json::from_slice(line).map_err(|e| format!("bad JSON line: {}", e))?;
                let ty = v["type"].as_str().unwrap_or("").to_string();
                if ty == "summary" {
                    continue; // run-wide statistics with timings: not part of any file's block
                }
                let path = v["data"]["path"]["text"].as_str().ok_or("JSON line without path")?.to_string();
                // timings are the only non-deterministic content of a block
                let mut v = v;
                if let Some(stats) = v["data"].get_mut("stats") {
                    if let Some(o) = stats.as_object_mut() {
                        o.remove("elapsed");
                    }
                }
                let canon = serde_json::to_vec(&v).unwrap();
                let mut canon_line = canon;
                canon_line.push(b'\n');
                if ty == "begin" || p.blocks.last().map_or(true, |(q, _)| *q != path) {
                    if !p.blocks.is_empty() {
                        p.seps.push(None);
                    }
                    p.blocks.push((path, canon_line));
                } else {
                    p.blocks.last_mut().unwrap().1.extend_from_slice(&canon_line);
                }
            }
        }
        _ => return Err(format!("unknown mode {}", mode)),
    }
    p.stray.extend(pending.drain(..));
    Ok(p)
}

fn sep_sx(mode: &str, ctx: &str, drv: &mut Driver) -> String {
    let c = (ctx != "0" || mode.ends_with("-ctx")) as u8;
    let (m, heading) = match mode {
        "nohead" | "nohead-o" | "nohead-ctx" => ("standard", 0),
        "heading" | "heading-ctx" => ("standard", 1),
        _ => ("other", 0),
    };
    drv.ask(&format!("c08.filesep {} {} {} 2d2d", m, heading, c))
}

fn blocks_sx(blocks: &[(String, Vec<u8>)]) -> String {
    let v: Vec<String> = blocks.iter().map(|(_, b)| hex(b)).collect();
    format!("(blocks {})", v.join(" "))
}

/// For JSON the comparison is on canonicalised bytes (timings removed).
fn canon_out(mode: &str, out: &[u8], names: &BTreeSet<String>) -> Vec<u8> {
    if mode != "json" {
        return out.to_vec();
    }
    match parse(mode, out, names) {
        Ok(p) => p.blocks.iter().flat_map(|(_, b)| b.clone()).collect(),
        Err(_) => out.to_vec(),
    }
}

fn run_tree(case: &str, ctx: &mut Ctx, drv: &mut Driver, rep: &mut Report) {
    let f = fields(case);
    let num = |k: &str| f.get(k).and_then(|v| v.parse::<u64>().ok());
    let (Some(seed), Some(mode), Some(nfiles), Some(big), Some(slow), Some(crlf), Some(reps)) =
        (num("seed"), f.get("mode"), num("files"), num("big"), num("slow"), num("crlf"), num("reps")) else {
        rep.notes.push(format!("unparsable case: {}", case));
        return;
    };
    let mode = mode.as_str();
    let cflag = f.get("ctx").map_or("0", |v| v.as_str());
    let (ln, null, roots) = (num("ln").unwrap_or(0), num("null").unwrap_or(0), num("roots").unwrap_or(0));
    let (stats, mc) = (num("stats").unwrap_or(0) == 1 && mode != "files" && mode != "json", num("mc").unwrap_or(0));
    // --null in the path-only modes: every path ends in NUL instead of a newline
    let path_nul = null == 1 && matches!(mode, "l" | "files" | "files-without-match");
    if !MODES.contains(&mode) || !CTXS.contains(&cflag) {
        rep.notes.push(format!("unparsable case: {}", case));
        return;
    }
    ctx.counter += 1;
    let dir = fresh_dir(&ctx.scratch, &format!("t{}", ctx.counter));
    let mut tree = build_tree(&dir, seed, nfiles as usize, big == 1, crlf == 1);
    let (links, binf) = (num("links").unwrap_or(0), num("bin").unwrap_or(0));
    if links == 1 {
        // symlinks to files above and below --max-filesize, followed with -L
        let mut extra = vec![];
        for (i, n) in tree.names.iter().enumerate() {
            if (seed as usize + i) % 3 == 0 {
                let (d, base) = match n.rfind('/') { Some(k) => (&n[..=k], &n[k + 1..]), None => ("", n.as_str()) };
                let l = format!("{}l{}", d, &base[1..]);
                if std::os::unix::fs::symlink(base, dir.join(&l)).is_ok() { extra.push(l); }
            }
        }
        tree.names.extend(extra);
        rep.branch("symlinks+max-filesize");
    }
    if binf == 1 {
        // binary files (a NUL before the match): dropped when found by traversal, reported when named explicitly
        let mut extra = vec![];
        for (i, n) in tree.names.clone().iter().enumerate().take(12) {
            if (seed as usize + i) % 2 == 0 && !n.contains("/l") && !n.starts_with('l') {
                let (d, base) = match n.rfind('/') { Some(k) => (&n[..=k], &n[k + 1..]), None => ("", n.as_str()) };
                let b = format!("{}b{}", d, &base[1..]);
                std::fs::write(dir.join(&b), format!("bin\0ary needle {}\nneedle again\n", i)).unwrap();
                extra.push(b);
            }
        }
        tree.names.extend(extra);
        rep.branch("binary-files");
    }
    let names: BTreeSet<String> = tree.names.iter().cloned().collect();
    // several root paths (files and directories, usually more than threads) instead of the implicit "."
    let root_args: Vec<String> = if roots == 1 {
        let mut v: Vec<String> = names.iter().map(|n| n.split('/').next().unwrap().to_string()).collect();
        v.sort();
        v.dedup();
        // explicitly named files first, directories after them
        v.sort_by_key(|r| (dir.join(r).is_dir(), r.clone()));
        if v.len() < 2 { vec![] } else { v }
    } else {
        vec![]
    };
    if !root_args.is_empty() { rep.branch(if root_args.len() > 3 { "roots:more-than-3" } else { "roots:2-3" }); }
    if cflag != "0" { rep.branch(&format!("ctx-flag:{}:{}", cflag, if mode.starts_with("nohead") || mode.starts_with("heading") { "standard" } else { "summary-or-json" })); }
    let script = ctx.scratch.join("slowpre.sh");
    if !script.exists() {
        // perturbs the timing only: every third file (by the digit before ".txt") is delayed
        write_script(&script, "case \"$1\" in *[147].txt) sleep 0.03 ;; esac\nexec cat");
    }
    let mk = |threads: usize, extra: &[&str]| -> Command {
        let mut c = Command::new(&ctx.rg);
        c.current_dir(&dir).args(mode_args(mode)).arg(format!("-j{}", threads)).args(extra);
        if cflag != "0" { c.arg(format!("-{}", cflag)); }
        if ln == 1 { c.arg("-n"); }
        if null == 1 { c.arg("--null"); }
        if stats { c.arg("--stats"); }
        if mc > 0 && mode != "files" { c.arg("-m").arg(mc.to_string()); }
        if links == 1 { c.args(["-L", "--max-filesize", "500"]); }
        if crlf == 1 { c.arg("--crlf"); }
        if slow == 1 && mode != "files" { c.arg("--pre").arg(&script); }
        if mode != "files" { c.arg("needle"); }
        c.args(&root_args);
        c
    };
    let sep = sep_sx(mode, cflag, drv);
    let term = if crlf == 1 { "0d0a" } else { "0a" };
    let guard = drv.ask(&format!("c08.guard {} {}", sep, term)) == "1";
    // what is compared as blocks: the output with NUL path terminators read as newlines, and without the --stats trailer
    let prepare = |o: &mut RunOut| -> Result<Option<Vec<u8>>, String> {
        if path_nul {
            for b in o.stdout.iter_mut() { if *b == 0 { *b = b'\n'; } }
        }
        if !stats { return Ok(None); }
        match split_stats(&o.stdout) {
            Some((body, trailer)) => { o.stdout = body; Ok(Some(trailer)) }
            None => Err(format!("--stats: the output does not end in the statistics trailer; it ends {}", show(&o.stdout[o.stdout.len().saturating_sub(200)..]))),
        }
    };
    if path_nul { rep.branch("null:path-only-mode"); }
    if stats { rep.branch("stats"); }
    if mc > 0 { rep.branch("max-count"); }
    let mut out1 = run_cmd(&mut mk(1, &[]), None);
    rep.eval();
    let trailer1 = match prepare(&mut out1) {
        Ok(t) => t,
        Err(e) => {
            rep.violation(Violation { kind: "impl_vs_spec".into(), class: "".into(), tie: "-j1 --stats trailer".into(), case: case.to_string(), detail: e });
            remove_tree(&dir);
            return;
        }
    };
    let p1 = match parse(mode, &out1.stdout, &names) {
        Ok(p) => p,
        Err(e) => {
            rep.violation(Violation {
                kind: "impl_vs_model".into(), class: "".into(), tie: "block grammar of the -j1 output".into(),
                case: case.to_string(), detail: e,
            });
            remove_tree(&dir);
            return;
        }
    };
    rep.branch(&format!("mode:{}", mode));
    if p1.blocks.len() >= 2 { rep.nontrivial(case); }
    if slow == 1 { rep.branch("slow-pre"); }
    if crlf == 1 { rep.branch("crlf"); }
    // C (single-threaded path): the model rebuilds the -j1 output from its blocks
    let items1: Vec<String> = p1.blocks.iter().map(|(path, b)| format!("({} {})", hex(b), is_binmsg(path, b) as u8)).collect();
    let m1 = drv.ask(&format!("c08.seqb {} {} (items {})", sep, term, items1.join(" ")));
    if unhex(&m1).map_or(true, |m| m != canon_out(mode, &out1.stdout, &names)) {
        rep.violation(Violation {
            kind: "impl_vs_model".into(), class: "".into(),
            tie: "rg -j1 output vs Model.BufWriter.outSeqB over its blocks (theorems seq_output, C08_binary)".into(),
            case: case.to_string(),
            detail: format!("the -j1 output is not its blocks joined by the printer-owned separator; stdout starts {}", show(&out1.stdout[..out1.stdout.len().min(200)])),
        });
    }
    let blocks1: BTreeMap<String, Vec<u8>> = p1.blocks.iter().cloned().collect();
    if blocks1.len() != p1.blocks.len() {
        rep.violation(Violation {
            kind: "impl_vs_spec".into(), class: "".into(), tie: "-j1: one contiguous block per file".into(),
            case: case.to_string(), detail: "a file is reported in two separate places in the -j1 output".into(),
        });
    }
    let mut orders: BTreeSet<Vec<String>> = BTreeSet::new();
    for r in 0..reps {
        // with several roots: few threads first (more roots than threads), then any
        let n = if !root_args.is_empty() && r < 2 { 2 + r as usize } else { 2 + ((seed as usize + 5 * r as usize) % 15) };
        let mut outn = run_cmd(&mut mk(n, &[]), None);
        rep.eval();
        rep.branch(&format!("threads:{}", n));
        let trailern = match prepare(&mut outn) {
            Ok(t) => t,
            Err(e) => {
                rep.violation(Violation { kind: "impl_vs_spec".into(), class: "".into(), tie: "-jN --stats trailer".into(), case: case.to_string(), detail: format!("-j{}: {}", n, e) });
                continue;
            }
        };
        let pn = match parse(mode, &outn.stdout, &names) {
            Ok(p) => p,
            Err(e) => {
                rep.violation(Violation {
                    kind: "impl_vs_spec".into(), class: "".into(), tie: "every line of the -jN output belongs to a file's block".into(),
                    case: case.to_string(), detail: format!("-j{}: {}", n, e),
                });
                continue;
            }
        };
        orders.insert(pn.blocks.iter().map(|(p, _)| p.clone()).collect());
        // the cut itself: the Lean parser of the block grammar (theorem parse_join) must cut at the same places
        if matches!(mode, "heading" | "heading-ctx") && pn.tags.len() < 20000 {
            let reply = drv.ask(&format!("c08.parseh (lines {})", pn.tags.join(" ")));
            let mine = format!(
                "blocks [{}] gaps [{}] stray {} 0 bad 0",
                pn.blocks.iter().map(|(path, b)| format!("{}:{}", names.iter().position(|x| x == path).unwrap_or(0), split_lines(b).len())).collect::<Vec<_>>().join(" "),
                pn.seps.iter().map(|s| if s.is_some() { "1" } else { "0" }).collect::<Vec<_>>().join(" "),
                0
            );
            rep.branch("grammar-cut-compared:heading");
            if reply != mine && pn.stray.is_empty() {
                rep.violation(Violation {
                    kind: "impl_vs_model".into(), class: "".into(),
                    tie: "the harness's cut of the --heading output into blocks vs BlockSpec.parseH (theorem parse_join_heading)".into(),
                    case: case.to_string(), detail: format!("harness: {} / model: {}", &mine[..mine.len().min(200)], &reply[..reply.len().min(200)]),
                });
            }
        }
        if matches!(mode, "nohead" | "nohead-ctx" | "nohead-o") && null == 0 && pn.tags.len() < 20000 {
            let reply = drv.ask(&format!("c08.parse (lines {})", pn.tags.join(" ")));
            let mine = format!(
                "blocks [{}] gaps [{}] stray {} 0",
                pn.blocks.iter().map(|(path, b)| format!("{}:{}", names.iter().position(|x| x == path).unwrap_or(0), split_lines(b).len())).collect::<Vec<_>>().join(" "),
                pn.seps.iter().map(|s| if s.is_some() { "1" } else { "0" }).collect::<Vec<_>>().join(" "),
                0
            );
            rep.branch("grammar-cut-compared");
            if reply != mine && pn.stray.is_empty() {
                rep.violation(Violation {
                    kind: "impl_vs_model".into(), class: "".into(),
                    tie: "the harness's cut of the output into blocks vs BlockSpec.parse (theorem parse_join)".into(),
                    case: case.to_string(), detail: format!("harness: {} / model: {}", &mine[..mine.len().min(200)], &reply[..reply.len().min(200)]),
                });
            }
        }
        // C (multi-threaded path): the model rebuilds the -jN output from its blocks in the observed lock order
        // (with --stats the trailer follows straight on stdout: Model.BufWriter.outParStats, theorem C08_stats)
        let (mn, fulln) = match &trailern {
            Some(t) => {
                let mut full = outn.stdout.clone();
                full.extend_from_slice(t);
                (drv.ask(&format!("c08.parstats {} {} {}", sep, blocks_sx(&pn.blocks), hex(t))), full)
            }
            None => (drv.ask(&format!("c08.par {} {}", sep, blocks_sx(&pn.blocks))), canon_out(mode, &outn.stdout, &names)),
        };
        if unhex(&mn).map_or(true, |m| m != fulln) {
            rep.violation(Violation {
                kind: "impl_vs_model".into(), class: "".into(),
                tie: "rg -jN output vs Model.BufWriter.outPar over its blocks in lock order (theorem par_output)".into(),
                case: case.to_string(),
                detail: format!("-j{}: the output is not its blocks joined by BufferWriter's separator; stdout starts {}", n, show(&outn.stdout[..outn.stdout.len().min(200)])),
            });
        }
        // F: permutation of blocks, contiguity, separators, exit status
        let mut problems: Vec<(String, &'static str)> = vec![];
        let mut seen: BTreeSet<&String> = BTreeSet::new();
        for (path, b) in &pn.blocks {
            if !seen.insert(path) {
                problems.push((format!("{} is reported in two separate places (not contiguous)", path), ""));
            }
            match blocks1.get(path) {
                None => problems.push((format!("{} has output with -j{} but none with -j1", path, n), "")),
                Some(b1) if b1 != b => problems.push((format!("the block of {} differs: -j1 {} / -j{} {}", path,
                    show(&b1[..b1.len().min(120)]), n, show(&b[..b.len().min(120)])), "")),
                _ => {}
            }
        }
        for path in blocks1.keys() {
            if !seen.contains(path) {
                problems.push((format!("{} is missing from the -j{} output", path, n), ""));
            }
        }
        // separators: the model's separator line in every gap of both runs
        let sep_bytes: Option<Vec<u8>> = if sep == "none" { None } else { unhex(&sep) };
        let want1: Option<Vec<u8>> = sep_bytes.as_ref().map(|s| { let mut v = s.clone(); v.extend(unhex(term).unwrap_or_default()); v });
        let wantn: Option<Vec<u8>> = sep_bytes.as_ref().map(|s| { let mut v = s.clone(); v.push(b'\n'); v });
        if !pn.stray.is_empty() || !p1.stray.is_empty() {
            // (also: a separator between the last block and the --stats trailer — fixed by 78b4250, its revert is a mutant)
            problems.push((format!("separator lines outside the gaps between blocks: -j{} {:?}, -j1 {:?}", n,
                pn.stray.iter().map(|s| show(s)).collect::<Vec<_>>(), p1.stray.iter().map(|s| show(s)).collect::<Vec<_>>()), ""));
        }
        if mode == "json" {
            rep.branch("stats:json-summary-compared");
            let (s1, sn) = (json_summary(&out1.stdout), json_summary(&outn.stdout));
            if s1 != sn || s1.is_none() {
                problems.push((format!("--json summary counters differ: -j1 {:?} / -j{} {:?}", s1, n, sn), ""));
            }
        }
        if let (Some(t1), Some(tn)) = (&trailer1, &trailern) {
            rep.branch("stats:counters-compared");
            if stats_counters(t1) != stats_counters(tn) {
                problems.push((format!("--stats counters differ: -j1 {:?} / -j{} {:?}", stats_counters(t1), n, stats_counters(tn)), ""));
            }
        }
        for (i, g) in p1.seps.iter().enumerate() {
            if *g != want1 {
                let (path, b) = &p1.blocks[i + 1];
                let class = "";
                let _ = b;
                problems.push((format!("-j1: gap before the block of {} holds {:?}, the separator line is {:?}", path,
                    g.as_ref().map(|s| show(s)), want1.as_ref().map(|s| show(s))), class));
                break;
            }
        }
        for (i, g) in pn.seps.iter().enumerate() {
            if *g != wantn {
                problems.push((format!("-j{}: gap before the block of {} holds {:?}, the separator line is {:?}", n, pn.blocks[i + 1].0,
                    g.as_ref().map(|s| show(s)), wantn.as_ref().map(|s| show(s))), ""));
                break;
            }
        }
        if want1 != wantn && p1.blocks.len() >= 2 && !guard {
            // class F11 — mechanism test: --crlf is on, a file separator is configured, and the two runs really
            // wrote it with different terminators (`sep\r\n` in a -j1 gap, `sep\n` in a -jN gap)
            let mechanism = crlf == 1
                && sep_bytes.is_some()
                && want1.as_ref().map_or(false, |w| w.ends_with(b"\r\n"))
                && p1.seps.iter().any(|g| *g == want1)
                && pn.seps.iter().any(|g| *g == wantn);
            let class = if mechanism { rep.branch(&format!("class:{}:attributed", CLASS_F11)); CLASS_F11 } else { rep.branch(&format!("class:{}:mechanism-absent", CLASS_F11)); "" };
            problems.push((format!("separator between blocks: -j1 writes {:?}, -j{} writes {:?}",
                want1.as_ref().map(|s| show(s)), n, wantn.as_ref().map(|s| show(s))), class));
        }
        if outn.exit() != out1.exit() {
            problems.push((format!("exit status {} with -j{}, {} with -j1", outn.exit(), n, out1.exit()), ""));
        }
        if outn.timed_out { problems.push(("rg did not terminate".into(), "")); }
        for (p, class) in problems.into_iter().take(3) {
            rep.violation(Violation {
                kind: "impl_vs_spec".into(), class: class.into(),
                tie: "rg -jN output is a permutation of the rg -j1 per-file blocks, separators exactly between blocks, same exit status".into(),
                case: case.to_string(), detail: p,
            });
        }
    }
    if orders.len() > 1 { rep.branch("several-lock-orders-observed"); }
    remove_tree(&dir);
}

fn run_sort(case: &str, ctx: &mut Ctx, drv: &mut Driver, rep: &mut Report) {
    let f = fields(case);
    let num = |k: &str| f.get(k).and_then(|v| v.parse::<u64>().ok());
    let (Some(seed), Some(mode), Some(nfiles), Some(n), Some(kind)) = (num("seed"), f.get("mode"), num("files"), num("n"), f.get("kind")) else {
        rep.notes.push(format!("unparsable case: {}", case));
        return;
    };
    ctx.counter += 1;
    let dir = fresh_dir(&ctx.scratch, &format!("s{}", ctx.counter));
    let tree = build_tree(&dir, seed, nfiles as usize, false, false);
    let flag = if kind == "sortr" { "--sortr" } else { "--sort" };
    // sort key: path (default), modified, accessed, created — with ties: four distinct time stamps for all files.
    // (access times are set ahead of the change times, so that reading the files does not move them.)
    let key = f.get("key").map_or("path", |v| v.as_str());
    if !matches!(key, "path" | "modified" | "accessed" | "created") {
        rep.notes.push(format!("unparsable case: {}", case));
        return;
    }
    let stamp = |i: usize| (i % 4) as u64 * 10;
    for (i, n) in tree.names.iter().enumerate() {
        if let Ok(fh) = std::fs::File::options().write(true).open(dir.join(n)) {
            let m = std::time::UNIX_EPOCH + std::time::Duration::from_secs(1_700_000_000 + stamp(i));
            let a = std::time::UNIX_EPOCH + std::time::Duration::from_secs(1_900_000_000 + stamp(i));
            let _ = fh.set_times(std::fs::FileTimes::new().set_modified(m).set_accessed(a));
        }
    }
    rep.branch(&format!("sort:key:{}", key));
    let mk = |threads: u64| -> Command {
        let mut c = Command::new(&ctx.rg);
        c.current_dir(&dir).args(mode_args(mode)).arg(format!("-j{}", threads)).args([flag, key]);
        if mode != "files" { c.arg("needle"); }
        c
    };
    let model = drv.ask(&format!("c08.threads 1 0 {} 16", n));
    let out1 = run_cmd(&mut mk(1), None);
    rep.eval();
    rep.branch("sort");
    rep.nontrivial(case);
    if model != "1" {
        rep.violation(Violation { kind: "model_vs_spec".into(), class: "".into(), tie: "theorem C08_sort".into(), case: case.to_string(), detail: model });
    }
    for _ in 0..3 {
        let outn = run_cmd(&mut mk(n), None);
        rep.eval();
        if canon_sort(mode, &outn.stdout) != canon_sort(mode, &out1.stdout) || outn.exit() != out1.exit() {
            rep.violation(Violation {
                kind: "impl_vs_spec".into(), class: "".into(),
                tie: "--sort: the output equals the single-threaded output exactly".into(),
                case: case.to_string(),
                detail: format!("-j{} {} {} differs from -j1 (exit {} / {})", n, flag, key, outn.exit(), out1.exit()),
            });
            break;
        }
    }
    // sorted really means sorted: the paths appear in ascending (descending) order
    if (mode == "files" || mode == "l") && matches!(key, "modified" | "accessed") {
        // the listed paths are in non-decreasing (non-increasing) order of their time stamps; ties in any order
        let stamps: Vec<u64> = out1.stdout_str().lines().filter_map(|l| tree.names.iter().position(|n| n == l)).map(stamp).collect();
        let ok = stamps.windows(2).all(|w| if kind == "sortr" { w[0] >= w[1] } else { w[0] <= w[1] });
        if !ok {
            rep.violation(Violation {
                kind: "impl_vs_spec".into(), class: "".into(), tie: "--sort modified/accessed: ordered by the time stamp".into(),
                case: case.to_string(), detail: format!("time stamps in output order: {:?}", &stamps[..stamps.len().min(12)]),
            });
        }
    }
    if (mode == "files" || mode == "l") && key == "path" {
        let lines: Vec<String> = out1.stdout_str().lines().map(|s| s.to_string()).collect();
        let mut sorted = lines.clone();
        sorted.sort();
        if kind == "sortr" { sorted.reverse(); }
        if lines != sorted {
            rep.violation(Violation {
                kind: "impl_vs_spec".into(), class: "".into(), tie: "--sort path: total order".into(),
                case: case.to_string(), detail: format!("paths not in order: {:?}", &lines[..lines.len().min(6)]),
            });
        }
    }
    remove_tree(&dir);
}

fn canon_sort(mode: &str, out: &[u8]) -> Vec<u8> {
    if mode != "json" {
        return out.to_vec();
    }
    // drop the timing fields
    let mut v = vec![];
    for line in split_lines(out) {
        if let Ok(mut j) = serde_json::from_slice::<serde_json::Value>(line) {
            if j["type"] == "summary" { continue; }
            if let Some(stats) = j["data"].get_mut("stats") {
                if let Some(o) = stats.as_object_mut() { o.remove("elapsed"); }
            }
            v.extend(serde_json::to_vec(&j).unwrap());
            v.push(b'\n');
        }
    }
    v
}

fn run_nulldata(case: &str, ctx: &mut Ctx, drv: &mut Driver, rep: &mut Report) {
    let f = fields(case);
    let n = f.get("n").and_then(|v| v.parse::<u64>().ok()).unwrap_or(2);
    ctx.counter += 1;
    let dir = fresh_dir(&ctx.scratch, &format!("n{}", ctx.counter));
    std::fs::write(dir.join("a.txt"), b"one needle\0").unwrap();
    std::fs::write(dir.join("b.txt"), b"two needle\0").unwrap();
    let mk = |threads: u64| -> Command {
        let mut c = Command::new(&ctx.rg);
        c.current_dir(&dir).args(["--color", "never", "--no-config", "--no-line-number", "--no-heading", "--with-filename", "--null-data", "-C1"])
            .arg(format!("-j{}", threads)).arg("needle");
        c
    };
    let out1 = run_cmd(&mut mk(1), None);
    let outn = run_cmd(&mut mk(n), None);
    rep.eval();
    rep.branch("null-data");
    rep.nontrivial(case);
    let ba = b"a.txt:one needle\0".to_vec();
    let bb = b"b.txt:two needle\0".to_vec();
    let order1 = if out1.stdout.starts_with(&ba) { vec![ba.clone(), bb.clone()] } else { vec![bb.clone(), ba.clone()] };
    let ordern = if outn.stdout.starts_with(&ba) { vec![ba.clone(), bb.clone()] } else { vec![bb.clone(), ba.clone()] };
    let sx = |v: &Vec<Vec<u8>>| format!("(blocks {} {})", hex(&v[0]), hex(&v[1]));
    let m1 = unhex(&drv.ask(&format!("c08.seq 2d2d 00 {}", sx(&order1)))).unwrap_or_default();
    let mn = unhex(&drv.ask(&format!("c08.par 2d2d {}", sx(&ordern)))).unwrap_or_default();
    if m1 != out1.stdout || mn != outn.stdout {
        rep.violation(Violation {
            kind: "impl_vs_model".into(), class: "".into(), tie: "rg --null-data -C1 output vs Model.BufWriter.outSeq / outPar".into(),
            case: case.to_string(), detail: format!("-j1 {} / -j{} {}", show(&out1.stdout), n, show(&outn.stdout)),
        });
    }
    let want = unhex(&drv.ask(&format!("c08.join 2d2d 00 {}", sx(&ordern)))).unwrap_or_default();
    if outn.stdout != want {
        // class F11 — mechanism test: --null-data is on, and the separator really is `--\0` in the -j1 output
        // and `--\n` in the -jN output
        let contains = |h: &[u8], n: &[u8]| h.windows(n.len()).any(|w| w == n);
        let mechanism = contains(&out1.stdout, b"\0--\0") && contains(&outn.stdout, b"\0--\n");
        let class = if mechanism { rep.branch(&format!("class:{}:attributed", CLASS_F11)); CLASS_F11 } else { rep.branch(&format!("class:{}:mechanism-absent", CLASS_F11)); "" };
        rep.violation(Violation {
            kind: "impl_vs_spec".into(), class: class.into(),
            tie: "rg -jN output is a permutation of the rg -j1 per-file blocks, separators exactly between blocks".into(),
            case: case.to_string(),
            detail: format!("--null-data -C1: -j1 writes {}, -j{} writes {}", show(&out1.stdout), n, show(&outn.stdout)),
        });
    }
    remove_tree(&dir);
}

/// Files whose `--pre` command fails after its output was consumed: -j1 has already printed their results,
/// -jN drops the worker's buffer.
fn run_failpre(case: &str, ctx: &mut Ctx, drv: &mut Driver, rep: &mut Report) {
    let f = fields(case);
    let num = |k: &str| f.get(k).and_then(|v| v.parse::<u64>().ok());
    let (Some(seed), Some(mode), Some(nfiles), Some(n)) = (num("seed"), f.get("mode"), num("files"), num("n")) else {
        rep.notes.push(format!("unparsable case: {}", case));
        return;
    };
    let mode = mode.as_str();
    if !matches!(mode, "nohead" | "nohead-ctx" | "heading" | "count" | "json") {
        rep.notes.push(format!("unparsable case: {}", case));
        return;
    }
    ctx.counter += 1;
    let dir = fresh_dir(&ctx.scratch, &format!("f{}", ctx.counter));
    let tree = build_tree(&dir, seed, nfiles as usize, false, false);
    let names: BTreeSet<String> = tree.names.iter().cloned().collect();
    let script = ctx.scratch.join("failpre.sh");
    if !script.exists() {
        write_script(&script, "case \"$1\" in *[258].txt) cat; exit 3 ;; esac\nexec cat");
    }
    let mk = |threads: u64| -> Command {
        let mut c = Command::new(&ctx.rg);
        c.current_dir(&dir).args(mode_args(mode)).arg(format!("-j{}", threads)).arg("--pre").arg(&script).arg("needle");
        c
    };
    let sep = sep_sx(mode, "0", drv);
    let out1 = run_cmd(&mut mk(1), None);
    let outn = run_cmd(&mut mk(n), None);
    rep.eval();
    rep.branch("failpre");
    let (Ok(p1), Ok(pn)) = (parse(mode, &out1.stdout, &names), parse(mode, &outn.stdout, &names)) else {
        rep.violation(Violation { kind: "impl_vs_spec".into(), class: "".into(), tie: "block grammar".into(), case: case.to_string(), detail: "unparsable output".into() });
        remove_tree(&dir);
        return;
    };
    let failed: BTreeSet<String> = names.iter().filter(|nm| out1.stderr_str().contains(&format!("{}:", nm))).cloned().collect();
    let item = |(path, b): &(String, Vec<u8>)| format!("({} {})", hex(b), failed.contains(path) as u8);
    // C: both drivers through the model
    let items1: Vec<String> = p1.blocks.iter().map(item).collect();
    let m1 = drv.ask(&format!("c08.seqf {} 0a (items {})", sep, items1.join(" ")));
    let mut itemsn: Vec<String> = pn.blocks.iter().map(item).collect();
    for b in p1.blocks.iter().filter(|(p, _)| failed.contains(p) && !pn.blocks.iter().any(|(q, _)| q == p)) {
        itemsn.push(item(b)); // a failed search: its position in the lock order does not matter
    }
    let mn = drv.ask(&format!("c08.parf {} (items {})", sep, itemsn.join(" ")));
    if unhex(&m1).map_or(true, |m| m != canon_out(mode, &out1.stdout, &names)) || unhex(&mn).map_or(true, |m| m != canon_out(mode, &outn.stdout, &names)) {
        rep.violation(Violation {
            kind: "impl_vs_model".into(), class: "".into(),
            tie: "rg -j1 / -jN with failing --pre commands vs Model.BufWriter.outSeqF / outParF (theorem C08_failing)".into(),
            case: case.to_string(),
            detail: format!("-j1 {} / -j{} {}", show(&out1.stdout[..out1.stdout.len().min(160)]), n, show(&outn.stdout[..outn.stdout.len().min(160)])),
        });
    }
    // F: the same blocks
    let bn: BTreeMap<String, Vec<u8>> = pn.blocks.iter().cloned().collect();
    let mut dropped: Vec<&String> = vec![];
    let mut other: Vec<String> = vec![];
    for (path, b) in &p1.blocks {
        match bn.get(path) {
            Some(x) if x == b => {}
            None if failed.contains(path) => dropped.push(path),
            _ => other.push(path.clone()),
        }
    }
    for (path, _) in &pn.blocks {
        if !p1.blocks.iter().any(|(q, _)| q == path) { other.push(path.clone()); }
    }
    if !failed.is_empty() && p1.blocks.iter().any(|(p, _)| failed.contains(p)) { rep.nontrivial(case); }
    if !dropped.is_empty() {
        rep.violation(Violation {
            kind: "impl_vs_spec".into(), class: "".into(),
            tie: "rg -jN output is a permutation of the rg -j1 per-file blocks".into(),
            case: case.to_string(),
            detail: format!("-j1 prints the results of {:?} (their --pre command failed after its output was read), -j{} drops them", dropped, n),
        });
    }
    if !other.is_empty() || out1.exit() != outn.exit() {
        rep.violation(Violation {
            kind: "impl_vs_spec".into(), class: "".into(),
            tie: "rg -jN output is a permutation of the rg -j1 per-file blocks, same exit status".into(),
            case: case.to_string(),
            detail: format!("blocks differ for {:?}; exit {} / {}", other, out1.exit(), outn.exit()),
        });
    }
    remove_tree(&dir);
}

fn run_case(case: &str, ctx: &mut Ctx, drv: &mut Driver, rep: &mut Report) {
    match case.split(' ').next() {
        Some("tree") => run_tree(case, ctx, drv, rep),
        Some("sort") => run_sort(case, ctx, drv, rep),
        Some("nulldata") => run_nulldata(case, ctx, drv, rep),
        Some("failpre") => run_failpre(case, ctx, drv, rep),
        _ => rep.notes.push(format!("unparsable case: {}", case)),
    }
}

fn main() {
    let args = parse_args();
    let mut drv = Driver::spawn(&args.driver);
    let mut rep = Report::new(
        "C08",
        "tree: generated trees of 0-40 files (0-4000 lines each, match density 0-90%, up to 3 directory levels, optional slow \
         --pre on a third of the files, optional CRLF files with --crlf) searched with -j1 once and -jN (N in 2..16) 2x (thorough 6x) \
         in modes no-heading, heading, -o, -c, --count-matches, -l, --files-without-match, --json, --files, each crossed with -A2/-B1/-C1/none, -n, --null (where lines stay newline-terminated) with several root paths (explicit files first, then directories, more roots than threads), with symlinks to files above / below --max-filesize followed by -L, and with binary files (NUL before the match) inside directories and as explicit arguments; sort: --sort/--sortr path/modified/accessed/created (time stamps with ties) with -jN \
         vs -j1; nulldata: the two-file --null-data -C1 witness; failpre: a --pre command that exits 3 after its output on a third of the files. Non-trivial: at least two non-empty blocks. Distinct by case text. \
         Also crossed with --stats (the trailer is cut off and its counters other than 'bytes printed' compared; --json: the summary message's counters, all of them), --max-count 1-3, --null in every mode but JSON (path-only modes: NUL-terminated paths; --heading: `path NUL`). \
         JSON blocks are compared after removing the elapsed-time fields and the summary line.",
    );
    let rg = args.rg.clone().expect("C08 needs --rg");
    let rg = std::fs::canonicalize(&rg).unwrap_or(rg);
    std::fs::create_dir_all(&args.scratch).expect("scratch");
    let mut ctx = Ctx { rg, scratch: args.scratch.clone(), counter: 0 };
    for c in corpus_cases(&args) {
        run_case(&c, &mut ctx, &mut drv, &mut rep);
    }
    if args.replay.is_none() {
        let mut rng = Rng::new(args.seed);
        let n = args.cases.unwrap_or(if args.thorough { 900 } else { 90 });
        for i in 0..n {
            let case = if i % 8 == 7 {
                format!("sort seed={} mode={} files={} n={} kind={} key={}", rng.below(1 << 30), rng.pick(MODES), rng.range(2, 30), rng.range(2, 16),
                    if rng.chance(1, 3) { "sortr" } else { "sort" }, rng.pick(&["path", "path", "modified", "accessed", "created"]))
            } else {
                gen_tree_case(&mut rng, args.thorough)
            };
            if i < 6 { rep.sample(case.clone()); }
            run_case(&case, &mut ctx, &mut drv, &mut rep);
        }
        run_case("nulldata n=2", &mut ctx, &mut drv, &mut rep);
        for i in 0..(if args.thorough { 90 } else { 18 }) {
            let mode = ["nohead", "heading", "nohead-ctx", "count", "json", "nohead"][i % 6];
            // mostly few threads and many files: a worker that met a failing file goes on to search others
            let n = if i % 3 == 2 { rng.range(4, 16) } else { rng.range(2, 3) };
            run_case(&format!("failpre seed={} mode={} files={} n={}", rng.below(1 << 30), mode, rng.range(12, 40), n), &mut ctx, &mut drv, &mut rep);
        }
    }
    if watchdog_retries() > 0 {
        rep.branches.insert("watchdog-retries".to_string(), watchdog_retries());
        rep.notes.push(format!("{} child process(es) exceeded the {:?} watchdog and were re-run with twice the limit", watchdog_retries(), WATCHDOG));
    }
    rep.write(&args);
}
