//! C17 — transcoded input is searched as its UTF-8 equivalent.
//!
//! lib … in-process: `grep_searcher::Searcher` (passthru, so every byte the searcher reads reaches the sink)
//!        over an encoded input, (a) through `search_reader` with a `Read` wrapper that delivers the input in
//!        scripted fragments (inside code units, surrogate pairs, the mark, around the 8 KiB scratch buffer),
//!        (b) through `search_slice` (the mmap path); line-by-line and multi-line strategies.  The delivered
//!        fragments are replayed through the Lean model (`c17.reader`, `c17.slice`: DecodeReaderBytes as ripgrep
//!        configures it + streaming UTF-16 decoder) and compared with the contract (`c17.spec`: whole-string
//!        transcoding, WHATWG replacement).
//! bin … the `rg` binary on the encoded file (--mmap / --no-mmap, -E label / none / auto) vs `rg -E none` on the
//!        contract's UTF-8 transcoding of the same input.
//! shift_jis: streaming machine + index table (data extracted from encoding_rs); corpus case `sjis-all` checks every
//! lead/trail pair and every single byte against the real decoder.
use grep_matcher::Matcher;
use grep_regex::{RegexMatcher, RegexMatcherBuilder};
use grep_searcher::{BinaryDetection, Encoding, MmapChoice, Searcher, SearcherBuilder, Sink, SinkContext, SinkMatch};
use rgverif_harness::*;
use std::io::Read;
use std::path::PathBuf;
use std::process::Command;

#[path = "../cli_common.rs"]
mod cli_common;
use cli_common::*;

const CLASS_F13: &str = "utf8-bom-with-malformed-utf8";
const CLASS_LABEL: &str = "utf8-bom-does-not-override-label";
const CLASS_SECOND: &str = "second-bom-swallowed";
const CLASS_MLFLUSH: &str = "multiline-reader-final-replacement-truncated";

/// `got` is `want` minus the last 1-3 bytes of a final U+FFFD (the decoder's end-of-input flush cut short).
fn tail_truncated(got: &[u8], want: &[u8]) -> bool {
    want.ends_with(&[0xEF, 0xBF, 0xBD]) && want.len() > got.len() && want.len() - got.len() <= 3 && want.starts_with(got)
}

struct Ctx {
    rg: PathBuf,
    scratch: PathBuf,
    counter: usize,
}

/// Attribution of a case to a known-finding class: the Lean guard names the clause that fails (`c17.guard`), and
/// the class's own mechanism must be demonstrably present in this very input; otherwise the case is unclassified.
fn attribute(guard: &str, cfg: &str, input: &[u8], rep: &mut Report) -> &'static str {
    let utf8_mark = input.starts_with(&[0xEF, 0xBB, 0xBF]);
    let le_mark = input.starts_with(&[0xFF, 0xFE]);
    let be_mark = input.starts_with(&[0xFE, 0xFF]);
    let (class, mechanism) = match guard {
        // F13 — a UTF-8 mark, no label, and bytes after the mark that are not valid UTF-8
        "f13" => (CLASS_F13, utf8_mark && cfg == "auto" && std::str::from_utf8(&input[3..]).is_err()),
        // a UTF-8 mark and an explicit label other than UTF-8
        "label" => (CLASS_LABEL, utf8_mark && !matches!(cfg, "auto" | "none" | "utf-8")),
        // really two marks: the mark that selects the decoder (sniffed), directly followed by that decoder's own mark again
        "second" => (
            CLASS_SECOND,
            cfg != "none"
                && ((utf8_mark && cfg == "utf-8" && input[3..].starts_with(&[0xEF, 0xBB, 0xBF]))
                    || (le_mark && input[2..].starts_with(&[0xFF, 0xFE]))
                    || (be_mark && input[2..].starts_with(&[0xFE, 0xFF]))),
        ),
        _ => return "",
    };
    if mechanism {
        rep.branch(&format!("class:{}:attributed", class));
        class
    } else {
        rep.branch(&format!("class:{}:mechanism-absent", class));
        ""
    }
}

// ------------------------------------------------------------------ inputs

/// One element of a generated text, as UTF-16 code units (possibly ill-formed on purpose).
fn gen_units(rng: &mut Rng, malformed: bool) -> Vec<u16> {
    let mut u: Vec<u16> = vec![];
    let lines = rng.range(1, 6);
    for l in 0..lines {
        let toks = rng.range(1, 6);
        for _ in 0..toks {
            match rng.below(if malformed { 14 } else { 9 }) {
                0 | 1 => u.extend("needle".encode_utf16()),
                2 => u.extend("plain".encode_utf16()),
                3 => u.extend("é".encode_utf16()),
                4 => u.extend("日本".encode_utf16()),
                5 => u.extend("😀".encode_utf16()),
                6 => u.extend("\u{10FFFF}".encode_utf16()),
                7 => u.push(0xFEFF), // a ZERO WIDTH NO-BREAK SPACE inside the text is content
                8 => u.extend(" x ".encode_utf16()),
                9 => u.push(0xD800 + rng.below(0x400) as u16),  // lone high surrogate
                10 => u.push(0xDC00 + rng.below(0x400) as u16), // lone low surrogate
                11 => { u.push(0xDC00); u.push(0xD800); }       // reversed pair
                12 => { u.push(0xD83D); u.push(0xD83D); u.push(0xDE00); } // high, then a proper pair
                _ => u.push(0xFFFD),
            }
            u.push(b' ' as u16);
        }
        if l + 1 < lines || rng.chance(3, 4) {
            u.push(b'\n' as u16);
        }
    }
    u
}

fn utf16_bytes(units: &[u16], be: bool) -> Vec<u8> {
    units.iter().flat_map(|u| if be { u.to_be_bytes() } else { u.to_le_bytes() }).collect()
}

fn gen_utf8(rng: &mut Rng, malformed: bool) -> Vec<u8> {
    let mut b: Vec<u8> = vec![];
    let lines = rng.range(1, 6);
    for l in 0..lines {
        for _ in 0..rng.range(1, 6) {
            match rng.below(if malformed { 15 } else { 7 }) {
                0 | 1 => b.extend(b"needle"),
                2 => b.extend(b"plain"),
                3 => b.extend("é".as_bytes()),
                4 => b.extend("日本".as_bytes()),
                5 => b.extend("😀".as_bytes()),
                6 => b.extend(" x ".as_bytes()),
                7 => b.push(0xFF),
                8 => b.push(0xC3),                  // lead without continuation
                9 => b.extend([0xE2, 0x82]),        // truncated three-byte sequence
                10 => b.extend([0xC0, 0x80]),       // overlong
                11 => b.extend([0xED, 0xA0, 0x80]), // encoded surrogate
                12 => b.extend([0xF4, 0x90, 0x80, 0x80]), // above U+10FFFF
                13 => b.push(0x80),                 // stray continuation
                _ => b.extend([0xF0, 0x9F, 0x98]),  // truncated four-byte sequence
            }
            b.push(b' ');
        }
        if l + 1 < lines || rng.chance(3, 4) {
            b.push(b'\n');
        }
    }
    b
}

const SJIS: &[(&str, &[u8])] = &[
    ("日", &[0x93, 0xfa]), ("本", &[0x96, 0x7b]), ("語", &[0x8c, 0xea]), ("テ", &[0x83, 0x65]),
    ("ス", &[0x83, 0x58]), ("ト", &[0x83, 0x67]), ("ｱ", &[0xb1]), ("needle", b"needle"), (" ", b" "), ("x", b"x"), ("\n", b"\n"),
];

/// Other encodings of the Encoding Standard (no Lean machine: differential only): a few characters each with their
/// bytes, written down independently of encoding_rs (Python's codecs; x-user-defined by its definition 0x80+k -> U+F780+k).
const OTHER: &[(&str, &[(&str, &[u8])])] = &[
    ("gb18030", &[("中", &[0xd6, 0xd0]), ("文", &[0xce, 0xc4]), ("汉", &[0xba, 0xba]), ("字", &[0xd7, 0xd6]), ("，", &[0xa3, 0xac]), ("。", &[0xa1, 0xa3]), ("€", &[0xa2, 0xe3]), ("😀", &[0x94, 0x39, 0xfc, 0x36])]),
    ("gbk", &[("中", &[0xd6, 0xd0]), ("文", &[0xce, 0xc4]), ("汉", &[0xba, 0xba]), ("字", &[0xd7, 0xd6]), ("，", &[0xa3, 0xac]), ("。", &[0xa1, 0xa3])]),
    ("big5", &[("中", &[0xa4, 0xa4]), ("文", &[0xa4, 0xe5]), ("漢", &[0xba, 0x7e]), ("字", &[0xa6, 0x72]), ("，", &[0xa1, 0x41]), ("。", &[0xa1, 0x43])]),
    ("euc-jp", &[("日", &[0xc6, 0xfc]), ("本", &[0xcb, 0xdc]), ("語", &[0xb8, 0xec]), ("テ", &[0xa5, 0xc6]), ("ス", &[0xa5, 0xb9]), ("ト", &[0xa5, 0xc8]), ("、", &[0xa1, 0xa2]), ("ｱ", &[0x8e, 0xb1])]),
    ("euc-kr", &[("한", &[0xc7, 0xd1]), ("국", &[0xb1, 0xb9]), ("어", &[0xbe, 0xee]), ("가", &[0xb0, 0xa1])]),
    ("koi8-r", &[("п", &[0xd0]), ("р", &[0xd2]), ("и", &[0xc9]), ("в", &[0xd7]), ("е", &[0xc5]), ("т", &[0xd4]), ("Я", &[0xf1])]),
    ("windows-1251", &[("п", &[0xef]), ("р", &[0xf0]), ("и", &[0xe8]), ("в", &[0xe2]), ("е", &[0xe5]), ("т", &[0xf2]), ("Я", &[0xdf])]),
    ("iso-8859-2", &[("ł", &[0xb3]), ("ą", &[0xb1]), ("č", &[0xe8]), ("ž", &[0xbe]), ("ő", &[0xf5])]),
    ("iso-8859-15", &[("é", &[0xe9]), ("€", &[0xa4]), ("œ", &[0xbd]), ("Š", &[0xa6])]),
    ("windows-1250", &[("ł", &[0xb3]), ("ą", &[0xb9]), ("č", &[0xe8]), ("ž", &[0x9e]), ("€", &[0x80])]),
    ("macintosh", &[("é", &[0x8e]), ("†", &[0xa0]), ("∞", &[0xb0]), ("π", &[0xb9])]),
    ("ibm866", &[("п", &[0xaf]), ("р", &[0xe0]), ("и", &[0xa8]), ("в", &[0xa2]), ("е", &[0xa5]), ("т", &[0xe2]), ("░", &[0xb0])]),
    ("windows-874", &[("ไ", &[0xe4]), ("ท", &[0xb7]), ("ย", &[0xc2]), ("€", &[0x80])]),
    ("koi8-u", &[("ї", &[0xa7]), ("є", &[0xa4]), ("і", &[0xa6]), ("ґ", &[0xad])]),
    ("x-user-defined", &[("\u{f780}", &[0x80]), ("\u{f7ff}", &[0xff]), ("\u{f7a0}", &[0xa0])]),
];

/// Labels of the Encoding Standard that name the same encoding (any letter case): `alias=k` picks one.
fn aliases(cfg: &str) -> &'static [&'static str] {
    match cfg {
        "utf-8" => &["utf-8", "UTF-8", "utf8", "Utf8", "unicode-1-1-utf-8", "x-unicode20utf8"],
        "utf-16le" => &["utf-16le", "UTF-16LE", "utf-16", "UTF-16", "unicode", "ucs-2", "csunicode", "iso-10646-ucs-2", "unicodefeff"],
        "utf-16be" => &["utf-16be", "UTF-16BE", "unicodefffe", "Utf-16Be"],
        "latin1" => &["latin1", "Latin1", "windows-1252", "iso-8859-1", "l1", "ascii", "cp1252", "ISO_8859-1", "us-ascii", "x-cp1252"],
        "shift_jis" => &["shift_jis", "sjis", "Shift_JIS", "SHIFT_JIS", "ms_kanji", "x-sjis", "windows-31j", "csshiftjis", "shift-jis"],
        _ => &[],
    }
}

fn alias_of(cfg: &str, k: usize) -> String {
    let a = aliases(cfg);
    if a.is_empty() { cfg.to_string() } else { a[k % a.len()].to_string() }
}

/// kinds of input: which bytes are on disk
const KINDS: &[&str] = &[
    "u16le-bom", "u16be-bom", "u16le", "u16be", "u8-bom", "u8", "latin1", "sjis", "u16le-bom2", "u8-bom2", "u16le-odd", "u16be-bom-odd", "tiny", "tiny", "sjis-all",
];
/// configurations: what the user asks for
const CFGS: &[&str] = &["auto", "none", "utf-8", "utf-16le", "utf-16be", "latin1", "shift_jis"];

fn gen_case(rng: &mut Rng, level: &str, big: bool) -> String {
    let kind = *rng.pick(&KINDS[..KINDS.len() - 1]); // `sjis-all` (100 KB) only from the corpus
    // mostly the matching configuration, sometimes any (a mark must win over a wrong label)
    let cfg = if rng.chance(1, 3) {
        *rng.pick(CFGS)
    } else {
        match kind {
            k if k.starts_with("u16") && k.contains("bom") => *rng.pick(&["auto", "auto", "utf-16le", "utf-16be", "latin1"]),
            k if k.starts_with("u16le") => "utf-16le",
            k if k.starts_with("u16be") => "utf-16be",
            k if k.starts_with("u8-bom") => *rng.pick(&["auto", "auto", "utf-8", "latin1", "utf-16le"]),
            "u8" => *rng.pick(&["auto", "utf-8"]),
            "latin1" => "latin1",
            _ => "shift_jis",
        }
    };
    format!(
        "{} seed={} kind={} cfg={} malformed={} big={} frag={} ml={} alias={} nd={} bd={}",
        level,
        rng.below(1 << 30),
        kind,
        cfg,
        rng.chance(1, 2) as u8,
        big as u8,
        rng.pick(&["1", "2", "3", "7", "mix", "8191", "8192", "8193", "whole"]),
        rng.chance(1, 5) as u8,
        if rng.chance(1, 3) { rng.below(12) } else { 0 },
        (level == "bin" && rng.chance(1, 5)) as u8,
        (level == "bin" && !big && rng.chance(1, 4)) as u8
    )
}

struct Input {
    bytes: Vec<u8>,
    /// expected UTF-8 for shift_jis inputs (no model)
    sjis_expected: Option<Vec<u8>>,
}

fn build_input(seed: u64, kind: &str, malformed: bool, big: bool) -> Input {
    let mut rng = Rng::new(seed ^ 0xC17);
    let reps = if big { rng.range(300, 1500) } else { 1 };
    let mut bytes: Vec<u8> = vec![];
    let mut sjis_expected = None;
    match kind {
        k if k.starts_with("u16") => {
            let be = k.starts_with("u16be");
            if k.contains("bom") { bytes.extend(if be { [0xFE, 0xFF] } else { [0xFF, 0xFE] }); }
            if k.ends_with("bom2") { bytes.extend(if be { [0xFE, 0xFF] } else { [0xFF, 0xFE] }); }
            for _ in 0..reps {
                let u = gen_units(&mut rng, malformed);
                bytes.extend(utf16_bytes(&u, be));
            }
            if k.ends_with("odd") { bytes.push(0x41); }
        }
        k if k.starts_with("u8") => {
            if k.contains("bom") { bytes.extend([0xEF, 0xBB, 0xBF]); }
            if k.ends_with("bom2") { bytes.extend([0xEF, 0xBB, 0xBF]); }
            for _ in 0..reps { bytes.extend(gen_utf8(&mut rng, malformed)); }
        }
        "latin1" => {
            for _ in 0..reps {
                for _ in 0..rng.range(1, 30) {
                    match rng.below(6) {
                        0 => bytes.extend(b"needle "),
                        1 => bytes.push(b'\n'),
                        2 => bytes.push(rng.range(0x80, 0xFF) as u8),
                        3 => bytes.push(0xE9),
                        _ => bytes.push(rng.range(0x20, 0x7E) as u8),
                    }
                }
                bytes.push(b'\n');
            }
        }
        "tiny" => {
            // 0-4 bytes: only a mark, a truncated mark, a mark and one byte
            const TINY: &[&[u8]] = &[
                b"", b"\xFF", b"\xFE", b"\xEF", b"\xFF\xFE", b"\xFE\xFF", b"\xEF\xBB", b"\xEF\xBB\xBF", b"\xFF\xFE\x61",
                b"\xFE\xFF\x00", b"\xFF\xFE\x0A\x00", b"\xFE\xFF\x00\x0A", b"\xEF\xBB\xBF\x0A", b"\xEF\xBB\xBF\xFF", b"a", b"\x0A", b"\xFF\xFF",
                b"\xFF\xFE\xFF\xFE", b"\x00\xD8", b"\xFF\xFE\x00\xD8",
            ];
            bytes.extend(*rng.pick(TINY));
        }
        "sjis-all" => {
            // every lead/trail pair once, one per line (validates every entry of the model's index table),
            // followed by every single byte
            for l in (0x81u8..=0x9F).chain(0xE0..=0xFC) {
                for t in (0x40u8..=0x7E).chain(0x80..=0xFC) {
                    bytes.extend(format!("{:02x}{:02x}=", l, t).as_bytes());
                    bytes.extend([l, t, b'\n']);
                }
            }
            for b in 0u8..=0xFF {
                if b != b'\n' && b != 0 { bytes.extend([b'=', b, b'x', b'\n']); }
            }
        }
        _ => {
            let mut exp = vec![];
            for _ in 0..reps {
                for _ in 0..rng.range(1, 20) {
                    if malformed && rng.chance(1, 4) {
                        // unpaired leads, invalid trails, bytes that are never valid
                        bytes.extend(match rng.below(5) {
                            0 => vec![0x81],
                            1 => vec![0x81, 0x20],
                            2 => vec![0xFD],
                            3 => vec![0xE0, 0xFF],
                            _ => vec![rng.range(0x81, 0xFC) as u8, rng.range(0x30, 0xFF) as u8],
                        });
                    } else {
                        let (s, b) = rng.pick(SJIS);
                        bytes.extend(*b);
                        exp.extend(s.as_bytes());
                    }
                }
                bytes.push(b'\n');
                exp.push(b'\n');
            }
            if !malformed { sjis_expected = Some(exp); }
        }
    }
    Input { bytes, sjis_expected }
}

fn cfg_parts(cfg: &str) -> (Option<&'static str>, bool, &'static str) {
    // (searcher label, bom sniffing, model label)
    match cfg {
        "auto" => (None, true, "none"),
        "none" => (None, false, "none"),
        "utf-8" => (Some("utf-8"), true, "utf8"),
        "utf-16le" => (Some("utf-16le"), true, "utf16le"),
        "utf-16be" => (Some("utf-16be"), true, "utf16be"),
        "latin1" => (Some("latin1"), true, "latin1"),
        _ => (Some("shift_jis"), true, "sjis"),
    }
}

// ------------------------------------------------------------------ in-process

struct Fragmented<'a> {
    data: &'a [u8],
    pos: usize,
    sizes: Vec<usize>,
    next: usize,
    delivered: Vec<Vec<u8>>,
}

impl<'a> Read for Fragmented<'a> {
    fn read(&mut self, buf: &mut [u8]) -> std::io::Result<usize> {
        if self.pos >= self.data.len() || buf.is_empty() {
            return Ok(0);
        }
        let want = self.sizes[self.next % self.sizes.len()].max(1);
        self.next += 1;
        let n = want.min(buf.len()).min(self.data.len() - self.pos);
        buf[..n].copy_from_slice(&self.data[self.pos..self.pos + n]);
        self.delivered.push(self.data[self.pos..self.pos + n].to_vec());
        self.pos += n;
        Ok(n)
    }
}

struct Collect(Vec<u8>);
impl Sink for Collect {
    type Error = std::io::Error;
    fn matched(&mut self, _: &Searcher, m: &SinkMatch<'_>) -> Result<bool, Self::Error> {
        self.0.extend_from_slice(m.bytes());
        Ok(true)
    }
    fn context(&mut self, _: &Searcher, c: &SinkContext<'_>) -> Result<bool, Self::Error> {
        self.0.extend_from_slice(c.bytes());
        Ok(true)
    }
}

fn frag_sizes(frag: &str, seed: u64) -> Vec<usize> {
    match frag {
        "mix" => {
            let mut rng = Rng::new(seed ^ 0xF4A6);
            (0..64).map(|_| *rng.pick(&[1usize, 1, 2, 3, 5, 8, 100, 4096, 8191, 8192, 8193])).collect()
        }
        "whole" => vec![usize::MAX / 2],
        n => vec![n.parse().unwrap_or(1)],
    }
}

fn build_searcher(label: Option<&str>, sniff: bool, ml: bool) -> Option<Searcher> {
    let mut b = SearcherBuilder::new();
    b.passthru(true).line_number(false).binary_detection(BinaryDetection::none()).bom_sniffing(sniff).multi_line(ml).memory_map(MmapChoice::never());
    if let Some(l) = label {
        b.encoding(Some(Encoding::new(l).ok()?));
    }
    Some(b.build())
}

fn run_lib(case: &str, drv: &mut Driver, rep: &mut Report) {
    let f = fields(case);
    let (Some(seed), Some(kind), Some(cfg), Some(malformed), Some(big), Some(frag), Some(ml)) = (
        f.get("seed").and_then(|v| v.parse::<u64>().ok()), f.get("kind"), f.get("cfg"), f.get("malformed"), f.get("big"), f.get("frag"), f.get("ml"),
    ) else {
        rep.notes.push(format!("unparsable case: {}", case));
        return;
    };
    if !KINDS.contains(&kind.as_str()) || !CFGS.contains(&cfg.as_str()) {
        rep.notes.push(format!("unparsable case: {}", case));
        return;
    }
    let input = build_input(seed, kind, malformed == "1", big == "1");
    let (label, sniff, mlabel) = cfg_parts(cfg);
    let ml = ml == "1";
    // multi-line strategy is only taken when the matcher may match a line terminator
    let matcher: RegexMatcher = if ml {
        RegexMatcherBuilder::new().multi_line(true).build("needle[\\s\\S]?").unwrap()
    } else {
        RegexMatcher::new_line_matcher("needle").unwrap()
    };
    let _ = matcher.line_terminator();
    rep.eval();
    // (a) fragmented reader
    let alias_k = f.get("alias").and_then(|v| v.parse::<usize>().ok()).unwrap_or(0);
    let alias_label = label.map(|_| alias_of(cfg, alias_k));
    if alias_k > 0 && label.is_some() { rep.branch("lib:label-alias"); }
    let Some(mut searcher) = build_searcher(alias_label.as_deref(), sniff, ml) else {
        rep.notes.push(format!("label not accepted: {}", cfg));
        return;
    };
    let mut rdr = Fragmented { data: &input.bytes, pos: 0, sizes: frag_sizes(frag, seed), next: 0, delivered: vec![] };
    let mut sink = Collect(vec![]);
    let r1 = searcher.search_reader(&matcher, &mut rdr, &mut sink);
    let via_reader = sink.0;
    let delivered = rdr.delivered;
    // (b) slice (what a memory map gives)
    let mut sink2 = Collect(vec![]);
    let r2 = searcher.search_slice(&matcher, &input.bytes, &mut sink2);
    let via_slice = sink2.0;
    // (c) the same reader, whole input at once
    let mut whole = Fragmented { data: &input.bytes, pos: 0, sizes: vec![usize::MAX / 2], next: 0, delivered: vec![] };
    let mut sink3 = Collect(vec![]);
    let _ = searcher.search_reader(&matcher, &mut whole, &mut sink3);
    let via_whole = sink3.0;
    rep.branch(&format!("lib:kind:{}", kind));
    rep.branch(&format!("lib:cfg:{}", cfg));
    rep.branch(&format!("lib:frag:{}", frag));
    if ml {
        rep.branch(if searcher.multi_line_with_matcher(&matcher) { "lib:multi-line-strategy" } else { "lib:multi-line-requested-only" });
    }
    if delivered.len() > 3 && (kind.starts_with("u16") || malformed == "1") { rep.nontrivial(case); }
    if r1.is_err() || r2.is_err() {
        rep.violation(Violation {
            kind: "impl_vs_spec".into(), class: "".into(), tie: "searching an encoded input does not fail".into(),
            case: case.to_string(), detail: format!("search error: {:?} / {:?}", r1.err(), r2.err()),
        });
        return;
    }
    let mut problems_spec: Vec<(String, &'static str)> = vec![];
    // known class multiline-reader-final-replacement-truncated — mechanism test FIRST: the multi-line strategy
    // really runs (not just requested) and the decoder in use emits its U+FFFD at END of input, i.e. the input ends
    // in a truncated character (`c17.flush`: the machine's `finish` output is non-empty). Only then is a result
    // that lacks the last 1-3 bytes of that final U+FFFD attributed to the class (std's read_to_end may offer the
    // decoder fewer than 4 bytes of room; which read that is depends on the buffer's capacity history, so the
    // three routes may differ among themselves).
    let ml = ml && searcher.multi_line_with_matcher(&matcher);
    let flush_mech = ml && mlabel != "" && {
        let fl = drv.ask(&format!("c17.flush (cfg {} {}) {}", mlabel, sniff as u8, hex(&input.bytes)));
        fl == "efbfbd"
    };
    let mut flush_cut = false;
    let (via_reader, via_slice, via_whole) = if flush_mech {
        let longest = [&via_reader, &via_slice, &via_whole].iter().map(|v| v.len()).max().unwrap_or(0);
        let mut full: Vec<u8> = [&via_reader, &via_slice, &via_whole].iter().find(|v| v.len() == longest).map(|v| (**v).clone()).unwrap_or_default();
        if !full.ends_with(&[0xEF, 0xBF, 0xBD]) {
            // all three routes are cut: the complete result is the model's (its last three bytes are the flush)
            if let Some(m) = unhex(&drv.ask(&format!("c17.spec (cfg {} {}) {}", mlabel, sniff as u8, hex(&input.bytes)))) {
                if tail_truncated(&full, &m) { full = m; }
            }
        }
        let fix = |v: Vec<u8>, flag: &mut bool| if tail_truncated(&v, &full) { *flag = true; full.clone() } else { v };
        (fix(via_reader, &mut flush_cut), fix(via_slice, &mut flush_cut), fix(via_whole, &mut flush_cut))
    } else {
        (via_reader, via_slice, via_whole)
    };
    // F without any model: fragmentation and strategy must not matter
    if via_reader != via_whole {
        problems_spec.push((format!("fragmented reads give {} but one read gives {}", show(&via_reader[..via_reader.len().min(120)]), show(&via_whole[..via_whole.len().min(120)])), ""));
    }
    if via_slice != via_whole {
        problems_spec.push((format!("search_slice gives {} but search_reader gives {}", show(&via_slice[..via_slice.len().min(120)]), show(&via_whole[..via_whole.len().min(120)])), ""));
    }
    if mlabel == "sjis" {
        // independent of the model: a hand-written table of valid text when the input really is shift_jis
        if let (Some(exp), true) = (&input.sjis_expected, kind == "sjis") {
            if via_whole != *exp {
                problems_spec.push((format!("shift_jis: searched {} expected {}", show(&via_whole[..via_whole.len().min(120)]), show(&exp[..exp.len().min(120)])), ""));
            }
        }
    }
    {
        let cfg_sx = format!("(cfg {} {})", mlabel, sniff as u8);
        let chunks: Vec<String> = delivered.iter().map(|c| hex(c)).collect();
        let m_reader = unhex(&drv.ask(&format!("c17.reader {} (chunks {})", cfg_sx, chunks.join(" "))));
        let m_slice = unhex(&drv.ask(&format!("c17.slice {} {}", cfg_sx, hex(&input.bytes))));
        let spec = unhex(&drv.ask(&format!("c17.spec {} {}", cfg_sx, hex(&input.bytes))));
        let guard = drv.ask(&format!("c17.guard {} {}", cfg_sx, hex(&input.bytes)));
        let class = attribute(&guard, cfg, &input.bytes, rep);
        if flush_cut {
            rep.branch(&format!("class:{}:attributed", CLASS_MLFLUSH));
            problems_spec.push(("multi-line strategy: the U+FFFD that ends the transcoding is cut short (1-2 of its 3 bytes, or none, are searched)".into(), CLASS_MLFLUSH));
        }
        let (Some(m_reader), Some(m_slice), Some(spec)) = (m_reader, m_slice, spec) else {
            rep.violation(Violation { kind: "impl_vs_model".into(), class: "".into(), tie: "driver protocol".into(), case: case.to_string(), detail: "bad reply".into() });
            return;
        };
        if m_reader != via_reader || m_slice != via_slice {
            let (a, b) = if m_reader != via_reader { (&via_reader, &m_reader) } else { (&via_slice, &m_slice) };
            let at = a.iter().zip(b.iter()).position(|(x, y)| x != y).unwrap_or(a.len().min(b.len()));
            rep.violation(Violation {
                kind: "impl_vs_model".into(), class: "".into(),
                tie: "bytes read by the searcher (search_reader over scripted fragments / search_slice) vs Model.Decode.readerOutput / sliceSearched (theorems decode_chunk_independent, decodeAll_spec, slice_eq_reader)".into(),
                case: case.to_string(),
                detail: format!("first difference at output byte {}: searcher {} model {}", at,
                    show(&a[at.saturating_sub(8)..a.len().min(at + 24)]), show(&b[at.saturating_sub(8)..b.len().min(at + 24)])),
            });
        }
        if spec != via_reader {
            let at = spec.iter().zip(via_reader.iter()).position(|(x, y)| x != y).unwrap_or(spec.len().min(via_reader.len()));
            problems_spec.push((format!("searched bytes differ from the UTF-8 transcoding at output byte {}: searched {} transcoding {}", at,
                show(&via_reader[at.saturating_sub(8)..via_reader.len().min(at + 24)]), show(&spec[at.saturating_sub(8)..spec.len().min(at + 24)])), class));
        } else if !class.is_empty() {
            rep.branch("lib:class-case-agrees-anyway");
        }
        if std::str::from_utf8(&spec).is_err() && cfg != "none" && !(cfg == "auto" && !kind.contains("bom")) {
            problems_spec.push(("the contract's transcoding is not valid UTF-8 (harness/spec bug)".into(), ""));
        }
    }
    for (p, class) in problems_spec {
        rep.violation(Violation {
            kind: "impl_vs_spec".into(), class: class.into(),
            tie: "bytes searched = UTF-8 transcoding of the input (mark decides and is removed, malformed -> U+FFFD), independent of strategy and fragmentation".into(),
            case: case.to_string(), detail: p,
        });
    }
}

// ------------------------------------------------------------------ the binary

fn run_bin(case: &str, ctx: &mut Ctx, drv: &mut Driver, rep: &mut Report) {
    let f = fields(case);
    let (Some(seed), Some(kind), Some(cfg), Some(malformed), Some(big)) =
        (f.get("seed").and_then(|v| v.parse::<u64>().ok()), f.get("kind"), f.get("cfg"), f.get("malformed"), f.get("big")) else {
        rep.notes.push(format!("unparsable case: {}", case));
        return;
    };
    if !KINDS.contains(&kind.as_str()) || !CFGS.contains(&cfg.as_str()) {
        rep.notes.push(format!("unparsable case: {}", case));
        return;
    }
    let mut input = build_input(seed, kind, malformed == "1", big == "1");
    let (_, sniff, mlabel) = cfg_parts(cfg);
    let flag = |k: &str| f.get(k).map_or(false, |v| v == "1");
    // nd: --null-data, the line feeds of the text become U+0000 / NUL records.  bd: binary detection stays on (no -a);
    // in half of these cases the text's spaces after its first third become U+0000 / NUL.
    let (nd, mut bd) = (flag("nd"), flag("bd") && big != "1" && !flag("nd"));
    let alias_k = f.get("alias").and_then(|v| v.parse::<usize>().ok()).unwrap_or(0);
    if nd || (bd && seed % 4 < 2) {
        let (from, start) = if nd { (0x0Au8, 0) } else { (0x20u8, input.bytes.len() / 3) };
        if kind.starts_with("u16") {
            let be = kind.starts_with("u16be");
            let mut i = (start / 2) * 2;
            while i + 1 < input.bytes.len() {
                let (hi, lo) = if be { (input.bytes[i], input.bytes[i + 1]) } else { (input.bytes[i + 1], input.bytes[i]) };
                if hi == 0 && lo == from { input.bytes[i] = 0; input.bytes[i + 1] = 0; }
                i += 2;
            }
        } else {
            for b in input.bytes[start..].iter_mut() { if *b == from { *b = 0; } }
        }
    }
    let reference: Vec<u8> = match unhex(&drv.ask(&format!("c17.spec (cfg {} {}) {}", mlabel, sniff as u8, hex(&input.bytes)))) {
        Some(s) => s,
        None => return,
    };
    // binary detection is compared only where transcoding happens: on raw bytes it is the strategy-dependent heuristic of C02/C14
    bd = bd && reference != input.bytes;
    let guard = drv.ask(&format!("c17.guard (cfg {} {}) {}", mlabel, sniff as u8, hex(&input.bytes)));
    let class = attribute(&guard, cfg, &input.bytes, rep);
    let flush = drv.ask(&format!("c17.flush (cfg {} {}) {}", mlabel, sniff as u8, hex(&input.bytes)));
    rep.eval();
    ctx.counter += 1;
    let dir = fresh_dir(&ctx.scratch, &format!("b{}", ctx.counter));
    std::fs::create_dir_all(dir.join("enc")).unwrap();
    std::fs::create_dir_all(dir.join("ref")).unwrap();
    std::fs::write(dir.join("enc/f.txt"), &input.bytes).unwrap();
    std::fs::write(dir.join("ref/f.txt"), &reference).unwrap();
    let pats = ["needle", "é", "\\x{1F600}", "\\x{FFFD}", "日", "\\x{FEFF}", ".", "^", ""];
    let mut rng = Rng::new(seed ^ 0xB17);
    let pat = *rng.pick(&pats);
    rep.branch(&format!("bin:kind:{}", kind));
    rep.branch(&format!("bin:cfg:{}", cfg));
    let mut base = vec!["--color", "never", "--no-config", "-n", "--no-filename"];
    if !bd { base.push("-a"); } else { rep.branch(if reference.contains(&0) { "bin:binary-detection:nul-in-transcoding" } else { "bin:binary-detection:text" }); }
    if nd { base.push("--null-data"); rep.branch("bin:null-data"); }
    let elabel = alias_of(cfg, alias_k);
    if elabel != *cfg { rep.branch("bin:label-alias"); }
    // every second case: multi-line search with a pattern that may match the line terminator
    let ml = f.get("ml").map_or(false, |v| v == "1") || seed % 2 == 1;
    let mlpat = format!("{}[\\s\\S]?", pat);
    let ml_args: Vec<&str> = if ml { vec!["-U"] } else { vec![] };
    let pat: &str = if ml { &mlpat } else { pat };
    if ml { rep.branch("bin:multi-line"); }
    // (with binary detection on, the reference is searched as a whole, like the transcoded text is: where a reader that
    // delivers the first three bytes on their own looks for the NUL is the strategy-dependent heuristic of C02/C14)
    // every case also with the pattern that reports every line: the whole searched text is compared
    let all_pat: &str = if ml { "[\\s\\S]?" } else { "" };
    let first_pat: &str = pat;
    let mut any_output = false;
    let mut reported = false;
    for pat in [first_pat, all_pat] {
    if reported || (pat == all_pat && first_pat == all_pat) { continue; }
    let mut rcmd = Command::new(&ctx.rg);
    rcmd.current_dir(dir.join("ref")).args(&base).args(["-E", "none", if bd { "--mmap" } else { "--no-mmap" }, "-j1"]).args(&ml_args).arg(pat).arg("f.txt");
    let reference_out = run_cmd(&mut rcmd, None);
    any_output |= !reference_out.stdout.is_empty();
    for mmap in ["--mmap", "--no-mmap", "stdin"] {
        let mut cmd = Command::new(&ctx.rg);
        cmd.current_dir(dir.join("enc")).args(&base).arg("-j1");
        if mmap != "stdin" { cmd.arg(mmap); }
        if cfg != "auto" { cmd.args(["-E", &elabel]); }
        cmd.args(&ml_args).arg(pat);
        if mmap != "stdin" { cmd.arg("f.txt"); } else { cmd.arg("-"); }
        let out = if mmap == "stdin" { run_cmd(&mut cmd, Some(&input.bytes)) } else { run_cmd(&mut cmd, None) };
        if out.stdout != reference_out.stdout || out.exit() != reference_out.exit() {
            // multiline-reader-final-replacement-truncated — mechanism test: -U with a pattern that may match the
            // terminator (so the multi-line strategy runs), the decoder emits U+FFFD at end of input (the input ends
            // in a truncated character), and the two outputs differ only in what follows the last line terminator
            let la: Vec<&[u8]> = out.stdout.split(|c| *c == b'\n').filter(|l| !l.is_empty()).collect();
            let lb: Vec<&[u8]> = reference_out.stdout.split(|c| *c == b'\n').filter(|l| !l.is_empty()).collect();
            let (ka, kb) = (la.len().saturating_sub(1), lb.len().saturating_sub(1));
            let k = ka.min(kb);
            let same_but_tail = la[..k] == lb[..k] && la.len().abs_diff(lb.len()) <= 1;
            let mech = class.is_empty() && ml && flush != "-" && flush != "bad-op" && reference.ends_with(&[0xEF, 0xBF, 0xBD]) && same_but_tail;
            let class = if mech { rep.branch(&format!("class:{}:attributed", CLASS_MLFLUSH)); CLASS_MLFLUSH } else { class };
            rep.violation(Violation {
                kind: "impl_vs_spec".into(), class: class.into(),
                tie: "rg on an encoded file vs rg -E none on its UTF-8 transcoding".into(),
                case: case.to_string(),
                detail: format!("{} pattern {}: rg prints {} (exit {}), on the transcoding {} (exit {})", mmap, pat,
                    show(&out.stdout[..out.stdout.len().min(160)]), out.exit(),
                    show(&reference_out.stdout[..reference_out.stdout.len().min(160)]), reference_out.exit()),
            });
            reported = true;
            break;
        }
    }
    }
    if any_output { rep.nontrivial(case); }
    remove_tree(&dir);
}

/// Other encodings: no Lean machine; the searcher's three routes and the binary's three routes against the table's UTF-8.
fn run_other(case: &str, ctx: &mut Ctx, rep: &mut Report) {
    let f = fields(case);
    let (Some(seed), Some(enc), Some(frag)) = (f.get("seed").and_then(|v| v.parse::<u64>().ok()), f.get("enc"), f.get("frag")) else {
        rep.notes.push(format!("unparsable case: {}", case));
        return;
    };
    let Some((label, table)) = OTHER.iter().find(|(l, _)| l == enc) else {
        rep.notes.push(format!("unparsable case: {}", case));
        return;
    };
    let mut rng = Rng::new(seed ^ 0x07E2);
    let big = f.get("big").map_or(false, |v| v == "1");
    let (mut bytes, mut exp) = (vec![], vec![]);
    for _ in 0..(if big { rng.range(300, 1500) } else { 1 }) {
        for _ in 0..rng.range(1, 30) {
            match rng.below(6) {
                0 => { bytes.extend(b"needle "); exp.extend(b"needle "); }
                1 => { bytes.push(b'\n'); exp.push(b'\n'); }
                2 => { bytes.push(b'x'); exp.push(b'x'); }
                _ => { let (s, b) = rng.pick(table); bytes.extend(*b); exp.extend(s.as_bytes()); }
            }
        }
        bytes.push(b'\n');
        exp.push(b'\n');
    }
    rep.eval();
    rep.branch(&format!("other:{}", label));
    let matcher = RegexMatcher::new_line_matcher("needle").unwrap();
    let Some(mut searcher) = build_searcher(Some(label), true, false) else {
        rep.violation(Violation { kind: "impl_vs_spec".into(), class: "".into(), tie: "a label of the Encoding Standard is accepted".into(), case: case.to_string(), detail: format!("label not accepted: {}", label) });
        return;
    };
    let mut problems: Vec<String> = vec![];
    let mut rdr = Fragmented { data: &bytes, pos: 0, sizes: frag_sizes(frag, seed), next: 0, delivered: vec![] };
    let mut s1 = Collect(vec![]);
    let r1 = searcher.search_reader(&matcher, &mut rdr, &mut s1);
    if rdr.delivered.len() > 3 { rep.nontrivial(case); }
    let mut s2 = Collect(vec![]);
    let r2 = searcher.search_slice(&matcher, &bytes, &mut s2);
    if r1.is_err() || r2.is_err() { problems.push(format!("search error: {:?} / {:?}", r1.err(), r2.err())); }
    for (how, got) in [("fragmented reader", &s1.0), ("slice", &s2.0)] {
        if *got != exp {
            let at = got.iter().zip(exp.iter()).position(|(x, y)| x != y).unwrap_or(got.len().min(exp.len()));
            problems.push(format!("{}: searched bytes differ from the text's UTF-8 at byte {}: {} / {}", how, at,
                show(&got[at.saturating_sub(8)..got.len().min(at + 24)]), show(&exp[at.saturating_sub(8)..exp.len().min(at + 24)])));
        }
    }
    if seed % 3 == 0 {
        ctx.counter += 1;
        let dir = fresh_dir(&ctx.scratch, &format!("o{}", ctx.counter));
        std::fs::create_dir_all(dir.join("enc")).unwrap();
        std::fs::create_dir_all(dir.join("ref")).unwrap();
        std::fs::write(dir.join("enc/f.txt"), &bytes).unwrap();
        std::fs::write(dir.join("ref/f.txt"), &exp).unwrap();
        let first = table[0].0;
        let pat = *rng.pick(&["needle", ".", "^", first]);
        let base = ["--color", "never", "--no-config", "-n", "--no-filename", "-j1"];
        let mut rcmd = Command::new(&ctx.rg);
        rcmd.current_dir(dir.join("ref")).args(base).args(["-E", "none", "--no-mmap"]).arg(pat).arg("f.txt");
        let reference_out = run_cmd(&mut rcmd, None);
        for mmap in ["--mmap", "--no-mmap", "stdin"] {
            let mut cmd = Command::new(&ctx.rg);
            cmd.current_dir(dir.join("enc")).args(base).args(["-E", label]);
            if mmap != "stdin" { cmd.arg(mmap); }
            cmd.arg(pat).arg(if mmap != "stdin" { "f.txt" } else { "-" });
            let out = if mmap == "stdin" { run_cmd(&mut cmd, Some(&bytes)) } else { run_cmd(&mut cmd, None) };
            if out.stdout != reference_out.stdout || out.exit() != reference_out.exit() {
                problems.push(format!("rg -E {} {} pattern {}: prints {} (exit {}), on the UTF-8 text {} (exit {})", label, mmap, pat,
                    show(&out.stdout[..out.stdout.len().min(160)]), out.exit(), show(&reference_out.stdout[..reference_out.stdout.len().min(160)]), reference_out.exit()));
                break;
            }
        }
        rep.branch("other:bin");
        remove_tree(&dir);
    }
    for p in problems.into_iter().take(2) {
        rep.violation(Violation {
            kind: "impl_vs_spec".into(), class: "".into(),
            tie: "an input searched with an explicit --encoding label gives the results of its UTF-8 transcoding (other encodings: differential, no Lean machine)".into(),
            case: case.to_string(), detail: p,
        });
    }
}

fn run_case(case: &str, ctx: &mut Ctx, drv: &mut Driver, rep: &mut Report) {
    match case.split(' ').next() {
        Some("other") => run_other(case, ctx, rep),
        Some("lib") => run_lib(case, drv, rep),
        Some("bin") => run_bin(case, ctx, drv, rep),
        _ => rep.notes.push(format!("unparsable case: {}", case)),
    }
}

fn main() {
    let args = parse_args();
    let mut drv = Driver::spawn(&args.driver);
    let mut rep = Report::new(
        "C17",
        "Inputs: tiny inputs (0-4 bytes: only a mark, truncated marks, a mark and one byte); UTF-16LE/BE with and without mark, with a second mark, with an odd byte count; UTF-8 with/without mark; \
         windows-1252 bytes; shift_jis text (valid and with unpaired leads / invalid trails; once every lead/trail pair); texts mix ASCII, BMP, astral characters, U+FEFF, and (malformed stream, 50%) lone \
         and reversed surrogates / invalid UTF-8 (stray and missing continuations, overlong, encoded surrogates, > U+10FFFF). \
         Configurations auto / none / utf-8 / utf-16le / utf-16be / latin1 / shift_jis, matching or not, the label spelled as any of its Encoding Standard aliases in any letter case (1/3). bin also: --null-data with the text's line feeds turned into U+0000 (1/5), binary detection left on (no -a; half with U+0000 in the text; reference searched as a whole). other: 15 further encodings (gb18030, gbk, big5, euc-jp, euc-kr, koi8-r/u, windows-1250/1251/874, iso-8859-2/15, macintosh, ibm866, x-user-defined) on valid text from hand-written tables, differential only. lib: fragment sizes 1, 2, 3, 7, \
         mixed, 8191, 8192, 8193, whole; line-by-line and multi-line (matcher that may match the terminator, so the multi-line strategy really runs); small and 10-100 KB inputs. bin: --mmap, --no-mmap and stdin, 9 patterns and always the pattern that reports every line, half of them as multi-line searches (-U, pattern may match the terminator). \
         Non-trivial: lib: more than 3 fragments of a UTF-16 or malformed input; bin: the reference run prints something.",
    );
    let rg = args.rg.clone().expect("C17 needs --rg");
    let rg = std::fs::canonicalize(&rg).unwrap_or(rg);
    std::fs::create_dir_all(&args.scratch).expect("scratch");
    let mut ctx = Ctx { rg, scratch: args.scratch.clone(), counter: 0 };
    for c in corpus_cases(&args) {
        run_case(&c, &mut ctx, &mut drv, &mut rep);
    }
    if args.replay.is_none() {
        let mut rng = Rng::new(args.seed);
        let n = args.cases.unwrap_or(if args.thorough { 30000 } else { 2400 });
        for i in 0..n {
            let big = i % 25 == 24;
            let case = if i % 24 == 11 {
                format!("other seed={} enc={} frag={} big={}", rng.below(1 << 30), rng.pick(OTHER).0,
                    rng.pick(&["1", "2", "3", "7", "mix", "8191", "8192", "8193", "whole"]), (i % 240 == 11) as u8)
            } else if i % 6 == 5 { gen_case(&mut rng, "bin", big && i % 50 == 49) } else { gen_case(&mut rng, "lib", big) };
            if i < 6 { rep.sample(case.clone()); }
            run_case(&case, &mut ctx, &mut drv, &mut rep);
        }
    }
    if watchdog_retries() > 0 {
        rep.branches.insert("watchdog-retries".to_string(), watchdog_retries());
        rep.notes.push(format!("{} child process(es) exceeded the {:?} watchdog and were re-run with twice the limit", watchdog_retries(), WATCHDOG));
    }
    rep.write(&args);
}
