//! C14 — binary data never reaches the output unless text mode is requested.
//!
//! `lb`  cases: real `LineBuffer` (probe hook) in `Quit`/`Convert` mode vs the Lean model, plus the
//!       doc-comment promise itself (buffer never holds the byte, offset = first occurrence).
//! `bs`  cases (library): real searcher (slice / reader with scripted reads and small capacities /
//!       path with and without mmap) x detection none/quit/convert: the event stream must satisfy the
//!       contract the theorems assume (`Clean` / `Guarded` / quit stops), and the bytes written by the
//!       real Standard printer must equal `Model.BinaryOut.render (stdRun det events)` and hold no NUL.
//! `cli` cases: the `rg` binary on a scratch tree (implicit vs explicit file, default/--binary/--text,
//!       --mmap/--no-mmap): stdout must equal the model's prediction (mode from `chooseDet ∘ fromLowArgs`,
//!       events from the library run of the same strategy), hold no NUL unless --text, and `-c` must
//!       follow `summaryCount`.
#[path = "../linebuffer_common.rs"]
mod linebuffer_common;
use grep_matcher::LineTerminator;
use grep_printer::StandardBuilder;
use grep_regex::{RegexMatcher, RegexMatcherBuilder};
use grep_searcher::{BinaryDetection, MmapChoice, SearcherBuilder};
use linebuffer_common::*;
use rgverif_harness::*;
use std::path::{Path, PathBuf};
use std::process::Command;

const PATTERNS: [&str; 16] = [
    "x", "ab", "a", "^b", "x$", "[ax]b", "zzz", "b x",
    // haystack anchors, non-multi-line anchors, (negated) word boundaries: what a line "is" for them
    // depends on the buffer the matcher is asked about
    "\\Aa", "x\\z", "(?-m:^)b", "x(?-m:$)", "\\Bb", "a\\B", "\\bx", "\\A",
];
const PATH: &str = "d/f";

#[derive(Clone, Copy, Debug, PartialEq, Eq)]
enum Det {
    None,
    Quit,
    Convert,
}

impl Det {
    fn s(&self) -> &'static str {
        match self {
            Det::None => "none",
            Det::Quit => "quit",
            Det::Convert => "convert",
        }
    }
    fn parse(s: &str) -> Option<Det> {
        match s {
            "none" => Some(Det::None),
            "quit" => Some(Det::Quit),
            "convert" => Some(Det::Convert),
            _ => None,
        }
    }
    fn lib(&self) -> BinaryDetection {
        match self {
            Det::None => BinaryDetection::none(),
            Det::Quit => BinaryDetection::quit(0),
            Det::Convert => BinaryDetection::convert(0),
        }
    }
}

#[derive(Clone, Debug)]
enum Strat {
    Slice,
    Reader { cap: Option<usize>, script: Vec<Step> },
    Path { mmap: bool },
}

#[derive(Clone, Debug)]
enum Input {
    Hex(Vec<u8>),
    /// seed, lines, NUL offset (usize::MAX = none)
    Gen(u64, usize, usize),
    /// directed: ~70 KiB of lines without `x`; beyond offset 65536 one line contains `x` (the only
    /// match of pattern `x`) and a NUL sits in the line chosen by `kind`:
    /// a = the line after the match, b = the line before it, p = three lines later (passthru),
    /// m = the matching line itself
    Ctx(u64, char),
    /// directed: lines without `x` up to `total` bytes; ONE NUL at offset `nul` (a window boundary
    /// -2..+1: the 64 KiB sniff window of the slice strategies, or a fill boundary of a small roll
    /// buffer); if `delivered` the line holding the NUL also holds an `x` (it matches pattern `x`),
    /// else no line before or at the NUL matches; `later` puts a matching line well after it
    Bnd { seed: u64, total: usize, nul: usize, delivered: bool, later: bool },
}

fn materialise_bnd(seed: u64, total: usize, nul: usize, delivered: bool, later: bool) -> Vec<u8> {
    let mut rng = Rng::new(seed);
    let mut out: Vec<u8> = vec![];
    while out.len() < total {
        for _ in 0..rng.range(1, 50) {
            out.push(*rng.pick(b"aab  "));
        }
        out.push(b'\n');
    }
    let nul = nul.min(out.len() - 1);
    out[nul] = 0;
    if delivered {
        // an `x` in the same line (before the NUL if there is room, else after it)
        let ls = out[..nul].iter().rposition(|&b| b == b'\n').map_or(0, |i| i + 1);
        let le = out[nul..].iter().position(|&b| b == b'\n').map_or(out.len(), |i| nul + i);
        if ls < nul {
            out[ls] = b'x';
        } else if nul + 1 < le {
            out[nul + 1] = b'x';
        }
    }
    if later {
        let from = (nul + 200).min(out.len());
        if let Some(i) = out[from..].iter().position(|&b| b == b'\n') {
            if from + i + 2 < out.len() && out[from + i + 1] != b'\n' {
                out[from + i + 1] = b'x';
            }
        }
    }
    out
}

fn materialise(i: &Input) -> Vec<u8> {
    match i {
        Input::Bnd { seed, total, nul, delivered, later } => materialise_bnd(*seed, *total, *nul, *delivered, *later),
        Input::Ctx(seed, kind) => materialise_ctx(*seed, *kind),
        Input::Hex(v) => v.clone(),
        Input::Gen(seed, lines, nul) => {
            let mut rng = Rng::new(*seed);
            let mut out = vec![];
            for _ in 0..*lines {
                for _ in 0..rng.range(0, 40) {
                    out.push(*rng.pick(b"aabx  "));
                }
                out.push(b'\n');
            }
            if *nul < out.len() {
                out[*nul] = 0;
            }
            out
        }
    }
}

fn materialise_ctx(seed: u64, kind: char) -> Vec<u8> {
    let mut rng = Rng::new(seed);
    let mut lines: Vec<Vec<u8>> = vec![];
    let mut total = 0usize;
    while total < 70000 {
        let mut l: Vec<u8> = (0..rng.range(1, 60)).map(|_| *rng.pick(b"aab  ")).collect();
        l.push(b'\n');
        total += l.len();
        lines.push(l);
    }
    // index of the first line starting beyond the sniff window (+ some slack)
    let mut off = 0;
    let mut k = 0;
    while off < 66000 {
        off += lines[k].len();
        k += 1;
    }
    k += rng.range(1, 8);
    let k = k.min(lines.len() - 5);
    lines[k] = b"ab x ba\n".to_vec();
    let target = match kind {
        'a' => k + 1,
        'b' => k - 1,
        'p' => k + 3,
        _ => k,
    };
    let pos = rng.below(lines[target].len() - 1);
    lines[target][pos] = 0;
    lines.concat()
}

fn input_str(i: &Input) -> String {
    match i {
        Input::Bnd { seed, total, nul, delivered, later } => {
            format!("bnd:{}:{}:{}:{}:{}", seed, total, nul, *delivered as u8, *later as u8)
        }
        Input::Ctx(s, k) => format!("ctx:{}:{}", s, k),
        Input::Hex(v) => hex(v),
        Input::Gen(s, l, n) => format!("gen:{}:{}:{}", s, l, n),
    }
}

fn parse_input(s: &str) -> Option<Input> {
    if let Some(r) = s.strip_prefix("bnd:") {
        let f: Vec<&str> = r.split(':').collect();
        if f.len() != 5 {
            return None;
        }
        return Some(Input::Bnd {
            seed: f[0].parse().ok()?,
            total: f[1].parse().ok()?,
            nul: f[2].parse().ok()?,
            delivered: f[3] == "1",
            later: f[4] == "1",
        });
    }
    if let Some(r) = s.strip_prefix("ctx:") {
        let f: Vec<&str> = r.split(':').collect();
        if f.len() != 2 {
            return None;
        }
        return Some(Input::Ctx(f[0].parse().ok()?, f[1].chars().next()?));
    }
    if let Some(r) = s.strip_prefix("gen:") {
        let f: Vec<&str> = r.split(':').collect();
        if f.len() != 3 {
            return None;
        }
        Some(Input::Gen(f[0].parse().ok()?, f[1].parse().ok()?, f[2].parse().ok()?))
    } else {
        Some(Input::Hex(unhex(s)?))
    }
}

/// How the searcher is set up beyond the detection mode.
#[derive(Clone, Copy, Debug, Default, PartialEq, Eq)]
struct Opts {
    /// 0: no multi_line; 1: `multi_line(true)` with a matcher built as `rg -U` builds it (no line
    /// terminator on the matcher) for a pattern that cannot match `\n` -- the searcher must fall back
    /// to the line-by-line strategies; 2: a pattern that can match `\n` (really `MultiLine`)
    ml: u8,
    /// the detection mode is set with `Searcher::set_binary_detection` AFTER `build()` (as
    /// `core/search.rs` does for every file) instead of on the builder
    late: bool,
    /// `invert_match` / `-v`
    invert: bool,
    /// `--crlf`: CRLF line terminator on searcher and matcher
    crlf: bool,
}

/// patterns that can match the terminator (only these make `multi_line(true)` a real multi-line search)
const ML_PATTERNS: [&str; 4] = ["x\\n?", "b\\s*x", "x[^a]*", "a\\nb"];

fn matcher_o(pat: &str, det: Det, o: Opts) -> Option<RegexMatcher> {
    let mut b = RegexMatcherBuilder::new();
    b.multi_line(true);
    if o.ml == 0 {
        b.line_terminator(Some(b'\n'));
    }
    if o.crlf {
        // as rg's hiargs does: crlf(true) sets the terminator to \n, -U takes it away again
        b.crlf(true);
        if o.ml > 0 {
            b.line_terminator(None);
        }
    }
    if det != Det::None {
        b.ban_byte(Some(0));
    }
    b.build(pat).ok()
}

fn matcher(pat: &str, det: Det) -> Option<RegexMatcher> {
    matcher_o(pat, det, Opts::default())
}

fn builder(det: Det, after: usize, before: usize, passthru: bool) -> SearcherBuilder {
    let mut b = SearcherBuilder::new();
    b.line_terminator(LineTerminator::byte(b'\n'))
        .line_number(true)
        .after_context(after)
        .before_context(before)
        .passthru(passthru)
        .binary_detection(det.lib());
    b
}

/// the searcher of one run: builder settings, then (if `late`) the detection mode the way rg sets it
fn build_searcher(det: Det, after: usize, before: usize, passthru: bool, o: Opts, strat: &Strat) -> grep_searcher::Searcher {
    let mut b = builder(if o.late { Det::None } else { det }, after, before, passthru);
    b.multi_line(o.ml > 0).invert_match(o.invert);
    if o.crlf {
        b.line_terminator(LineTerminator::crlf());
    }
    match strat {
        Strat::Reader { cap: Some(c), .. } => {
            b.verif_buffer_capacity(*c);
        }
        Strat::Path { mmap: true } => {
            // SAFETY: private scratch file, not modified while mapped
            b.memory_map(unsafe { MmapChoice::auto() });
        }
        _ => {}
    }
    let mut s = b.build();
    if o.late {
        s.set_binary_detection(det.lib());
    }
    s
}

/// events (RecSink text) -> S-expression list for the model; `None` if the run ended with an error
fn events_sx(ev: &[String]) -> Option<String> {
    let mut out = vec![];
    for e in ev {
        let f: Vec<&str> = e.split(' ').collect();
        match f[0] {
            "begin" => {}
            "finish" => {}
            "m" => out.push(format!("(m {} {} {})", f[1], f[2], f[3])),
            "cB" | "cA" | "cO" => out.push(format!("(c {} {} {})", f[1], f[2], f[3])),
            "--" => out.push("(brk)".into()),
            "bin" => out.push(format!("(bin {})", f[1])),
            _ => return None,
        }
    }
    Some(format!("(events {})", out.join(" ")))
}

struct LibRun {
    events: Vec<String>,
    printed: Vec<u8>,
}

/// Run the real searcher twice on the same input/strategy: once into the recording sink, once into
/// the real Standard printer (path "d/f", line numbers, no colour).
fn lib_run(
    m: &RegexMatcher,
    det: Det,
    after: usize,
    before: usize,
    passthru: bool,
    inp: &[u8],
    strat: &Strat,
    file: Option<&Path>,
) -> LibRun {
    lib_run_seq(m, det, after, before, passthru, &[(inp, file, PATH)], strat, Opts::default()).pop().unwrap()
}

fn lib_run_o(
    m: &RegexMatcher,
    det: Det,
    after: usize,
    before: usize,
    passthru: bool,
    inp: &[u8],
    strat: &Strat,
    file: Option<&Path>,
    o: Opts,
) -> LibRun {
    lib_run_seq(m, det, after, before, passthru, &[(inp, file, PATH)], strat, o).pop().unwrap()
}

/// Several inputs searched IN SEQUENCE by one `Searcher` (one worker of rg: the roll buffer and the
/// printer are reused from file to file), once into a recording sink and once into the real printer.
fn lib_run_seq(
    m: &RegexMatcher,
    det: Det,
    after: usize,
    before: usize,
    passthru: bool,
    inputs: &[(&[u8], Option<&Path>, &str)],
    strat: &Strat,
    o: Opts,
) -> Vec<LibRun> {
    let mk = || build_searcher(det, after, before, passthru, o, strat);
    let mut s1 = mk();
    let mut s2 = mk();
    let mut printer = StandardBuilder::new().build_no_color(vec![]);
    let mut out = vec![];
    let mut printed_so_far = 0usize;
    for (inp, file, path) in inputs {
        let mut sink = RecSink::new();
        let r = match strat {
            Strat::Slice => s1.search_slice(m, inp, &mut sink),
            Strat::Reader { script, .. } => s1.search_reader(m, ScriptedReader::new(inp, script), &mut sink),
            Strat::Path { .. } => s1.search_path(m, file.unwrap(), &mut sink),
        };
        if let Err(e) = r {
            sink.ev.push(err_class(&e).to_string());
        }
        let _ = match strat {
            Strat::Slice => s2.search_slice(m, inp, printer.sink_with_path(m, path)),
            Strat::Reader { script, .. } => {
                s2.search_reader(m, ScriptedReader::new(inp, script), printer.sink_with_path(m, path))
            }
            Strat::Path { .. } => s2.search_path(m, file.unwrap(), printer.sink_with_path(m, path)),
        };
        let all = printer.get_mut().get_ref().clone();
        out.push(LibRun { events: sink.ev, printed: all[printed_so_far..].to_vec() });
        printed_so_far = all.len();
    }
    out
}

fn ev_bytes(e: &str) -> Option<Vec<u8>> {
    let f: Vec<&str> = e.split(' ').collect();
    match f[0] {
        "m" | "cB" | "cA" | "cO" => unhex(f[3]),
        _ => None,
    }
}

/// The initial sniff of the slice strategies (`SliceByLine::run`, `MultiLine::run`) covers
/// `[0, min(len, DEFAULT_BUFFER_CAPACITY))` (source-anchored in checks/C14.json).
const SNIFF_WINDOW: usize = 64 * (1 << 10);

/// The contract of the searcher that the theorems `C14_stdout` / decision tables assume, and its
/// completeness half: WHEN `binary_data` must be reported (the sink of these runs never stops).
/// Reader strategy: the roll buffer sees every byte, so the first NUL is always reported.
/// Slice strategies: a NUL inside the sniff window is reported before anything else.
fn check_contract(det: Det, reader: bool, inp: &[u8], ev: &[String]) -> Option<String> {
    let first_nul = inp.iter().position(|&b| b == 0);
    let errored = ev.last().map_or(false, |e| e.starts_with("err:"));
    if det != Det::None && !errored {
        let reported: Option<usize> = ev.iter().find_map(|e| e.strip_prefix("bin ").and_then(|r| r.parse().ok()));
        if let Some(n) = first_nul {
            if reader && reported != Some(n) {
                return Some(format!(
                    "reader strategy: the input has a NUL at {} but binary_data was {}",
                    n,
                    reported.map_or("never reported".to_string(), |o| format!("reported at {}", o))
                ));
            }
            if !reader && n < SNIFF_WINDOW.min(inp.len()) {
                if reported != Some(n) {
                    return Some(format!(
                        "slice strategy: NUL at {} inside the {}-byte sniff window but binary_data was {}",
                        n,
                        SNIFF_WINDOW,
                        reported.map_or("never reported".to_string(), |o| format!("reported at {}", o))
                    ));
                }
                if ev.get(1).map_or(true, |e| !e.starts_with("bin ")) {
                    return Some("slice strategy: something was delivered before the sniffed binary_data".into());
                }
            }
        }
    }
    let mut bin_seen: Option<usize> = None;
    for (i, e) in ev.iter().enumerate() {
        if let Some(r) = e.strip_prefix("bin ") {
            let off: usize = r.parse().ok()?;
            if det == Det::None {
                return Some(format!("binary_data reported at {} although detection is off", off));
            }
            if inp.get(off) != Some(&0) {
                return Some(format!("binary_data offset {} is not a NUL of the input", off));
            }
            if reader && Some(off) != first_nul {
                return Some(format!("reader strategy reports offset {} but the first NUL is at {:?}", off, first_nul));
            }
            if bin_seen.is_some() {
                return Some("binary_data reported twice".into());
            }
            bin_seen = Some(off);
            continue;
        }
        if let Some(bs) = ev_bytes(e) {
            let has_nul = bs.contains(&0);
            match det {
                Det::None => {}
                Det::Quit => {
                    if has_nul {
                        return Some(format!("Quit mode delivered a line with a NUL (event {})", i));
                    }
                    if bin_seen.is_some() {
                        return Some(format!("Quit mode delivered a line after binary_data (event {})", i));
                    }
                }
                Det::Convert => {
                    if has_nul && (reader || bin_seen.is_none()) {
                        return Some(format!(
                            "Convert mode delivered a line with a NUL {} (event {})",
                            if reader { "from the roll buffer" } else { "before binary_data" },
                            i
                        ));
                    }
                }
            }
        }
        if e == "--" && det == Det::Quit && bin_seen.is_some() {
            return Some("Quit mode continued after binary_data".into());
        }
        if let Some(r) = e.strip_prefix("finish ") {
            let f: Vec<&str> = r.split(' ').collect();
            let fb = f.get(1).copied().unwrap_or("-");
            if (fb != "-") != bin_seen.is_some() {
                return Some(format!("finish.binary_byte_offset {} vs binary_data {:?}", fb, bin_seen));
            }
        }
    }
    None
}

/// Second sentence of the property on one printed search (`out` = bytes written for this file).
/// Returns (detail, class) of a violation. The class is decided by the guard of the Lean partial theorem.
fn second_sentence(det: Det, events: &[String], out: &[u8], _sx: &str, _drv: &mut Driver) -> Option<(String, &'static str)> {
    if !events.iter().any(|e| e.starts_with("bin ")) {
        return None;
    }
    let text = String::from_utf8_lossy(out).to_string();
    let last = text.lines().last().unwrap_or("");
    match det {
        Det::None => None,
        Det::Quit => {
            // dropped, or cut off with a warning if anything was already printed (in full since fix ea82056:
            // theorem implicit_cut_with_warning); the warning says "after match" iff a line matched
            let b = events.iter().position(|e| e.starts_with("bin ")).unwrap_or(events.len());
            let matched_before = events[..b].iter().any(|e| e.starts_with("m "));
            let want = if matched_before {
                "WARNING: stopped searching binary file after match (found"
            } else {
                "WARNING: stopped searching binary file (found"
            };
            if !out.is_empty() && !last.contains(want) {
                return Some((
                    format!(
                        "something was printed but the output does not end with the warning {:?}: {:?}",
                        want,
                        show(&out[..out.len().min(300)])
                    ),
                    "",
                ));
            }
            None
        }
        Det::Convert => {
            // no notice and no match only if no line matches
            let matched = events.iter().any(|e| e.starts_with("m "));
            let notice = text.lines().any(|l| l.contains("binary file matches (found"));
            let match_line = text.lines().any(|l| {
                l.strip_prefix("d/f:").map_or(false, |r| r.split(':').next().map_or(false, |n| !n.is_empty() && n.bytes().all(|b| b.is_ascii_digit())))
            });
            if matched && !notice && !match_line {
                let class = "";
                return Some((
                    format!("a line matches but neither a match nor the notice was written: {:?}", show(&out[..out.len().min(300)])),
                    class,
                ));
            }
            None
        }
    }
}

// ---------------------------------------------------------------- bs cases

#[derive(Clone, Debug)]
struct Bs {
    pat: String,
    det: Det,
    after: usize,
    before: usize,
    passthru: bool,
    input: Input,
    strat: Strat,
    o: Opts,
}

fn strat_str(s: &Strat) -> String {
    match s {
        Strat::Slice => "s".into(),
        Strat::Reader { cap, script } => {
            format!("r:{}:{}", cap.map_or("-".to_string(), |c| c.to_string()), script_str(script))
        }
        Strat::Path { mmap } => format!("p:{}", *mmap as u8),
    }
}

fn parse_strat(s: &str) -> Option<Strat> {
    let f: Vec<&str> = s.split(':').collect();
    match f[0] {
        "s" => Some(Strat::Slice),
        "r" if f.len() == 3 => Some(Strat::Reader {
            cap: if f[1] == "-" { None } else { Some(f[1].parse().ok()?) },
            script: parse_script(f[2])?,
        }),
        "p" if f.len() == 2 => Some(Strat::Path { mmap: f[1] == "1" }),
        _ => None,
    }
}

impl Bs {
    fn case_str(&self) -> String {
        format!(
            "bs pat={} det={} A={} B={} pt={} inp={} strat={} ml={} late={} inv={} crlf={}",
            hex(self.pat.as_bytes()),
            self.det.s(),
            self.after,
            self.before,
            self.passthru as u8,
            input_str(&self.input),
            strat_str(&self.strat),
            self.o.ml,
            self.o.late as u8,
            self.o.invert as u8,
            self.o.crlf as u8
        )
    }
    fn parse(parts: &[&str]) -> Option<Bs> {
        let get = |k: &str| parts.iter().find_map(|p| p.strip_prefix(k).and_then(|r| r.strip_prefix('=')));
        Some(Bs {
            pat: String::from_utf8(unhex(get("pat")?)?).ok()?,
            det: Det::parse(get("det")?)?,
            after: get("A")?.parse().ok()?,
            before: get("B")?.parse().ok()?,
            passthru: get("pt")? == "1",
            input: parse_input(get("inp")?)?,
            strat: parse_strat(get("strat")?)?,
            o: Opts {
                ml: get("ml").and_then(|v| v.parse().ok()).unwrap_or(0),
                late: get("late").map_or(false, |v| v == "1"),
                invert: get("inv").map_or(false, |v| v == "1"),
                crlf: get("crlf").map_or(false, |v| v == "1"),
            },
        })
    }
}

fn scratch_file(scratch: &Path, sub: &str, inp: &[u8]) -> PathBuf {
    let dir = scratch.join(sub).join("d");
    std::fs::create_dir_all(&dir).expect("scratch dir");
    let p = dir.join("f");
    std::fs::write(&p, inp).expect("scratch file");
    p
}

fn run_bs(case: &str, c: &Bs, args: &Args, drv: &mut Driver, rep: &mut Report) {
    rep.eval();
    let m = match matcher_o(&c.pat, c.det, c.o) {
        Some(m) => m,
        None => {
            rep.branch("bs:pattern-rejected");
            return;
        }
    };
    // multi_line requested: which strategy that means is decided here by the rule, not by the code
    let mut eff_ml = 0u8;
    {
        use grep_matcher::Matcher;
        let downgrades = m.line_terminator() == Some(LineTerminator::byte(b'\n'))
            || m.non_matching_bytes().map_or(false, |nm| nm.contains(b'\n'));
        if c.o.ml > 0 {
            eff_ml = if downgrades { 1 } else { 2 };
            if eff_ml != c.o.ml {
                // the generator guessed the other kind (e.g. `\\Aa` has no non-matching-byte set):
                // the case is checked as the kind the rule says it is
                rep.branch("bs:ml-kind-regenerated");
            }
        }
    }
    let c = &Bs { o: Opts { ml: eff_ml, ..c.o }, ..c.clone() };
    let inp = materialise(&c.input);
    let file = if let Strat::Path { .. } = c.strat { Some(scratch_file(&args.scratch, "bs", &inp)) } else { None };
    let run = lib_run_o(&m, c.det, c.after, c.before, c.passthru, &inp, &c.strat, file.as_deref(), c.o);
    // a really multi-line search reads everything onto the heap and searches it as a slice
    let reader = c.o.ml != 2
        && match c.strat {
            Strat::Reader { .. } => true,
            Strat::Path { mmap } => !mmap || inp.is_empty(),
            Strat::Slice => false,
        };
    rep.branch(&format!("bs:{}:{}", c.det.s(), if reader { "reader" } else { "slice" }));
    match c.o.ml {
        1 => rep.branch(if reader { "bs:ml-downgraded:reader" } else { "bs:ml-downgraded:slice" }),
        2 => rep.branch("bs:ml-real"),
        _ => {}
    }
    if c.o.late {
        rep.branch("bs:detection-set-after-build");
    }
    if let Input::Bnd { nul, delivered, .. } = &c.input {
        rep.branch(&format!(
            "bs:boundary:{}:{}",
            if *nul + 2 >= SNIFF_WINDOW && *nul <= SNIFF_WINDOW + 1 { "sniff-window" } else { "fill" },
            if *delivered { "delivered" } else { "not-delivered" }
        ));
    }
    let nul_at = inp.iter().position(|&b| b == 0);
    if let Some(n) = nul_at {
        rep.branch(if n == 0 {
            "bs:nul-first-byte"
        } else if n + 1 == inp.len() {
            "bs:nul-last-byte"
        } else {
            "bs:nul-inside"
        });
        if let Strat::Reader { cap: Some(cap), .. } = c.strat {
            if n >= cap.max(3) {
                rep.branch("bs:nul-beyond-first-buffer");
            }
        }
        if n >= 65536 {
            rep.branch("bs:nul-beyond-64k");
        }
    }
    // contract assumed by the theorems
    if let Some(d) = check_contract(c.det, reader, &inp, &run.events) {
        rep.violation(Violation {
            kind: "impl_vs_spec".into(),
            class: "".into(),
            tie: "searcher event stream vs the contract assumed by C14_stdout (Clean / Guarded / quit stops)".into(),
            case: case.to_string(),
            detail: d,
        });
    }
    // printer vs model
    if let Some(sx) = events_sx(&run.events) {
        let model = drv.ask(&format!("c14.print {} {} {}", c.det.s(), hex(PATH.as_bytes()), sx));
        // (the printer model renders one line per event: a really multi-line match is outside it)
        // (with a CRLF searcher the printer ends unterminated lines and `--` with \r\n, the model with \n:
        // those cases are compared modulo a CR in front of a LF)
        let same = if c.o.crlf {
            rep.branch("bs:crlf(print compared modulo CRs before LF)");
            let strip = |v: &[u8]| -> Vec<u8> {
                let mut o = Vec::with_capacity(v.len());
                for &b in v.iter() {
                    if b == b'\n' {
                        // drop the run of CRs in front of this LF
                        while o.last() == Some(&b'\r') {
                            o.pop();
                        }
                    }
                    o.push(b);
                }
                o
            };
            unhex(&model).map_or(false, |mv| strip(&mv) == strip(&run.printed))
        } else {
            model == hex(&run.printed)
        };
        if c.o.ml != 2 && !same {
            rep.violation(Violation {
                kind: "impl_vs_model".into(),
                class: "".into(),
                tie: "Standard printer (matched/context/binary_data/finish/write_binary_message) vs Model.BinaryOut.stdRun/render (theorems C14_stdout, explicit_notice_only, implicit_dropped_or_cut, text_eq_no_detection)".into(),
                case: case.to_string(),
                detail: format!(
                    "printer wrote {:?}, model {:?}",
                    show(&run.printed),
                    show(&unhex(&model).unwrap_or_else(|| model.clone().into_bytes()))
                ),
            });
        }
        if let Some((d, class)) = second_sentence(c.det, &run.events, &run.printed, &sx, drv) {
            rep.branch("class:unclassified");
            rep.violation(Violation {
                kind: "impl_vs_spec".into(),
                class: class.into(),
                tie: "second sentence of C14 (dropped / cut with warning; notice iff a line matches) on the Standard printer".into(),
                case: case.to_string(),
                detail: d,
            });
        }
    } else {
        rep.branch("bs:search-error");
    }
    // the property itself
    if c.det != Det::None && run.printed.contains(&0) {
        rep.violation(Violation {
            kind: "impl_vs_spec".into(),
            class: "".into(),
            tie: "no 0x00 in the Standard printer's output unless detection is off".into(),
            case: case.to_string(),
            detail: format!("printer wrote a NUL: {:?}", show(&run.printed)),
        });
    }
    if run.events.iter().any(|e| e.starts_with("bin ")) {
        rep.branch("bs:binary-detected");
        if run.events.iter().any(|e| e.starts_with("m ")) {
            rep.nontrivial(case);
        }
    }
}

// ---------------------------------------------------------------- cli cases

#[derive(Clone, Debug)]
struct Cli {
    pat: String,
    mode: String, // auto | binary | text
    explicit: bool,
    mmap: bool,
    after: usize,
    before: usize,
    passthru: bool,
    input: Input,
    /// `-U` (only with patterns that cannot match a newline: the searcher falls back to line mode)
    ml: bool,
    /// `-v`
    invert: bool,
}

impl Cli {
    fn case_str(&self) -> String {
        format!(
            "cli pat={} mode={} ex={} mmap={} A={} B={} pt={} inp={} U={} v={}",
            hex(self.pat.as_bytes()),
            self.mode,
            self.explicit as u8,
            self.mmap as u8,
            self.after,
            self.before,
            self.passthru as u8,
            input_str(&self.input),
            self.ml as u8,
            self.invert as u8
        )
    }
    fn parse(parts: &[&str]) -> Option<Cli> {
        let get = |k: &str| parts.iter().find_map(|p| p.strip_prefix(k).and_then(|r| r.strip_prefix('=')));
        Some(Cli {
            pat: String::from_utf8(unhex(get("pat")?)?).ok()?,
            mode: get("mode")?.to_string(),
            explicit: get("ex")? == "1",
            mmap: get("mmap")? == "1",
            after: get("A")?.parse().ok()?,
            before: get("B")?.parse().ok()?,
            passthru: get("pt")? == "1",
            input: parse_input(get("inp")?)?,
            ml: get("U").map_or(false, |v| v == "1"),
            invert: get("v").map_or(false, |v| v == "1"),
        })
    }
}

fn rg_cmd(rg: &Path, cwd: &Path, c: &Cli, count: bool) -> Vec<u8> {
    let mut cmd = Command::new(rg);
    cmd.current_dir(cwd).args(["--no-config", "--no-ignore", "-j1", "-H", "--color", "never"]);
    if count {
        cmd.arg("-c");
    } else {
        cmd.args(["--no-heading", "-n"]);
        if c.after > 0 {
            cmd.arg(format!("-A{}", c.after));
        }
        if c.before > 0 {
            cmd.arg(format!("-B{}", c.before));
        }
        if c.passthru {
            cmd.arg("--passthru");
        }
    }
    match c.mode.as_str() {
        "binary" => {
            cmd.arg("--binary");
        }
        "text" => {
            cmd.arg("--text");
        }
        _ => {}
    }
    cmd.arg(if c.mmap { "--mmap" } else { "--no-mmap" });
    if c.ml {
        cmd.arg("-U");
    }
    if c.invert {
        cmd.arg("-v");
    }
    cmd.arg("-e").arg(&c.pat);
    cmd.arg(if c.explicit { "d/f" } else { "d" });
    let out = cmd.output().expect("run rg");
    out.stdout
}

fn run_cli(case: &str, c: &Cli, args: &Args, drv: &mut Driver, rep: &mut Report) {
    let rg = match &args.rg {
        Some(p) => p.clone(),
        None => {
            rep.branch("cli:skipped-no-rg");
            return;
        }
    };
    rep.eval();
    let inp = materialise(&c.input);
    let file = scratch_file(&args.scratch, "cli", &inp);
    let cwd = args.scratch.join("cli");
    // which detection does this file get? (model of hiargs.rs + search.rs)
    let det_s = drv.ask(&format!("c14.det {} 0 {}", c.mode, c.explicit as u8));
    let det = match Det::parse(&det_s) {
        Some(d) => d,
        None => {
            rep.notes.push(format!("driver answered {} for c14.det", det_s));
            return;
        }
    };
    // rg sets the detection mode per file AFTER building the searcher; `-U` requests multi_line
    let o = Opts { ml: c.ml as u8, late: true, invert: c.invert, crlf: false };
    let m = match matcher_o(&c.pat, det, o) {
        Some(m) => m,
        None => {
            rep.branch("cli:pattern-rejected");
            return;
        }
    };
    rep.branch(&format!(
        "cli:{}:{}:{}",
        c.mode,
        if c.explicit { "explicit" } else { "implicit" },
        if c.mmap { "mmap" } else { "read" }
    ));
    if c.ml {
        use grep_matcher::Matcher;
        let downgrades = m.line_terminator() == Some(LineTerminator::byte(b'\n'))
            || m.non_matching_bytes().map_or(false, |nm| nm.contains(b'\n'));
        if !downgrades {
            // a really multi-line search: matches span lines, outside the printer model
            // (the byte-for-byte printer comparison is skipped), but the property itself is not:
            // the searcher contract and "no 0x00 on stdout unless --text" are checked on the real run
            rep.branch("cli:-U-real(property-only)");
            let strat = Strat::Path { mmap: c.mmap };
            let run = lib_run_o(&m, det, c.after, c.before, c.passthru, &inp, &strat, Some(&file), o);
            if let Some(d) = check_contract(det, false, &inp, &run.events) {
                rep.violation(Violation {
                    kind: "impl_vs_spec".into(),
                    class: "".into(),
                    tie: "searcher event stream (real multi-line search) vs the contract assumed by C14_stdout".into(),
                    case: case.to_string(),
                    detail: d,
                });
            }
            let stdout = rg_cmd(&rg, &cwd, c, false);
            if c.mode != "text" && stdout.contains(&0) {
                rep.violation(Violation {
                    kind: "impl_vs_spec".into(),
                    class: "".into(),
                    tie: "no 0x00 on rg's stdout unless --text (real multi-line search)".into(),
                    case: case.to_string(),
                    detail: format!("rg wrote a NUL byte: {:?}", show(&stdout[..stdout.len().min(300)])),
                });
            }
            if inp.contains(&0) && !stdout.is_empty() {
                rep.nontrivial(case);
            }
            return;
        }
        rep.branch(if c.mmap { "cli:-U-downgraded:mmap" } else { "cli:-U-downgraded:read" });
    }
    // the same strategy at library level gives the event stream
    let strat = Strat::Path { mmap: c.mmap };
    let run = lib_run_o(&m, det, c.after, c.before, c.passthru, &inp, &strat, Some(&file), o);
    if let Some(d) = check_contract(det, !c.mmap || inp.is_empty(), &inp, &run.events) {
        rep.violation(Violation {
            kind: "impl_vs_spec".into(),
            class: "".into(),
            tie: "searcher event stream (as rg drives it: set_binary_detection after build, -U) vs the contract assumed by C14_stdout".into(),
            case: case.to_string(),
            detail: d,
        });
    }
    let stdout = rg_cmd(&rg, &cwd, c, false);
    let sx = match events_sx(&run.events) {
        Some(s) => s,
        None => {
            rep.branch("cli:search-error");
            return;
        }
    };
    let model = drv.ask(&format!("c14.print {} {} {}", det.s(), hex(PATH.as_bytes()), sx));
    if model != hex(&stdout) {
        rep.violation(Violation {
            kind: "impl_vs_model".into(),
            class: "".into(),
            tie: "rg stdout (hiargs::BinaryDetection::from_low_args, search.rs explicit/implicit choice, searcher, Standard printer) vs Model.BinaryOut (theorems detection_table, C14_stdout, explicit_notice_only, implicit_dropped_or_cut, text_eq_no_detection)".into(),
            case: case.to_string(),
            detail: format!(
                "mode {} explicit {} mmap {}: rg wrote {:?}, model ({}) {:?}",
                c.mode,
                c.explicit,
                c.mmap,
                show(&stdout[..stdout.len().min(300)]),
                det.s(),
                show(&unhex(&model).map(|v| v[..v.len().min(300)].to_vec()).unwrap_or_default())
            ),
        });
    }
    // ---- the property on the real binary
    let has_nul = inp.contains(&0);
    if c.mode != "text" && stdout.contains(&0) {
        rep.violation(Violation {
            kind: "impl_vs_spec".into(),
            class: "".into(),
            tie: "no 0x00 on rg's stdout unless --text".into(),
            case: case.to_string(),
            detail: format!("rg wrote a NUL byte: {:?}", show(&stdout[..stdout.len().min(300)])),
        });
    }
    let detected = run.events.iter().any(|e| e.starts_with("bin "));
    if c.mode == "text" {
        // --text equals a search with detection disabled (library run with BinaryDetection::none)
        if stdout != run.printed {
            rep.violation(Violation {
                kind: "impl_vs_spec".into(),
                class: "".into(),
                tie: "rg --text vs searcher with BinaryDetection::none + Standard printer".into(),
                case: case.to_string(),
                detail: format!(
                    "rg --text wrote {:?}, detection-off search {:?}",
                    show(&stdout[..stdout.len().min(300)]),
                    show(&run.printed[..run.printed.len().min(300)])
                ),
            });
        }
    } else if detected {
        if let Some((d, class)) = second_sentence(det, &run.events, &stdout, &sx, drv) {
            rep.branch("class:unclassified");
            rep.violation(Violation {
                kind: "impl_vs_spec".into(),
                class: class.into(),
                tie: "second sentence of C14 (dropped / cut with warning; notice iff a line matches) on rg's stdout".into(),
                case: case.to_string(),
                detail: d,
            });
        }
        let text = String::from_utf8_lossy(&stdout).to_string();
        if det == Det::Quit {
            rep.branch(if stdout.is_empty() { "cli:implicit-dropped" } else { "cli:implicit-cut" });
        } else {
            rep.branch(if text.contains("binary file matches (found") { "cli:notice" } else { "cli:no-notice" });
        }
    }
    // ---- -c follows summaryCount
    if c.after == 0 && c.before == 0 && !c.passthru {
        let n = run_count_events(&m, det, &inp, c.mmap, &file, o);
        let cnt = rg_cmd(&rg, &cwd, c, true);
        let want_n: usize = drv.ask(&format!("c14.count {} {} {}", det.s(), n.1.map_or("-".to_string(), |x| x.to_string()), n.0)).parse().unwrap_or(usize::MAX);
        let want = if want_n > 0 { format!("{}:{}\n", PATH, want_n).into_bytes() } else { vec![] };
        if cnt != want {
            rep.violation(Violation {
                kind: "impl_vs_model".into(),
                class: "".into(),
                tie: "rg -c vs Model.BinaryOut.summaryCount (theorem summary_squash)".into(),
                case: case.to_string(),
                detail: format!("rg -c wrote {:?}, model {:?}", show(&cnt), show(&want)),
            });
        }
        if n.1.is_some() && det == Det::Quit {
            rep.branch("cli:count-squashed");
        }
    }
    if has_nul && detected && run.events.iter().any(|e| e.starts_with("m ")) {
        rep.nontrivial(case);
    }
}

/// match events and finish.binary_byte_offset of a search that is never stopped by its sink
fn run_count_events(m: &RegexMatcher, det: Det, inp: &[u8], mmap: bool, file: &Path, o: Opts) -> (usize, Option<u64>) {
    let run = lib_run_o(m, det, 0, 0, false, inp, &Strat::Path { mmap }, Some(file), o);
    let n = run.events.iter().filter(|e| e.starts_with("m ")).count();
    let bo = run.events.iter().find_map(|e| e.strip_prefix("finish ")).and_then(|r| r.split(' ').nth(1).and_then(|x| x.parse().ok()));
    (n, bo)
}

// ---------------------------------------------------------------- seq cases: one Searcher, two inputs

#[derive(Clone, Debug)]
struct Seq {
    pat: String,
    det: Det,
    after: usize,
    before: usize,
    passthru: bool,
    inp1: Input,
    inp2: Input,
    strat: Strat,
}

impl Seq {
    fn case_str(&self) -> String {
        format!(
            "seq pat={} det={} A={} B={} pt={} inp1={} inp2={} strat={}",
            hex(self.pat.as_bytes()),
            self.det.s(),
            self.after,
            self.before,
            self.passthru as u8,
            input_str(&self.inp1),
            input_str(&self.inp2),
            strat_str(&self.strat)
        )
    }
    fn parse(parts: &[&str]) -> Option<Seq> {
        let get = |k: &str| parts.iter().find_map(|p| p.strip_prefix(k).and_then(|r| r.strip_prefix('=')));
        Some(Seq {
            pat: String::from_utf8(unhex(get("pat")?)?).ok()?,
            det: Det::parse(get("det")?)?,
            after: get("A")?.parse().ok()?,
            before: get("B")?.parse().ok()?,
            passthru: get("pt")? == "1",
            inp1: parse_input(get("inp1")?)?,
            inp2: parse_input(get("inp2")?)?,
            strat: parse_strat(get("strat")?)?,
        })
    }
}

/// A search must not depend on what the same `Searcher` (its roll buffer) searched before.
fn run_seq(case: &str, c: &Seq, args: &Args, rep: &mut Report) {
    rep.eval();
    let m = match matcher(&c.pat, c.det) {
        Some(m) => m,
        None => return,
    };
    let i1 = materialise(&c.inp1);
    let i2 = materialise(&c.inp2);
    let (f1, f2) = if let Strat::Path { .. } = c.strat {
        (Some(scratch_file(&args.scratch, "seq1", &i1)), Some(scratch_file(&args.scratch, "seq2", &i2)))
    } else {
        (None, None)
    };
    let both = lib_run_seq(
        &m,
        c.det,
        c.after,
        c.before,
        c.passthru,
        &[(&i1, f1.as_deref(), PATH), (&i2, f2.as_deref(), PATH)],
        &c.strat,
        Opts::default(),
    );
    let fresh = lib_run(&m, c.det, c.after, c.before, c.passthru, &i2, &c.strat, f2.as_deref());
    rep.branch(&format!("seq:{}", c.det.s()));
    let bin1 = both[0].events.iter().any(|e| e.starts_with("bin "));
    let bin2 = fresh.events.iter().any(|e| e.starts_with("bin "));
    if bin1 && bin2 {
        rep.branch("seq:both-binary");
        rep.nontrivial(case);
    }
    let grown = matches!(c.strat, Strat::Reader { cap: Some(_), .. });
    if grown {
        rep.branch("seq:small-capacity(no-equality)");
    }
    if !grown && (both[1].events != fresh.events || both[1].printed != fresh.printed) {
        rep.violation(Violation {
            kind: "impl_vs_spec".into(),
            class: "".into(),
            tie: "second search of a reused Searcher vs the same search on a fresh Searcher (theorem linebuffer_reused)".into(),
            case: case.to_string(),
            detail: format!(
                "after an earlier search the second input gives events {:?} / output {:?}; a fresh searcher gives {:?} / {:?}",
                &both[1].events[..both[1].events.len().min(6)],
                show(&both[1].printed[..both[1].printed.len().min(200)]),
                &fresh.events[..fresh.events.len().min(6)],
                show(&fresh.printed[..fresh.printed.len().min(200)])
            ),
        });
    }
    if c.det != Det::None && both[1].printed.contains(&0) {
        rep.violation(Violation {
            kind: "impl_vs_spec".into(),
            class: "".into(),
            tie: "no 0x00 in the Standard printer's output unless detection is off".into(),
            case: case.to_string(),
            detail: format!("printer wrote a NUL for the second input: {:?}", show(&both[1].printed[..both[1].printed.len().min(200)])),
        });
    }
}

// ---------------------------------------------------------------- cli2 cases: rg -j1 over two files

#[derive(Clone, Debug)]
struct Cli2 {
    pat: String,
    mode: String,
    explicit: bool,
    mmap: bool,
    inp1: Input,
    inp2: Input,
    /// `-A1`: with context (and no heading) the files' outputs are separated by the search separator `--`
    ctx: bool,
}

impl Cli2 {
    fn case_str(&self) -> String {
        format!(
            "cli2 pat={} mode={} ex={} mmap={} inp1={} inp2={} ctx={}",
            hex(self.pat.as_bytes()),
            self.mode,
            self.explicit as u8,
            self.mmap as u8,
            input_str(&self.inp1),
            input_str(&self.inp2),
            self.ctx as u8
        )
    }
    fn parse(parts: &[&str]) -> Option<Cli2> {
        let get = |k: &str| parts.iter().find_map(|p| p.strip_prefix(k).and_then(|r| r.strip_prefix('=')));
        Some(Cli2 {
            pat: String::from_utf8(unhex(get("pat")?)?).ok()?,
            mode: get("mode")?.to_string(),
            explicit: get("ex")? == "1",
            mmap: get("mmap")? == "1",
            inp1: parse_input(get("inp1")?)?,
            inp2: parse_input(get("inp2")?)?,
            ctx: get("ctx").map_or(false, |v| v == "1"),
        })
    }
}

/// One rg worker (`-j1 --sort path`) over two files: stdout = the model's output for each file,
/// each from a fresh search (files are independent), and no NUL unless --text.
fn run_cli2(case: &str, c: &Cli2, args: &Args, drv: &mut Driver, rep: &mut Report) {
    let rg = match &args.rg {
        Some(p) => p.clone(),
        None => return,
    };
    rep.eval();
    let i1 = materialise(&c.inp1);
    let i2 = materialise(&c.inp2);
    let cwd = args.scratch.join("cli2");
    let dir = cwd.join("d");
    std::fs::create_dir_all(&dir).expect("scratch dir");
    let (p1, p2) = (dir.join("f"), dir.join("g"));
    std::fs::write(&p1, &i1).expect("write");
    std::fs::write(&p2, &i2).expect("write");
    let det_s = drv.ask(&format!("c14.det {} 0 {}", c.mode, c.explicit as u8));
    let det = match Det::parse(&det_s) {
        Some(d) => d,
        None => return,
    };
    let m = match matcher(&c.pat, det) {
        Some(m) => m,
        None => return,
    };
    let strat = Strat::Path { mmap: c.mmap };
    let mut want = String::new();
    let mut both_bin = true;
    for (inp, path, name) in [(&i1, &p1, "d/f"), (&i2, &p2, "d/g")] {
        let run = lib_run(&m, det, c.ctx as usize, 0, false, inp, &strat, Some(path));
        both_bin &= run.events.iter().any(|e| e.starts_with("bin "));
        let sx = match events_sx(&run.events) {
            Some(s) => s,
            None => return,
        };
        let model = drv.ask(&format!("c14.print {} {} {}", det.s(), hex(name.as_bytes()), sx));
        if model != "-" && !model.is_empty() {
            // with context and no heading the search separator `--` precedes whatever a later search
            // writes first -- a line, or (since 302ce55) the "binary file matches" notice
            if c.ctx && !want.is_empty() {
                want.push_str(&hex(b"--\n"));
                rep.branch("cli2:separator-between-files");
                if model.starts_with(&hex(format!("{}: binary file matches", name).as_bytes())) {
                    rep.branch("cli2:separator-before-notice");
                }
            }
            want.push_str(&model);
        }
    }
    let mut cmd = Command::new(&rg);
    cmd.current_dir(&cwd).args(["--no-config", "--no-ignore", "-j1", "--sort", "path", "-H", "--color", "never", "--no-heading", "-n"]);
    match c.mode.as_str() {
        "binary" => {
            cmd.arg("--binary");
        }
        "text" => {
            cmd.arg("--text");
        }
        _ => {}
    }
    cmd.arg(if c.mmap { "--mmap" } else { "--no-mmap" });
    if c.ctx {
        cmd.arg("-A1");
    }
    cmd.arg("-e").arg(&c.pat);
    if c.explicit {
        cmd.arg("d/f").arg("d/g");
    } else {
        cmd.arg("d");
    }
    let stdout = cmd.output().expect("run rg").stdout;
    rep.branch(&format!("cli2:{}:{}:{}", c.mode, if c.explicit { "explicit" } else { "implicit" }, if c.mmap { "mmap" } else { "read" }));
    if both_bin {
        rep.branch("cli2:both-binary");
        rep.nontrivial(case);
    }
    let want_hex = if want.is_empty() { "-".to_string() } else { want };
    if want_hex != hex(&stdout) {
        rep.violation(Violation {
            kind: "impl_vs_model".into(),
            class: "".into(),
            tie: "rg -j1 over two files vs Model.BinaryOut per file (files are searched independently; theorem linebuffer_reused)".into(),
            case: case.to_string(),
            detail: format!(
                "rg wrote {:?}, model {:?}",
                show(&stdout[..stdout.len().min(300)]),
                show(&unhex(&want_hex).map(|v| v[..v.len().min(300)].to_vec()).unwrap_or_default())
            ),
        });
    }
    if c.mode != "text" && stdout.contains(&0) {
        rep.violation(Violation {
            kind: "impl_vs_spec".into(),
            class: "".into(),
            tie: "no 0x00 on rg's stdout unless --text".into(),
            case: case.to_string(),
            detail: format!("rg wrote a NUL byte: {:?}", show(&stdout[..stdout.len().min(300)])),
        });
    }
}

// ---------------------------------------------------------------- clir cases: rg with a replacement

/// `rg -r <repl>` (optionally `-o`, `-U`): the replacement is expanded by the printer from a match it
/// finds AGAIN in the reported lines (in multi-line mode in a haystack cut 128 bytes behind them), so
/// what is written is no longer literally a delivered line.  The property still is: no 0x00 on stdout
/// unless `--text`, and the notice / warning table.
#[derive(Clone, Debug)]
struct Clir {
    pat: String,
    repl: String,
    only: bool,
    ml: bool,
    mode: String,
    explicit: bool,
    mmap: bool,
    /// filler beyond the 64 KiB sniff window before the matching line?
    big: bool,
    seed: u64,
    /// offset of the NUL inside the line that FOLLOWS the matching line `x` (usize::MAX: no NUL)
    nulrel: usize,
}

const CLIR_PATTERNS_ML: [&str; 5] =
    ["(?s)x.{129}\\z|x", "(?s)(x).{129}\\z|x", "x\\n?[^\\n]{0,200}\\z|x", "(?s)(x).{1,129}\\z|(x)", "x"];
const CLIR_PATTERNS: [&str; 4] = ["x", "(x)", "x$", "(a*)x"];
const CLIR_REPLS: [&str; 4] = ["$0", "$1", "[$0]", "<$1$0>"];

impl Clir {
    fn case_str(&self) -> String {
        format!(
            "clir pat={} repl={} o={} U={} mode={} ex={} mmap={} big={} seed={} nulrel={}",
            hex(self.pat.as_bytes()),
            hex(self.repl.as_bytes()),
            self.only as u8,
            self.ml as u8,
            self.mode,
            self.explicit as u8,
            self.mmap as u8,
            self.big as u8,
            self.seed,
            if self.nulrel == usize::MAX { "-".to_string() } else { self.nulrel.to_string() }
        )
    }
    fn parse(parts: &[&str]) -> Option<Clir> {
        let get = |k: &str| parts.iter().find_map(|p| p.strip_prefix(k).and_then(|r| r.strip_prefix('=')));
        Some(Clir {
            pat: String::from_utf8(unhex(get("pat")?)?).ok()?,
            repl: String::from_utf8(unhex(get("repl")?)?).ok()?,
            only: get("o")? == "1",
            ml: get("U")? == "1",
            mode: get("mode")?.to_string(),
            explicit: get("ex")? == "1",
            mmap: get("mmap")? == "1",
            big: get("big")? == "1",
            seed: get("seed")?.parse().ok()?,
            nulrel: match get("nulrel")? {
                "-" => usize::MAX,
                v => v.parse().ok()?,
            },
        })
    }
    /// filler lines without `x`, the line `ab x`, a long line with the NUL, a few more lines
    fn input(&self) -> Vec<u8> {
        let mut rng = Rng::new(self.seed);
        let mut out: Vec<u8> = vec![];
        let filler = if self.big { SNIFF_WINDOW + 500 } else { rng.range(0, 200) };
        while out.len() < filler {
            for _ in 0..rng.range(1, 50) {
                out.push(*rng.pick(b"aab  "));
            }
            out.push(b'\n');
        }
        out.extend_from_slice(b"ab x\n");
        let mut next: Vec<u8> = (0..rng.range(130, 400)).map(|_| *rng.pick(b"aab  ")).collect();
        if self.nulrel != usize::MAX {
            let at = self.nulrel.min(next.len() - 1);
            next[at] = 0;
        }
        out.extend_from_slice(&next);
        out.push(b'\n');
        for _ in 0..rng.range(0, 4) {
            for _ in 0..rng.range(1, 300) {
                out.push(*rng.pick(b"aab  "));
            }
            out.push(b'\n');
        }
        out
    }
}

fn run_clir(case: &str, c: &Clir, args: &Args, drv: &mut Driver, rep: &mut Report) {
    let rg = match &args.rg {
        Some(p) => p.clone(),
        None => {
            rep.branch("clir:skipped-no-rg");
            return;
        }
    };
    rep.eval();
    let inp = c.input();
    let file = scratch_file(&args.scratch, "clir", &inp);
    let cwd = args.scratch.join("clir");
    let mut cmd = Command::new(&rg);
    cmd.current_dir(&cwd).args(["--no-config", "--no-ignore", "-j1", "-H", "--color", "never", "--no-heading", "-n"]);
    match c.mode.as_str() {
        "binary" => {
            cmd.arg("--binary");
        }
        "text" => {
            cmd.arg("--text");
        }
        _ => {}
    }
    cmd.arg(if c.mmap { "--mmap" } else { "--no-mmap" });
    if c.ml {
        cmd.arg("-U");
    }
    if c.only {
        cmd.arg("-o");
    }
    cmd.arg("-r").arg(&c.repl);
    cmd.arg("-e").arg(&c.pat);
    cmd.arg(if c.explicit { "d/f" } else { "d" });
    let out = cmd.output().expect("run rg");
    let stdout = out.stdout;
    rep.branch(&format!(
        "clir:{}:{}:{}{}",
        c.mode,
        if c.ml { "-U" } else { "lines" },
        if c.mmap { "mmap" } else { "read" },
        if c.only { ":-o" } else { "" }
    ));
    if !out.status.success() && out.status.code() != Some(1) {
        // a crash of rg (exit code 2 with a panic message, or a signal) is a finding of its own
        let err = String::from_utf8_lossy(&out.stderr).to_string();
        if err.contains("panicked") || out.status.code().is_none() {
            rep.violation(Violation {
                kind: "impl_vs_spec".into(),
                class: "".into(),
                tie: "rg -r must not crash".into(),
                case: case.to_string(),
                detail: format!("rg ended with {:?}: {}", out.status.code(), &err[..err.len().min(300)]),
            });
            return;
        }
        rep.branch("clir:rg-error(pattern)");
        return;
    }
    let nul_beyond_block = c.nulrel != usize::MAX;
    if nul_beyond_block {
        rep.branch(if c.big { "clir:nul-behind-match-beyond-sniff-window" } else { "clir:nul-behind-match" });
        if c.nulrel < 128 {
            rep.branch("clir:nul-within-look-ahead");
        }
    }
    // ---- the property
    if c.mode != "text" && stdout.contains(&0) {
        rep.violation(Violation {
            kind: "impl_vs_spec".into(),
            class: "".into(),
            tie: "no 0x00 on rg's stdout unless --text (with -r / -o -r / -U: the printer expands a re-found match)".into(),
            case: case.to_string(),
            detail: format!("rg wrote a NUL byte: {:?}", show(&stdout[..stdout.len().min(300)])),
        });
        return;
    }
    // ---- the notice / warning table, from the event stream of the same search at library level
    let det_s = drv.ask(&format!("c14.det {} 0 {}", c.mode, c.explicit as u8));
    let det = match Det::parse(&det_s) {
        Some(d) => d,
        None => return,
    };
    let o = Opts { ml: if c.ml { 2 } else { 0 }, late: true, invert: false, crlf: false };
    let m = match matcher_o(&c.pat, det, o) {
        Some(m) => m,
        None => {
            rep.branch("clir:pattern-rejected");
            return;
        }
    };
    {
        use grep_matcher::Matcher;
        let downgrades = m.non_matching_bytes().map_or(false, |nm| nm.contains(b'\n'));
        if c.ml && downgrades {
            rep.branch("clir:-U-downgraded");
        }
    }
    let strat = Strat::Path { mmap: c.mmap };
    let run = lib_run_o(&m, det, 0, 0, false, &inp, &strat, Some(&file), Opts { ml: c.ml as u8, late: true, invert: false, crlf: false });
    if let Some(sx) = events_sx(&run.events) {
        if run.events.iter().any(|e| e.starts_with("bin ")) && c.mode != "text" {
            rep.branch("clir:binary-detected");
            if let Some((d, class)) = second_sentence(det, &run.events, &stdout, &sx, drv) {
                rep.branch("class:unclassified");
                rep.violation(Violation {
                    kind: "impl_vs_spec".into(),
                    class: class.into(),
                    tie: "second sentence of C14 (dropped / cut with warning; notice iff a line matches) on rg -r's stdout".into(),
                    case: case.to_string(),
                    detail: d,
                });
            }
            if run.events.iter().any(|e| e.starts_with("m ")) {
                rep.nontrivial(case);
            }
        }
    }
}

fn gen_clir(rng: &mut Rng) -> Clir {
    let ml = rng.chance(1, 2);
    Clir {
        pat: if ml { rng.pick(&CLIR_PATTERNS_ML).to_string() } else { rng.pick(&CLIR_PATTERNS).to_string() },
        repl: rng.pick(&CLIR_REPLS).to_string(),
        only: rng.chance(1, 3),
        ml,
        mode: rng.pick(&["auto", "auto", "binary", "binary", "text"]).to_string(),
        explicit: rng.chance(1, 2),
        mmap: rng.chance(2, 3),
        big: rng.chance(2, 3),
        seed: rng.next() % 100000,
        nulrel: match rng.below(6) {
            0 => usize::MAX,
            1 => 0,
            2 => 126,
            3 => 127,
            4 => 128,
            _ => rng.below(130),
        },
    }
}


// ---------------------------------------------------------------- clif cases: the property alone, any output mode

/// rg with a random handful of output / search flags nobody models byte for byte. Checked: the first sentence of
/// C14 as it stands ("no 0x00 on stdout unless text mode was asked for") and that rg does not crash.
#[derive(Clone, Debug)]
struct Clif {
    pat: String,
    mode: String,
    explicit: bool,
    flags: Vec<String>,
    input: Input,
    /// bytes put in front of the input (a UTF-16 BOM makes rg transcode)
    bom: Vec<u8>,
}

const CLIF_FLAGS: [&str; 47] = [
    // NUL is then the requested line terminator: detection is off by the table (`low.null_data`), checked as
    // "equals the same run with --text"
    "--null-data",
    // not a flag: the file is fed on stdin and no path is given (rg treats stdin as an explicit file)
    "<stdin", "<stdin",
    "-l", "--files-without-match", "--count-matches", "-c", "--json", "--vimgrep", "-o", "--column", "-b",
    "--heading", "-M10", "--max-columns-preview", "--trim", "-N", "--crlf", "-Elatin1", "-Eutf-16le", "-Enone",
    "-m1", "--mmap", "--no-mmap", "-U", "-v", "-A1", "-B1", "-C2", "--passthru", "--stats", "-i", "-F", "-w",
    "-x", "-r$0", "-r[$0]", "--color=always", "-I", "-H", "--no-unicode", "--context-separator=++", "-q",
    "--no-line-number", "--field-match-separator=|", "--sort=path", "--line-buffered",
];

const CLIF_NUL_PATTERNS: [&str; 7] = ["\\x00", "[^a]+", "(?s:.)x", ".*", "x.", "\\Bx.?", "(?-u:[\\x00-\\x20])+"];

impl Clif {
    fn case_str(&self) -> String {
        format!(
            "clif pat={} mode={} ex={} flags={} bom={} inp={}",
            hex(self.pat.as_bytes()),
            self.mode,
            self.explicit as u8,
            hex(self.flags.join(" ").as_bytes()),
            if self.bom.is_empty() { "-".to_string() } else { hex(&self.bom) },
            input_str(&self.input)
        )
    }
    fn parse(parts: &[&str]) -> Option<Clif> {
        let get = |k: &str| parts.iter().find_map(|p| p.strip_prefix(k).and_then(|r| r.strip_prefix('=')));
        let flags = String::from_utf8(unhex(get("flags")?)?).ok()?;
        Some(Clif {
            pat: String::from_utf8(unhex(get("pat")?)?).ok()?,
            mode: get("mode")?.to_string(),
            explicit: get("ex")? == "1",
            flags: flags.split(' ').filter(|f| !f.is_empty()).map(|f| f.to_string()).collect(),
            bom: match get("bom")? {
                "-" => vec![],
                v => unhex(v)?,
            },
            input: parse_input(get("inp")?)?,
        })
    }
}

fn run_clif(case: &str, c: &Clif, args: &Args, rep: &mut Report) {
    let rg = match &args.rg {
        Some(p) => p.clone(),
        None => {
            rep.branch("clif:skipped-no-rg");
            return;
        }
    };
    rep.eval();
    let mut inp = c.bom.clone();
    inp.extend(materialise(&c.input));
    let _file = scratch_file(&args.scratch, "clif", &inp);
    let cwd = args.scratch.join("clif");
    let mut cmd = Command::new(&rg);
    cmd.current_dir(&cwd).env_clear();
    cmd.arg("--no-config").arg("-n").arg("--color=never");
    match c.mode.as_str() {
        "binary" => {
            cmd.arg("--binary");
        }
        "text" => {
            cmd.arg("--text");
        }
        _ => {}
    }
    let stdin = c.flags.iter().any(|f| f == "<stdin");
    for f in &c.flags {
        if f != "<stdin" {
            cmd.arg(f);
        }
        rep.branch(&format!("clif:flag:{}", f));
    }
    cmd.arg("-e").arg(&c.pat);
    if stdin {
        cmd.stdin(std::fs::File::open(cwd.join("d/f")).expect("open scratch file"));
    } else {
        cmd.arg(if c.explicit { "d/f" } else { "d" });
    }
    let out = cmd.output().expect("run rg");
    let err = String::from_utf8_lossy(&out.stderr).to_string();
    if err.contains("panicked") || out.status.code().is_none() {
        rep.violation(Violation {
            kind: "impl_vs_spec".into(),
            class: "".into(),
            tie: "rg must not crash on binary input, whatever the output mode".into(),
            case: case.to_string(),
            detail: format!("rg ended with {:?}: {}", out.status.code(), &err[..err.len().min(300)]),
        });
        return;
    }
    if out.status.code() == Some(2) && out.stdout.is_empty() {
        rep.branch("clif:rg-error(flags/pattern)");
        return;
    }
    rep.branch(&format!("clif:{}:{}", c.mode, if c.explicit { "explicit" } else { "implicit" }));
    // (a later --crlf takes --null-data back: `defs.rs`, "This flag overrides --null-data")
    let null_data = match (c.flags.iter().position(|f| f == "--null-data"), c.flags.iter().position(|f| f == "--crlf")) {
        (Some(z), Some(cr)) => z > cr,
        (Some(_), None) => true,
        _ => false,
    };
    if null_data {
        // --null-data asks for NUL-terminated records: the property does not quantify over it, but the
        // detection table says what it means -- the same as text mode
        rep.branch("clif:null-data(compared with --text)");
        if c.mode != "text" {
            let mut cmd2 = Command::new(&rg);
            cmd2.current_dir(&cwd).env_clear();
            cmd2.arg("--no-config").arg("-n").arg("--color=never").arg("--text");
            for f in &c.flags {
                if f != "<stdin" {
                    cmd2.arg(f);
                }
            }
            cmd2.arg("-e").arg(&c.pat);
            if stdin {
                cmd2.stdin(std::fs::File::open(cwd.join("d/f")).expect("open scratch file"));
            } else {
                cmd2.arg(if c.explicit { "d/f" } else { "d" });
            }
            let out2 = cmd2.output().expect("run rg");
            let drop_stats = |v: &[u8]| -> Vec<u8> {
                // --stats prints timings
                String::from_utf8_lossy(v).lines().filter(|l| !l.contains("seconds") && !l.contains("\"elapsed")).collect::<Vec<_>>().join("\n").into_bytes()
            };
            if drop_stats(&out.stdout) != drop_stats(&out2.stdout) {
                rep.violation(Violation {
                    kind: "impl_vs_spec".into(),
                    class: "".into(),
                    tie: "detection_table: --null-data means no binary detection, i.e. the same output as with --text".into(),
                    case: case.to_string(),
                    detail: format!(
                        "rg {} wrote {:?}, with --text {:?}",
                        c.flags.join(" "),
                        show(&out.stdout[..out.stdout.len().min(300)]),
                        show(&out2.stdout[..out2.stdout.len().min(300)])
                    ),
                });
            }
        }
        return;
    }
    if c.mode != "text" && out.stdout.contains(&0) {
        rep.violation(Violation {
            kind: "impl_vs_spec".into(),
            class: "".into(),
            tie: "no 0x00 on rg's stdout unless --text, in every output mode".into(),
            case: case.to_string(),
            detail: format!(
                "rg {} wrote a NUL byte: {:?}",
                c.flags.join(" "),
                show(&out.stdout[..out.stdout.len().min(300)])
            ),
        });
    }
    if inp.contains(&0) && !out.stdout.is_empty() {
        rep.nontrivial(case);
    }
}

fn gen_clif(rng: &mut Rng) -> Clif {
    let mut flags: Vec<String> = vec![];
    for _ in 0..rng.range(1, 5) {
        let f = rng.pick(&CLIF_FLAGS).to_string();
        if !flags.contains(&f) {
            flags.push(f);
        }
    }
    let ml = flags.iter().any(|f| f == "-U");
    let pat = if ml && rng.chance(1, 2) {
        rng.pick(&ML_PATTERNS).to_string()
    } else if rng.chance(1, 3) {
        // patterns that can match the NUL byte itself
        rng.pick(&CLIF_NUL_PATTERNS).to_string()
    } else {
        rng.pick(&PATTERNS).to_string()
    };
    let input = match rng.below(6) {
        0 => Input::Bnd {
            seed: rng.next() % 100000,
            total: SNIFF_WINDOW + 3000,
            nul: SNIFF_WINDOW + rng.below(4) - 2,
            delivered: rng.chance(1, 2),
            later: true,
        },
        1 => Input::Gen(rng.next(), rng.range(3500, 6000), rng.range(60000, 110000)),
        _ => Input::Hex(gen_binary_input(rng, &pat)),
    };
    Clif {
        pat,
        mode: rng.pick(&["auto", "auto", "binary", "binary", "text"]).to_string(),
        explicit: rng.chance(1, 2),
        flags,
        input,
        bom: match rng.below(12) {
            0 => vec![0xff, 0xfe],
            1 => vec![0xef, 0xbb, 0xbf],
            _ => vec![],
        },
    }
}

// ---------------------------------------------------------------- generators

fn gen_binary_input(rng: &mut Rng, pat: &str) -> Vec<u8> {
    let (ml, mx) = (*rng.pick(&[2usize, 6, 15]), *rng.pick(&[4usize, 12]));
    let mut inp = gen_lines(rng, b'\n', false, ml, mx, b"aabx  ");
    if inp.is_empty() {
        inp = b"ab x\n".to_vec();
    }
    // make sure some line matches most of the time
    if rng.chance(3, 4) {
        let ls = line_starts(&inp);
        let at = ls[rng.below(ls.len())];
        let ins: &[u8] = match pat {
            "zzz" => b"",
            "^b" => b"b x\n",
            "x$" => b"ab x\n",
            _ => b"ab x\n",
        };
        inp.splice(at..at, ins.iter().copied());
    }
    // NUL placement classes
    let n = inp.len();
    match rng.below(8) {
        0 => {}
        1 => inp[0] = 0,
        2 => inp[n - 1] = 0,
        3 => {
            // inside a line
            let i = rng.below(n);
            if inp[i] != b'\n' {
                inp[i] = 0;
            }
        }
        4 => {
            // first byte of a later line
            let ls = line_starts(&inp);
            inp[ls[rng.below(ls.len())]] = 0;
        }
        5 => {
            // several
            for _ in 0..rng.range(2, 5) {
                let i = rng.below(n);
                inp[i] = 0;
            }
        }
        6 => {
            // replaces a terminator
            let nls: Vec<usize> = inp.iter().enumerate().filter(|(_, &b)| b == b'\n').map(|(i, _)| i).collect();
            if !nls.is_empty() {
                inp[*rng.pick(&nls)] = 0;
            }
        }
        _ => {
            let i = n / 2 + rng.below(n - n / 2);
            inp[i] = 0;
        }
    }
    inp
}

fn line_starts(inp: &[u8]) -> Vec<usize> {
    let mut v = vec![0];
    for (i, &b) in inp.iter().enumerate() {
        if b == b'\n' && i + 1 < inp.len() {
            v.push(i + 1);
        }
    }
    v
}

fn gen_bs(rng: &mut Rng, big: bool) -> Bs {
    let pat = rng.pick(&PATTERNS).to_string();
    let det = *rng.pick(&[Det::Quit, Det::Quit, Det::Convert, Det::Convert, Det::None]);
    let input = if big {
        let lines = rng.range(3500, 6000);
        Input::Gen(rng.next(), lines, if rng.chance(1, 6) { usize::MAX } else { rng.range(60000, 110000) })
    } else {
        Input::Hex(gen_binary_input(rng, &pat))
    };
    let crlf = !big && rng.chance(1, 6);
    let input = match input {
        Input::Hex(mut v) if crlf => {
            // CRLF terminators on most lines, a bare CR now and then
            let mut i = 0;
            while i < v.len() {
                if v[i] == b'\n' && rng.chance(2, 3) {
                    v.insert(i, b'\r');
                    i += 1;
                } else if v[i] == b' ' && rng.chance(1, 10) {
                    v[i] = b'\r';
                }
                i += 1;
            }
            Input::Hex(v)
        }
        i => i,
    };
    let len = materialise(&input).len();
    let strat = match rng.below(if big { 4 } else { 6 }) {
        0 => Strat::Slice,
        1 => Strat::Path { mmap: true },
        2 => Strat::Path { mmap: false },
        3 if big => Strat::Reader { cap: None, script: vec![] },
        _ => Strat::Reader { cap: Some(*rng.pick(&[1usize, 2, 3, 5, 8, 13, 64])), script: gen_script(rng, len, false) },
    };
    let ctx = rng.chance(1, 3);
    // multi_line requested (downgraded for these patterns; now and then a pattern that can match `\n`),
    // detection set after build as rg does
    let ml: u8 = if big { 0 } else { *rng.pick(&[0u8, 0, 1, 1, 2]) };
    let pat = if ml == 2 { rng.pick(&ML_PATTERNS).to_string() } else { pat };
    let passthru = ml != 2 && rng.chance(1, 10);
    Bs {
        pat,
        det,
        after: if ctx { rng.below(3) } else { 0 },
        before: if ctx { rng.below(3) } else { 0 },
        passthru,
        input,
        strat,
        o: Opts { ml, late: rng.chance(1, 2), invert: rng.chance(1, 5), crlf },
    }
}

const BND_PATTERNS: [&str; 10] =
    ["\\Aa", "x\\z", "(?-m:^)b", "x(?-m:$)", "\\Bx", "x\\B", "\\bx", "\\A", "\\z", "(?-m:$)"];

/// One NUL at a window boundary (-2, -1, 0, +1): the 64 KiB sniff window of the slice strategies
/// (slice, mmap, `MultiLine::run`, and the reader for comparison), or a fill boundary of a small
/// roll buffer; in a delivered or in a non-delivered line.
fn gen_bs_bnd(rng: &mut Rng) -> Bs {
    let delta = rng.below(4); // 0..3 -> -2..+1
    let sniff = rng.chance(2, 3);
    let (input, strat) = if sniff {
        let nul = SNIFF_WINDOW + delta - 2;
        let strat = match rng.below(5) {
            0 | 1 => Strat::Slice,
            2 => Strat::Path { mmap: true },
            3 => Strat::Path { mmap: false },
            _ => Strat::Reader { cap: None, script: vec![] },
        };
        (
            Input::Bnd { seed: rng.next() % 100000, total: SNIFF_WINDOW + 3000, nul, delivered: rng.chance(1, 2), later: rng.chance(1, 2) },
            strat,
        )
    } else {
        let cap = *rng.pick(&[4usize, 8, 16, 64]);
        let k = rng.range(1, 6);
        let nul = (k * cap + delta).saturating_sub(2);
        let total = nul + 300;
        let len = total + 60;
        (
            Input::Bnd { seed: rng.next() % 100000, total, nul, delivered: rng.chance(1, 2), later: rng.chance(1, 2) },
            Strat::Reader { cap: Some(cap), script: gen_script(rng, len, false) },
        )
    };
    let ml: u8 = if sniff { *rng.pick(&[0u8, 0, 1, 2]) } else { *rng.pick(&[0u8, 1]) };
    Bs {
        // half the cases: haystack anchors / non-multi-line anchors / word boundaries, whose notion of
        // "start" and "end" could move with the window the matcher is shown
        pat: if ml == 2 {
            rng.pick(&["x\\n?", "x\\n?", "x\\z|x\\n", "\\Aa|\\nx"]).to_string()
        } else if rng.chance(1, 2) {
            rng.pick(&BND_PATTERNS).to_string()
        } else {
            "x".into()
        },
        det: *rng.pick(&[Det::Quit, Det::Quit, Det::Convert]),
        after: rng.below(2),
        before: rng.below(2),
        passthru: false,
        input,
        strat,
        o: Opts { ml, late: rng.chance(1, 2), invert: rng.chance(1, 6), crlf: rng.chance(1, 6) },
    }
}

/// NUL beyond the 64 KiB sniff window of the slice strategies, in a chosen kind of delivered line.
fn gen_bs_ctx(rng: &mut Rng) -> Bs {
    let kind = *rng.pick(&['a', 'b', 'p', 'm']);
    let (after, before, passthru) = match kind {
        'a' => (rng.range(1, 2), rng.below(2), false),
        'b' => (rng.below(2), rng.range(1, 2), false),
        'p' => (0, 0, true),
        _ => (rng.below(2), rng.below(2), false),
    };
    Bs {
        pat: "x".into(),
        det: *rng.pick(&[Det::Quit, Det::Convert]),
        after,
        before,
        passthru,
        input: Input::Ctx(rng.next() % 100000, kind),
        strat: if rng.chance(1, 2) { Strat::Slice } else { Strat::Path { mmap: true } },
        o: Opts { ml: *rng.pick(&[0u8, 0, 1]), late: rng.chance(1, 2), invert: false, crlf: false },
    }
}

fn gen_cli_ctx(rng: &mut Rng) -> Cli {
    let kind = *rng.pick(&['a', 'b', 'p', 'm']);
    let (after, before, passthru) = match kind {
        'a' => (1, 0, false),
        'b' => (0, 1, false),
        'p' => (0, 0, true),
        _ => (0, 0, false),
    };
    Cli {
        pat: "x".into(),
        mode: rng.pick(&["auto", "binary"]).to_string(),
        explicit: rng.chance(1, 2),
        mmap: true,
        after,
        before,
        passthru,
        input: Input::Ctx(rng.next() % 100000, kind),
        ml: rng.chance(1, 3),
        invert: false,
    }
}

/// rg on a file with one NUL at the edge of the 64 KiB sniff window (-2..+1)
fn gen_cli_bnd(rng: &mut Rng) -> Cli {
    Cli {
        pat: if rng.chance(1, 2) { rng.pick(&BND_PATTERNS).to_string() } else { "x".into() },
        mode: rng.pick(&["auto", "auto", "binary"]).to_string(),
        explicit: rng.chance(1, 3),
        mmap: rng.chance(2, 3),
        after: 0,
        before: 0,
        passthru: false,
        input: Input::Bnd {
            seed: rng.next() % 100000,
            total: SNIFF_WINDOW + 3000,
            nul: SNIFF_WINDOW + rng.below(4) - 2,
            delivered: rng.chance(1, 2),
            later: true,
        },
        ml: rng.chance(1, 3),
        invert: rng.chance(1, 5),
    }
}

fn gen_seq(rng: &mut Rng) -> Seq {
    let pat = rng.pick(&PATTERNS).to_string();
    let inp1 = gen_binary_input(rng, &pat);
    let inp2 = gen_binary_input(rng, &pat);
    let len = inp1.len().max(inp2.len());
    let strat = match rng.below(4) {
        0 => Strat::Path { mmap: false },
        1 => Strat::Slice,
        2 => Strat::Reader { cap: None, script: vec![] },
        // default capacity only: a buffer that had to grow for the first input legitimately cuts the
        // second input into different windows than a fresh one (detection timing is per buffer)
        _ => Strat::Reader { cap: None, script: gen_script(rng, len, false) },
    };
    Seq {
        pat,
        det: *rng.pick(&[Det::Quit, Det::Convert, Det::Convert]),
        after: rng.below(2),
        before: rng.below(2),
        passthru: rng.chance(1, 10),
        inp1: Input::Hex(inp1),
        inp2: Input::Hex(inp2),
        strat,
    }
}

fn gen_cli2(rng: &mut Rng) -> Cli2 {
    let pat = rng.pick(&PATTERNS).to_string();
    Cli2 {
        inp1: Input::Hex(gen_binary_input(rng, &pat)),
        inp2: Input::Hex(gen_binary_input(rng, &pat)),
        pat,
        mode: rng.pick(&["auto", "binary", "binary", "text"]).to_string(),
        explicit: rng.chance(1, 2),
        mmap: rng.chance(1, 3),
        ctx: rng.chance(1, 2),
    }
}

fn gen_cli(rng: &mut Rng, big: bool) -> Cli {
    let pat = rng.pick(&PATTERNS).to_string();
    let input = if big {
        let lines = rng.range(3500, 6000);
        Input::Gen(rng.next(), lines, if rng.chance(1, 8) { usize::MAX } else { rng.range(60000, 110000) })
    } else {
        Input::Hex(gen_binary_input(rng, &pat))
    };
    let ctx = rng.chance(1, 4);
    Cli {
        pat,
        mode: rng.pick(&["auto", "auto", "binary", "text"]).to_string(),
        explicit: rng.chance(1, 2),
        mmap: rng.chance(1, 2),
        after: if ctx { rng.below(3) } else { 0 },
        before: if ctx { rng.below(3) } else { 0 },
        passthru: rng.chance(1, 12),
        input,
        ml: rng.chance(1, 3),
        invert: rng.chance(1, 5),
    }
}

fn run_case(case: &str, args: &Args, drv: &mut Driver, rep: &mut Report) {
    let parts: Vec<&str> = case.split(' ').collect();
    match parts.first().copied() {
        Some("lb") => match LbCase::parse(&parts) {
            Some(c) => check_lb_case(case, &c, "c14", drv, rep),
            None => rep.notes.push(format!("unparsable case: {}", case)),
        },
        Some("bs") => match Bs::parse(&parts) {
            Some(c) => run_bs(case, &c, args, drv, rep),
            None => rep.notes.push(format!("unparsable case: {}", case)),
        },
        Some("lb2") => match parse_lb2(&parts) {
            Some((c, pre)) => check_lb_case_after(case, &c, Some(&pre), "c14", drv, rep),
            None => rep.notes.push(format!("unparsable case: {}", case)),
        },
        Some("seq") => match Seq::parse(&parts) {
            Some(c) => run_seq(case, &c, args, rep),
            None => rep.notes.push(format!("unparsable case: {}", case)),
        },
        Some("cli2") => match Cli2::parse(&parts) {
            Some(c) => run_cli2(case, &c, args, drv, rep),
            None => rep.notes.push(format!("unparsable case: {}", case)),
        },
        Some("clif") => match Clif::parse(&parts) {
            Some(c) => run_clif(case, &c, args, rep),
            None => rep.notes.push(format!("unparsable case: {}", case)),
        },
        Some("clir") => match Clir::parse(&parts) {
            Some(c) => run_clir(case, &c, args, drv, rep),
            None => rep.notes.push(format!("unparsable case: {}", case)),
        },
        Some("cli") => match Cli::parse(&parts) {
            Some(c) => run_cli(case, &c, args, drv, rep),
            None => rep.notes.push(format!("unparsable case: {}", case)),
        },
        _ => rep.notes.push(format!("unparsable case: {}", case)),
    }
}

fn main() {
    let args = parse_args();
    let mut drv = Driver::spawn(&args.driver);
    let mut rep = Report::new(
        "C14",
        "lb: roll buffer in Quit/Convert mode (bytes NUL, 'x', the terminator itself) x capacities x read scripts x \
         fill/consume sequences; non-trivial = rolled and smaller than the input. \
         bs: 16 patterns x detection none/quit/convert x slice / reader (capacity 1..64 via hook, scripted reads) / path \
         with and without mmap x contexts 0..2 / passthru x inputs with NUL at: first byte, last byte, inside a line, \
         first byte of a line, in place of a terminator, several, none, beyond 64 KiB (long inputs). \
         cli: rg binary x implicit (directory argument) / explicit file x default / --binary / --text x --mmap / --no-mmap, \
         plus -c, plus -U with patterns that cannot match a newline (the searcher falls back to line mode; bs: also patterns \
         that can, and the detection mode set after build as rg does), plus one NUL at -2..+1 around the 64 KiB sniff window \
         and around the fill boundaries of small roll buffers, in delivered and non-delivered lines. \
         clir: rg -r '$0' / '$1' / -o -r, line-oriented and -U (patterns whose re-found match reaches beyond the reported \
         lines at the 128-byte look-ahead cut), all binary modes, a NUL right behind the matched block, before and beyond the \
         64 KiB sniff window. \
         clif: rg with 1-4 random output / search flags (--json, --vimgrep, -c, -l, -o, -M, --trim, --color=always, -E, \
         --crlf, -U, -v, stdin, ...), UTF-8/UTF-16 BOMs, patterns that match the NUL itself: no 0x00 on stdout unless --text, \
         no crash; --null-data writes what --text writes. bs/cli also: \\A \\z (?-m:^) (?-m:$) \\B \\b patterns (also at the \
         window boundaries), -v, --crlf, really multi-line -U on the binary (contract + property). \
         Not generated: --null (-0), preprocessors, --search-zip. \
         Non-trivial (bs, cli) = binary data was detected and at least one line matched. Distinct by case text.",
    );
    quiet_panics();
    for c in corpus_cases(&args) {
        guarded(&c, &mut rep, |rep| run_case(&c, &args, &mut drv, rep));
    }
    if args.replay.is_none() {
        let mut rng = Rng::new(args.seed);
        let n = args.cases.unwrap_or(if args.thorough { 30000 } else { 2400 });
        let only_stream = std::env::var("RGV_C14_STREAM").ok();
        for i in 0..n {
            let case = match i % 4 {
                // probing aid: RGV_C14_STREAM=clif runs that stream alone
                _ if only_stream.as_deref() == Some("clif") => gen_clif(&mut rng).case_str(),
                0 if i % 12 == 4 => {
                    let bin = *rng.pick(&[Bin::Quit(0), Bin::Convert(0), Bin::Convert(0), Bin::Quit(b'x'), Bin::Convert(b'x')]);
                    let (c, pre) = gen_lb2_case(&mut rng, bin);
                    lb2_case_str(&c, &pre)
                }
                0 => {
                    let bin = match rng.below(6) {
                        0 => Bin::Quit(0),
                        1 => Bin::Convert(0),
                        2 => Bin::Quit(b'x'),
                        3 => Bin::Convert(b'x'),
                        4 => Bin::Convert(b'\n'), // the terminator itself: replace_bytes does nothing
                        _ => Bin::Quit(0),
                    };
                    gen_lb_case(&mut rng, bin, i % 40 == 0).case_str()
                }
                1 if i % 20 == 1 => gen_bs_ctx(&mut rng).case_str(),
                1 if i % 20 == 5 || i % 20 == 13 => gen_bs_bnd(&mut rng).case_str(),
                2 if i % 10 == 2 => gen_seq(&mut rng).case_str(),
                1 | 2 => gen_bs(&mut rng, i % 50 == 1).case_str(),
                _ if i % 40 == 7 => gen_cli_ctx(&mut rng).case_str(),
                _ if i % 40 == 27 => gen_cli_bnd(&mut rng).case_str(),
                _ if i % 20 == 11 || i % 20 == 19 => gen_clir(&mut rng).case_str(),
                _ if i % 20 == 15 => gen_clif(&mut rng).case_str(),
                _ if i % 8 == 3 => gen_cli2(&mut rng).case_str(),
                _ => gen_cli(&mut rng, i % 60 == 3).case_str(),
            };
            if i < 8 {
                rep.sample(if case.len() > 400 { format!("{}…", &case[..400]) } else { case.clone() });
            }
            guarded(&case, &mut rep, |rep| run_case(&case, &args, &mut drv, rep));
        }
    }
    rep.write(&args);
}
