//! C19 — replacement output equals the regex library's replace-all of each matching line.
//!
//! L1: `Captures::interpolate` (real code, harness-supplied capture locations) vs model `interpolate`
//!     vs spec `expand` (regex-crate grammar).
//! L2: the Standard printer with `replacement` over a real `RegexMatcher` vs model `replaceAllLine`
//!     (matcher given as a table of `captures_at` answers) vs `regex::bytes::Regex::replace_all`.
use grep_matcher::{Captures, Match, Matcher};
use grep_printer::StandardBuilder;
use grep_regex::RegexMatcherBuilder;
use grep_searcher::SearcherBuilder;
use rgverif_harness::*;

#[derive(Clone, Debug)]
struct TestCaps {
    groups: Vec<Option<Match>>,
}
impl Captures for TestCaps {
    fn len(&self) -> usize {
        self.groups.len()
    }
    fn get(&self, i: usize) -> Option<Match> {
        self.groups.get(i).copied().flatten()
    }
}

const NAMES: [&str; 4] = ["x", "name", "a1", "_u"];

fn gen_template(rng: &mut Rng, malformed: bool) -> Vec<u8> {
    let mut t = vec![];
    let n = rng.range(0, 6);
    for _ in 0..n {
        let k = rng.below(if malformed { 22 } else { 14 });
        match k {
            // literals include the bytes adjacent to every range of the capture-name alphabet
            // ('/' '0' '9' ':' '@' 'A' 'Z' '[' '^' '_' '`' 'a' 'z' '{') so an off-by-one in it is visible
            0 => t.push(*rng.pick(b"ab -_X")),
            1 => t.push(*rng.pick(b"/09:@AZ[\\]^_`az{|~.")),
            2 => t.extend(b"$$"),
            3 => t.extend(format!("${}", rng.below(4)).as_bytes()),
            4 => t.extend(format!("${{{}}}", rng.below(4)).as_bytes()),
            5 => t.extend(format!("${}", rng.pick(&NAMES)).as_bytes()),
            6 => t.extend(format!("${{{}}}", rng.pick(&NAMES)).as_bytes()),
            7 => t.extend(b"$"),
            8 => t.extend(b"${1"),
            9 => t.extend(format!("${}a", rng.below(3)).as_bytes()),
            10 => t.extend(b"}"),
            11 => t.extend(b"{"),
            12 => t.extend(format!("${}", [12usize, 4294967295, 4294967296, 99999999999][rng.below(4)]).as_bytes()),
            13 => t.extend(b"$nope"),
            // malformed / F12 territory
            14 => t.extend(b"${}"),
            15 => t.extend(b"${a-b}"),
            16 => t.extend(b"${+1}"),
            17 => t.extend(b"${ 1}"),
            18 => t.extend(b"${\xff}"),
            19 => t.push(0xff),
            20 => t.extend(b"${x y}"),
            _ => t.extend(b"${1$2}"),
        }
    }
    t
}

fn names_sx(names: &[(String, usize)]) -> String {
    let v: Vec<String> = names.iter().map(|(n, i)| format!("({} {})", hex(n.as_bytes()), i)).collect();
    format!("(names {})", v.join(" "))
}

fn l1_case(rng: &mut Rng, malformed: bool) -> String {
    let hay: Vec<u8> = (0..rng.range(0, 8)).map(|_| *rng.pick(b"abc ")).collect();
    let ng = rng.range(1, 4);
    let mut groups = vec![];
    for _ in 0..ng {
        if rng.chance(1, 4) {
            groups.push("~".to_string());
        } else {
            let s = rng.range(0, hay.len());
            let e = rng.range(s, hay.len());
            groups.push(format!("{}:{}", s, e));
        }
    }
    let mut names = vec![];
    for (i, n) in NAMES.iter().enumerate() {
        if rng.chance(1, 2) {
            names.push(format!("{}={}", n, rng.below(ng + 1).min(i + 1)));
        }
    }
    let t = gen_template(rng, malformed);
    format!("l1 {} {} [{}] [{}]", hex(&t), hex(&hay), groups.join(","), names.join(","))
}

struct L1 {
    tmpl: Vec<u8>,
    hay: Vec<u8>,
    groups: Vec<Option<Match>>,
    names: Vec<(String, usize)>,
}

fn strip_brackets(s: &str) -> &str {
    s.trim_start_matches('[').trim_end_matches(']')
}

fn parse_l1(parts: &[&str]) -> Option<L1> {
    if parts.len() != 5 {
        return None;
    }
    let tmpl = unhex(parts[1])?;
    let hay = unhex(parts[2])?;
    let mut groups = vec![];
    for g in strip_brackets(parts[3]).split(',').filter(|s| !s.is_empty()) {
        if g == "~" {
            groups.push(None);
        } else {
            let (s, e) = g.split_once(':')?;
            let (s, e): (usize, usize) = (s.parse().ok()?, e.parse().ok()?);
            if s > e || e > hay.len() {
                return None;
            }
            groups.push(Some(Match::new(s, e)));
        }
    }
    let mut names = vec![];
    for n in strip_brackets(parts[4]).split(',').filter(|s| !s.is_empty()) {
        let (k, v) = n.split_once('=')?;
        names.push((k.to_string(), v.parse().ok()?));
    }
    Some(L1 { tmpl, hay, groups, names })
}

fn run_l1(case: &str, c: &L1, drv: &mut Driver, rep: &mut Report) {
    rep.eval();
    // implementation: the trait's provided `interpolate`
    let caps = TestCaps { groups: c.groups.clone() };
    let mut dst = vec![];
    caps.interpolate(
        |name| c.names.iter().find(|(n, _)| n == name).map(|(_, i)| *i),
        &c.hay,
        &c.tmpl,
        &mut dst,
    );
    let gs: Vec<String> = c
        .groups
        .iter()
        .map(|g| match g {
            None => "~".to_string(),
            Some(m) => hex(&c.hay[m.start()..m.end()]),
        })
        .collect();
    let env = format!("(groups {}) {}", gs.join(" "), names_sx(&c.names));
    let m = drv.ask(&format!("c19.interp {} {}", hex(&c.tmpl), env));
    let s = drv.ask(&format!("c19.spec {} {}", hex(&c.tmpl), env));
    let guard = drv.ask(&format!("c19.guard {}", hex(&c.tmpl)));
    let imp = hex(&dst);
    rep.branch(if guard == "1" { "l1:braceOk" } else { "l1:braceBad" });
    if c.tmpl.windows(2).any(|w| w == b"$$") {
        rep.branch("l1:escape");
    }
    if c.tmpl.windows(2).any(|w| w == b"${") {
        rep.branch("l1:braced");
    }
    if imp != hex(&c.tmpl) && !c.tmpl.is_empty() {
        rep.nontrivial(case);
    }
    if imp != m {
        rep.violation(Violation {
            kind: "impl_vs_model".into(),
            class: "".into(),
            tie: "Captures::interpolate vs Model.Interp.interpolate (theorem interpolate_eq_spec)".into(),
            case: case.to_string(),
            detail: format!("template {:?}: impl {} model {}", show(&c.tmpl), imp, m),
        });
    }
    if imp != s {
        let class = if guard == "0" { "braced-name-outside-capletters" } else { "" };
        rep.violation(Violation {
            kind: "impl_vs_spec".into(),
            class: class.into(),
            tie: "Captures::interpolate vs regex-crate template grammar".into(),
            case: case.to_string(),
            detail: format!(
                "template {:?}: ripgrep expands to {:?}, regex grammar to {:?}",
                show(&c.tmpl),
                show(&dst),
                show(&unhex(&s).unwrap_or_default())
            ),
        });
    }
    if m != s && guard == "1" {
        rep.violation(Violation {
            kind: "model_vs_spec".into(),
            class: "".into(),
            tie: "theorem interpolate_eq_spec contradicted".into(),
            case: case.to_string(),
            detail: format!("model {} spec {}", m, s),
        });
    }
}

// ---------------------------------------------------------------- L2

fn gen_pattern(rng: &mut Rng, depth: usize, ngroups: &mut usize) -> String {
    let k = rng.below(if depth == 0 { 5 } else { 12 });
    match k {
        0 => "a".into(),
        1 => "b".into(),
        2 => "[ab]".into(),
        3 => ["\\b", "^", "$", "", "c"][rng.below(5)].into(),
        4 => ".".into(),
        5 | 6 => {
            *ngroups += 1;
            let named = rng.chance(1, 3);
            let idx = *ngroups;
            let inner = gen_pattern(rng, depth - 1, ngroups);
            if named && idx <= NAMES.len() {
                format!("(?P<{}>{})", NAMES[idx - 1], inner)
            } else {
                format!("({})", inner)
            }
        }
        7 => format!("{}{}", gen_pattern(rng, depth - 1, ngroups), gen_pattern(rng, depth - 1, ngroups)),
        8 => format!("(?:{}|{})", gen_pattern(rng, depth - 1, ngroups), gen_pattern(rng, depth - 1, ngroups)),
        9 => format!("(?:{})*", gen_pattern(rng, depth - 1, ngroups)),
        10 => format!("(?:{})?", gen_pattern(rng, depth - 1, ngroups)),
        _ => format!("(?:{})+", gen_pattern(rng, depth - 1, ngroups)),
    }
}

fn l2_case(rng: &mut Rng, malformed: bool) -> String {
    let mut ng = 0;
    let pat = gen_pattern(rng, 3, &mut ng);
    let tmpl = gen_template(rng, malformed);
    let mut input = vec![];
    let crlf = rng.chance(1, 4);
    let nl = rng.range(1, 4);
    for i in 0..nl {
        for _ in 0..rng.range(0, 6) {
            input.push(*rng.pick(b"aabbc -"));
        }
        if i + 1 < nl || rng.chance(3, 4) {
            if crlf && rng.chance(3, 4) {
                input.push(b'\r');
            }
            input.push(b'\n');
        }
    }
    let only = rng.chance(1, 4);
    format!(
        "l2 {} {} {} crlf={} o={}",
        hex(pat.as_bytes()),
        hex(&tmpl),
        hex(&input),
        crlf as u8,
        only as u8
    )
}

struct L2 {
    pat: String,
    tmpl: Vec<u8>,
    input: Vec<u8>,
    crlf: bool,
    only: bool,
}

fn parse_l2(parts: &[&str]) -> Option<L2> {
    if parts.len() != 6 {
        return None;
    }
    Some(L2 {
        pat: String::from_utf8(unhex(parts[1])?).ok()?,
        tmpl: unhex(parts[2])?,
        input: unhex(parts[3])?,
        crlf: parts[4] == "crlf=1",
        only: parts[5] == "o=1",
    })
}

/// lines with their terminators
fn split_lines(input: &[u8]) -> Vec<&[u8]> {
    let mut out = vec![];
    let mut s = 0;
    for (i, &b) in input.iter().enumerate() {
        if b == b'\n' {
            out.push(&input[s..=i]);
            s = i + 1;
        }
    }
    if s < input.len() {
        out.push(&input[s..]);
    }
    out
}

/// `captures_at(hay, pos)` for every `pos >= from` (earlier positions are never asked by the model).
/// Also checks the `Sane` contract the theorems assume of the engine (match within `[pos, len]`,
/// same answer from every position up to the match start); returns false if it is violated.
fn caps_sx(m: &grep_regex::RegexMatcher, hay: &[u8], from: usize) -> (String, bool) {
    let mut caps = m.new_captures().unwrap();
    let mut tab = vec![];
    let mut spans: Vec<Option<(usize, usize)>> = vec![];
    for pos in 0..=hay.len() {
        if pos < from {
            tab.push("~".to_string());
            spans.push(None);
            continue;
        }
        if m.captures_at(hay, pos, &mut caps).unwrap() {
            let gs: Vec<String> = (0..caps.len())
                .map(|i| match caps.get(i) {
                    None => "~".to_string(),
                    Some(mm) => format!("({} {})", mm.start(), mm.end()),
                })
                .collect();
            tab.push(format!("(caps {})", gs.join(" ")));
            spans.push(caps.get(0).map(|mm| (mm.start(), mm.end())));
        } else {
            tab.push("~".to_string());
            spans.push(None);
        }
    }
    let mut sane = true;
    for pos in from..=hay.len() {
        if let Some((s, e)) = spans[pos] {
            if s < pos || e < s || e > hay.len() {
                sane = false;
            }
            for p2 in pos..=s.min(hay.len()) {
                if tab[p2] != tab[pos] {
                    sane = false;
                }
            }
        }
    }
    (format!("(table {})", tab.join(" ")), sane)
}

fn run_l2(case: &str, c: &L2, drv: &mut Driver, rep: &mut Report) {
    rep.eval();
    let matcher = match RegexMatcherBuilder::new().multi_line(true).crlf(c.crlf).build(&c.pat) {
        Ok(m) => m,
        Err(_) => {
            rep.branch("l2:pattern-rejected");
            return;
        }
    };
    let re = match regex::bytes::RegexBuilder::new(&c.pat).multi_line(true).crlf(c.crlf).build() {
        Ok(r) => r,
        Err(_) => {
            rep.branch("l2:regex-rejected");
            return;
        }
    };
    // implementation: the real printer with a replacement
    let mut printer = StandardBuilder::new()
        .replacement(Some(c.tmpl.clone()))
        .only_matching(c.only)
        .build_no_color(vec![]);
    let mut searcher = SearcherBuilder::new()
        .line_number(false)
        .line_terminator(if c.crlf {
            grep_matcher::LineTerminator::crlf()
        } else {
            grep_matcher::LineTerminator::byte(b'\n')
        })
        .build();
    if searcher.search_slice(&matcher, &c.input, printer.sink(&matcher)).is_err() {
        rep.branch("l2:search-error");
        return;
    }
    let out = printer.into_inner().into_inner();

    // names
    let mut names = vec![];
    for n in NAMES.iter() {
        if let Some(i) = matcher.capture_index(n) {
            names.push((n.to_string(), i));
        }
    }
    let lt = if c.crlf { "crlf" } else { "lf" };
    let term_out: &[u8] = if c.crlf { b"\r\n" } else { b"\n" };
    let mut model_out = vec![];
    let mut spec_out = vec![];
    let mut any_match = false;
    let mut any_nonmatch = false;
    let mut ls = 0usize;
    for line in split_lines(&c.input) {
        let le = ls + line.len();
        let line_start = ls;
        ls = le;
        // model: where the haystack is cut is the model's business (the printer is handed the whole
        // buffer and the line's range in it)
        let e: usize = drv.ask(&format!("c19.trim {} {} {}", lt, hex(&c.input), le)).parse().unwrap_or(usize::MAX);
        if e > le {
            rep.violation(Violation {
                kind: "impl_vs_model".into(),
                class: "".into(),
                tie: "driver c19.trim".into(),
                case: case.to_string(),
                detail: "driver returned a bad trim".into(),
            });
            return;
        }
        let hay = &c.input[..e];
        // content as the property defines it
        let mut content = line;
        if content.last() == Some(&b'\n') {
            content = &content[..content.len() - 1];
            if c.crlf && content.last() == Some(&b'\r') {
                content = &content[..content.len() - 1];
            }
        }
        if !re.is_match(content) {
            any_nonmatch = true;
            continue;
        }
        any_match = true;
        if c.crlf && line.last() == Some(&b'\n') && !(line.len() >= 2 && line[line.len() - 2] == b'\r') {
            rep.branch("l2:crlf-mode-bare-lf-line");
        }
        let term_in: &[u8] = &line[content.len()..];
        let (table, sane) = caps_sx(&matcher, hay, line_start);
        if !sane {
            rep.violation(Violation {
                kind: "impl_vs_model".into(),
                class: "".into(),
                tie: "hypothesis `Sane` of theorems iteration_eq_regex_iterator / replace_in_context_eq / C19_partial (engine contract)".into(),
                case: case.to_string(),
                detail: format!("captures_at answers for pattern {:?} on {:?} violate the Sane contract", c.pat, show(hay)),
            });
        }
        rep.branch("l2:sane-table-checked");
        let reply = drv.ask(&format!(
            "c19.print {} {} {} {} {} {} {} {}",
            lt,
            c.only as u8,
            hex(&c.input),
            line_start,
            le,
            hex(&c.tmpl),
            names_sx(&names),
            table
        ));
        model_out.extend(unhex(&reply).unwrap_or_else(|| b"<bad-op>".to_vec()));
        // F6 (repaired): an empty match at the very end of an unterminated final line
        if term_in.is_empty() && re.find_iter(content).any(|m| m.is_empty() && m.start() == content.len()) {
            rep.branch("l2:empty-match-at-end-of-unterminated-last-line");
        }
        if c.only {
            for caps in re.captures_iter(content) {
                let mut x = vec![];
                caps.expand(&c.tmpl, &mut x);
                spec_out.extend(x);
                spec_out.extend_from_slice(term_out);
            }
        } else {
            spec_out.extend_from_slice(&re.replace_all(content, &c.tmpl[..]));
            // the property: the line terminator is left intact (a missing one is completed)
            spec_out.extend_from_slice(if term_in.is_empty() { term_out } else { term_in });
        }
    }
    let guard = drv.ask(&format!("c19.guard {}", hex(&c.tmpl)));
    rep.branch(if c.only { "l2:only-matching" } else { "l2:whole-line" });
    rep.branch(if c.crlf { "l2:crlf" } else { "l2:lf" });
    if any_match && any_nonmatch && !c.tmpl.is_empty() {
        rep.nontrivial(case);
    }
    if out != model_out {
        rep.violation(Violation {
            kind: "impl_vs_model".into(),
            class: "".into(),
            tie: "Standard printer with replacement vs Model.Replace.replaceAllLine (theorem replaceAll_eq_spec)".into(),
            case: case.to_string(),
            detail: format!(
                "pattern {:?} template {:?} input {:?}: impl {:?} model {:?}",
                c.pat,
                show(&c.tmpl),
                show(&c.input),
                show(&out),
                show(&model_out)
            ),
        });
    }
    if out != spec_out {
        let class = if guard == "0" {
            "braced-name-outside-capletters"
        } else {
            ""
        };
        rep.violation(Violation {
            kind: "impl_vs_spec".into(),
            class: class.into(),
            tie: "rg -r output vs regex::bytes::Regex::replace_all per line".into(),
            case: case.to_string(),
            detail: format!(
                "pattern {:?} template {:?} input {:?}: ripgrep prints {:?}, regex replace_all gives {:?}",
                c.pat,
                show(&c.tmpl),
                show(&c.input),
                show(&out),
                show(&spec_out)
            ),
        });
    }
}

fn run_case(case: &str, drv: &mut Driver, rep: &mut Report) {
    let parts: Vec<&str> = case.split(' ').collect();
    match parts.first().copied() {
        Some("l1") => match parse_l1(&parts) {
            Some(c) => run_l1(case, &c, drv, rep),
            None => rep.notes.push(format!("unparsable case: {}", case)),
        },
        Some("l2") => match parse_l2(&parts) {
            Some(c) => run_l2(case, &c, drv, rep),
            None => rep.notes.push(format!("unparsable case: {}", case)),
        },
        _ => rep.notes.push(format!("unparsable case: {}", case)),
    }
}

fn main() {
    let args = parse_args();
    let mut drv = Driver::spawn(&args.driver);
    let mut rep = Report::new(
        "C19",
        "L1: random templates over the reference grammar (10% from a malformed stream) x random capture \
         environments; L2: random patterns with capture groups x templates x 1-4 line inputs, LF/CRLF, -o. \
         Non-trivial: L1 expansion differs from the template; L2 input has both a matching and a non-matching line. \
         Distinct by case text.",
    );
    for c in corpus_cases(&args) {
        run_case(&c, &mut drv, &mut rep);
    }
    if args.replay.is_none() {
        let mut rng = Rng::new(args.seed);
        let n = args.cases.unwrap_or(if args.thorough { 60000 } else { 4000 });
        for i in 0..n {
            let malformed = i % 10 == 9;
            let case = if i % 2 == 0 { l1_case(&mut rng, malformed) } else { l2_case(&mut rng, malformed) };
            if i < 6 {
                rep.sample(case.clone());
            }
            run_case(&case, &mut drv, &mut rep);
        }
    }
    rep.write(&args);
}
