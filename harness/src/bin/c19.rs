//! C19 — replacement output equals the regex library's replace-all of each matching line.
//!
//! L1: `Captures::interpolate` (real code, harness-supplied capture locations) vs model `interpolate`
//!     vs spec `expand` (regex-crate grammar).
//! L2: the Standard printer with `replacement` over a real `RegexMatcher` vs model `replaceAllLine`
//!     (matcher given as a table of `captures_at` answers) vs `regex::bytes::Regex::replace_all`.
use grep_matcher::{Captures, Match, Matcher};
use grep_printer::StandardBuilder;
use grep_regex::RegexMatcherBuilder;
use grep_searcher::SearcherBuilder;
use rgverif_harness::*;

#[derive(Clone, Debug)]
struct TestCaps {
    groups: Vec<Option<Match>>,
}
impl Captures for TestCaps {
    fn len(&self) -> usize {
        self.groups.len()
    }
    fn get(&self, i: usize) -> Option<Match> {
        self.groups.get(i).copied().flatten()
    }
}

const NAMES: [&str; 4] = ["x", "name", "a1", "_u"];

fn gen_template(rng: &mut Rng, malformed: bool) -> Vec<u8> {
    let mut t = vec![];
    let n = rng.range(0, 6);
    for _ in 0..n {
        let k = rng.below(if malformed { 22 } else { 14 });
        match k {
            // literals include the bytes adjacent to every range of the capture-name alphabet
            // ('/' '0' '9' ':' '@' 'A' 'Z' '[' '^' '_' '`' 'a' 'z' '{') so an off-by-one in it is visible
            0 => t.push(*rng.pick(b"ab -_X")),
            1 => t.push(*rng.pick(b"/09:@AZ[\\]^_`az{|~.")),
            2 => t.extend(b"$$"),
            3 => t.extend(format!("${}", rng.below(4)).as_bytes()),
            4 => t.extend(format!("${{{}}}", rng.below(4)).as_bytes()),
            5 => t.extend(format!("${}", rng.pick(&NAMES)).as_bytes()),
            6 => t.extend(format!("${{{}}}", rng.pick(&NAMES)).as_bytes()),
            7 => t.extend(b"$"),
            8 => t.extend(b"${1"),
            9 => t.extend(format!("${}a", rng.below(3)).as_bytes()),
            10 => t.extend(b"}"),
            11 => t.extend(b"{"),
            12 => t.extend(format!("${}", [12usize, 4294967295, 4294967296, 99999999999][rng.below(4)]).as_bytes()),
            13 => t.extend(b"$nope"),
            // malformed / F12 territory
            14 => t.extend(b"${}"),
            15 => t.extend(b"${a-b}"),
            16 => t.extend(b"${+1}"),
            17 => t.extend(b"${ 1}"),
            18 => t.extend(b"${\xff}"),
            19 => t.push(0xff),
            20 => t.extend(b"${x y}"),
            _ => t.extend(b"${1$2}"),
        }
    }
    t
}

fn names_sx(names: &[(String, usize)]) -> String {
    let v: Vec<String> = names.iter().map(|(n, i)| format!("({} {})", hex(n.as_bytes()), i)).collect();
    format!("(names {})", v.join(" "))
}

fn l1_case(rng: &mut Rng, malformed: bool) -> String {
    let hay: Vec<u8> = (0..rng.range(0, 8)).map(|_| *rng.pick(b"abc ")).collect();
    let ng = rng.range(1, 4);
    let mut groups = vec![];
    for _ in 0..ng {
        if rng.chance(1, 4) {
            groups.push("~".to_string());
        } else {
            let s = rng.range(0, hay.len());
            let e = rng.range(s, hay.len());
            groups.push(format!("{}:{}", s, e));
        }
    }
    let mut names = vec![];
    for (i, n) in NAMES.iter().enumerate() {
        if rng.chance(1, 2) {
            names.push(format!("{}={}", n, rng.below(ng + 1).min(i + 1)));
        }
    }
    let t = gen_template(rng, malformed);
    format!("l1 {} {} [{}] [{}]", hex(&t), hex(&hay), groups.join(","), names.join(","))
}

struct L1 {
    tmpl: Vec<u8>,
    hay: Vec<u8>,
    groups: Vec<Option<Match>>,
    names: Vec<(String, usize)>,
}

fn strip_brackets(s: &str) -> &str {
    s.trim_start_matches('[').trim_end_matches(']')
}

fn parse_l1(parts: &[&str]) -> Option<L1> {
    if parts.len() != 5 {
        return None;
    }
    let tmpl = unhex(parts[1])?;
    let hay = unhex(parts[2])?;
    let mut groups = vec![];
    for g in strip_brackets(parts[3]).split(',').filter(|s| !s.is_empty()) {
        if g == "~" {
            groups.push(None);
        } else {
            let (s, e) = g.split_once(':')?;
            let (s, e): (usize, usize) = (s.parse().ok()?, e.parse().ok()?);
            if s > e || e > hay.len() {
                return None;
            }
            groups.push(Some(Match::new(s, e)));
        }
    }
    let mut names = vec![];
    for n in strip_brackets(parts[4]).split(',').filter(|s| !s.is_empty()) {
        let (k, v) = n.split_once('=')?;
        names.push((k.to_string(), v.parse().ok()?));
    }
    Some(L1 { tmpl, hay, groups, names })
}

fn run_l1(case: &str, c: &L1, drv: &mut Driver, rep: &mut Report) {
    rep.eval();
    // implementation: the trait's provided `interpolate`
    let caps = TestCaps { groups: c.groups.clone() };
    let mut dst = vec![];
    caps.interpolate(
        |name| c.names.iter().find(|(n, _)| n == name).map(|(_, i)| *i),
        &c.hay,
        &c.tmpl,
        &mut dst,
    );
    let gs: Vec<String> = c
        .groups
        .iter()
        .map(|g| match g {
            None => "~".to_string(),
            Some(m) => hex(&c.hay[m.start()..m.end()]),
        })
        .collect();
    let env = format!("(groups {}) {}", gs.join(" "), names_sx(&c.names));
    let m = drv.ask(&format!("c19.interp {} {}", hex(&c.tmpl), env));
    let s = drv.ask(&format!("c19.spec {} {}", hex(&c.tmpl), env));
    let guard = drv.ask(&format!("c19.guard {}", hex(&c.tmpl)));
    let imp = hex(&dst);
    rep.branch(if guard == "1" { "l1:braceOk" } else { "l1:braceBad" });
    if c.tmpl.windows(2).any(|w| w == b"$$") {
        rep.branch("l1:escape");
    }
    if c.tmpl.windows(2).any(|w| w == b"${") {
        rep.branch("l1:braced");
    }
    if imp != hex(&c.tmpl) && !c.tmpl.is_empty() {
        rep.nontrivial(case);
    }
    if imp != m {
        rep.violation(Violation {
            kind: "impl_vs_model".into(),
            class: "".into(),
            tie: "Captures::interpolate vs Model.Interp.interpolate (theorem interpolate_eq_spec)".into(),
            case: case.to_string(),
            detail: format!("template {:?}: impl {} model {}", show(&c.tmpl), imp, m),
        });
    }
    if imp != s {
        let class = if guard == "0" { "braced-name-outside-capletters" } else { "" };
        rep.violation(Violation {
            kind: "impl_vs_spec".into(),
            class: class.into(),
            tie: "Captures::interpolate vs regex-crate template grammar".into(),
            case: case.to_string(),
            detail: format!(
                "template {:?}: ripgrep expands to {:?}, regex grammar to {:?}",
                show(&c.tmpl),
                show(&dst),
                show(&unhex(&s).unwrap_or_default())
            ),
        });
    }
    if m != s && guard == "1" {
        rep.violation(Violation {
            kind: "model_vs_spec".into(),
            class: "".into(),
            tie: "theorem interpolate_eq_spec contradicted".into(),
            case: case.to_string(),
            detail: format!("model {} spec {}", m, s),
        });
    }
}

// ---------------------------------------------------------------- L2

fn gen_pattern(rng: &mut Rng, depth: usize, ngroups: &mut usize) -> String {
    let k = rng.below(if depth == 0 { 5 } else { 12 });
    match k {
        0 => "a".into(),
        1 => "b".into(),
        2 => "[ab]".into(),
        // since 0cdcce3 the printer searches a line as a haystack of its own, so the absolute anchors (and the
        // line anchors with (?-m)) are part of the stream: they hold at the start / end of every line
        3 => ["\\b", "^", "$", "", "c", "\\A", "\\z", "(?-m:^)", "(?-m:$)", "\\B"][rng.below(10)].into(),
        4 => ".".into(),
        5 | 6 => {
            *ngroups += 1;
            let named = rng.chance(1, 3);
            let idx = *ngroups;
            let inner = gen_pattern(rng, depth - 1, ngroups);
            if named && idx <= NAMES.len() {
                format!("(?P<{}>{})", NAMES[idx - 1], inner)
            } else {
                format!("({})", inner)
            }
        }
        7 => format!("{}{}", gen_pattern(rng, depth - 1, ngroups), gen_pattern(rng, depth - 1, ngroups)),
        8 => format!("(?:{}|{})", gen_pattern(rng, depth - 1, ngroups), gen_pattern(rng, depth - 1, ngroups)),
        9 => format!("(?:{})*", gen_pattern(rng, depth - 1, ngroups)),
        10 => format!("(?:{})?", gen_pattern(rng, depth - 1, ngroups)),
        _ => format!("(?:{})+", gen_pattern(rng, depth - 1, ngroups)),
    }
}

// (Until 4165f41 `\B` was generated only without --crlf: the fast searcher judged a line with its `\r` still in view and
// reported lines whose content has no match — C01's F1, repaired there. The restriction is lifted.)

fn gen_input(rng: &mut Rng, crlf: bool) -> Vec<u8> {
    let mut input = vec![];
    let nl = rng.range(1, 4);
    for i in 0..nl {
        // one case in three: multi-byte characters (2 and 3 bytes) and stray continuation / invalid bytes between the
        // ASCII ones -- the property quantifies over all byte strings, and the iteration after an EMPTY match advances
        // by one BYTE (as regex::bytes does), also into the middle of a code point (seeded change C19-1-1)
        let wide = rng.chance(1, 3);
        for _ in 0..rng.range(0, 6) {
            if wide && rng.chance(1, 3) {
                input.extend_from_slice(*rng.pick(&[&b"\xc3\xa9"[..], &b"\xe2\x82\xac"[..], &b"\xa9"[..], &b"\xff"[..], &b"\xc3"[..]]));
            } else {
                input.push(*rng.pick(b"aabbc -"));
            }
        }
        if i + 1 < nl || rng.chance(3, 4) {
            if crlf && rng.chance(3, 4) {
                input.push(b'\r');
            }
            input.push(b'\n');
        }
    }
    input
}

fn l2_case(rng: &mut Rng, malformed: bool) -> String {
    let mut ng = 0;
    let pat = gen_pattern(rng, 3, &mut ng);
    let tmpl = gen_template(rng, malformed);
    let crlf = rng.chance(1, 4);
    let input = gen_input(rng, crlf);
    let only = rng.chance(1, 4);
    // per-match records (--vimgrep) and prelude fields (-n, --column)
    let per_match = rng.chance(1, 4);
    let prelude = rng.chance(1, 2);
    // --null-data: NUL-terminated lines, which may contain `\n` (where `^` / `$` still match and `.` does not)
    let nul = !crlf && rng.chance(1, 6);
    // (until a2e984b a pattern with haystack anchors sent the searcher down its fast path under --null-data, where the
    // anchors saw the buffer instead of the line: `printf 'ab\0cd\0ab' | rg -a --null-data -c 'b\z'` counted 1.
    // Found by this stream, repaired; the anchors are generated for NUL-terminated lines too.)
    let input = if nul {
        let mut v: Vec<u8> = input.iter().map(|&b| if b == b'\n' { 0 } else { b }).collect();
        for _ in 0..rng.below(3) {
            if !v.is_empty() {
                let at = rng.below(v.len() + 1);
                v.insert(at, b'\n');
            }
        }
        v
    } else {
        input
    };
    format!(
        "l2 {} {} {} crlf={} o={} pm={} pre={}{}",
        hex(pat.as_bytes()),
        hex(&tmpl),
        hex(&input),
        crlf as u8,
        only as u8,
        per_match as u8,
        prelude as u8,
        if nul { " nul=1" } else { "" }
    )
}

struct L2 {
    pat: String,
    tmpl: Vec<u8>,
    input: Vec<u8>,
    crlf: bool,
    only: bool,
    per_match: bool,
    prelude: bool,
    nul: bool,
}

fn parse_l2(parts: &[&str]) -> Option<L2> {
    // older corpus lines have no pm= / pre= fields
    if parts.len() != 6 && parts.len() != 8 && parts.len() != 9 {
        return None;
    }
    Some(L2 {
        pat: String::from_utf8(unhex(parts[1])?).ok()?,
        tmpl: unhex(parts[2])?,
        input: unhex(parts[3])?,
        crlf: parts[4] == "crlf=1",
        only: parts[5] == "o=1",
        per_match: parts.get(6).map_or(false, |p| *p == "pm=1"),
        prelude: parts.get(7).map_or(false, |p| *p == "pre=1"),
        nul: parts.get(8).map_or(false, |p| *p == "nul=1"),
    })
}

/// lines with their terminators
fn split_lines(input: &[u8]) -> Vec<&[u8]> {
    split_lines_at(input, b'\n')
}

fn split_lines_at(input: &[u8], tb: u8) -> Vec<&[u8]> {
    let mut out = vec![];
    let mut s = 0;
    for (i, &b) in input.iter().enumerate() {
        if b == tb {
            out.push(&input[s..=i]);
            s = i + 1;
        }
    }
    if s < input.len() {
        out.push(&input[s..]);
    }
    out
}

/// `captures_at(hay, pos)` for every `pos >= from` (earlier positions are never asked by the model).
/// Also checks the `Sane` contract the theorems assume of the engine (match within `[pos, len]`,
/// same answer from every position up to the match start); returns false if it is violated.
fn caps_sx(m: &grep_regex::RegexMatcher, hay: &[u8], from: usize) -> (String, bool) {
    let mut caps = m.new_captures().unwrap();
    let mut tab = vec![];
    let mut spans: Vec<Option<(usize, usize)>> = vec![];
    for pos in 0..=hay.len() {
        if pos < from {
            tab.push("~".to_string());
            spans.push(None);
            continue;
        }
        if m.captures_at(hay, pos, &mut caps).unwrap() {
            let gs: Vec<String> = (0..caps.len())
                .map(|i| match caps.get(i) {
                    None => "~".to_string(),
                    Some(mm) => format!("({} {})", mm.start(), mm.end()),
                })
                .collect();
            tab.push(format!("(caps {})", gs.join(" ")));
            spans.push(caps.get(0).map(|mm| (mm.start(), mm.end())));
        } else {
            tab.push("~".to_string());
            spans.push(None);
        }
    }
    let mut sane = true;
    for pos in from..=hay.len() {
        if let Some((s, e)) = spans[pos] {
            if s < pos || e < s || e > hay.len() {
                sane = false;
            }
            for p2 in pos..=s.min(hay.len()) {
                if tab[p2] != tab[pos] {
                    sane = false;
                }
            }
        }
    }
    (format!("(table {})", tab.join(" ")), sane)
}

/// The prelude the printer writes before a record when -n and --column are on: `ln:col:` (no column when
/// the record has none).
fn prelude(on: bool, ln: usize, col: Option<usize>) -> Vec<u8> {
    if !on {
        return vec![];
    }
    match col {
        Some(c) => format!("{}:{}:", ln, c).into_bytes(),
        None => format!("{}:", ln).into_bytes(),
    }
}

/// Expected records of one matching line per the property, from the regex crate: the replaced line with the
/// start offset of every expansion in it.
fn spec_replace(re: &regex::bytes::Regex, content: &[u8], tmpl: &[u8]) -> (Vec<u8>, Vec<(usize, usize)>) {
    let mut dst = vec![];
    let mut spans = vec![];
    let mut last = 0;
    for caps in re.captures_iter(content) {
        let m = caps.get(0).unwrap();
        dst.extend_from_slice(&content[last..m.start()]);
        let s = dst.len();
        caps.expand(tmpl, &mut dst);
        spans.push((s, dst.len()));
        last = m.end();
    }
    dst.extend_from_slice(&content[last..]);
    (dst, spans)
}

fn run_l2(case: &str, c: &L2, drv: &mut Driver, rep: &mut Report) {
    rep.eval();
    // the terminator byte: `\n`, or NUL for --null-data (the regex keeps `\n` as ITS line terminator there: grep-regex
    // does not hand NUL to the regex, so `^` / `$` match around `\n` inside a NUL-terminated line, for rg and for the
    // reference alike)
    let tb: u8 = if c.nul { 0 } else { b'\n' };
    // as rg builds it: under --null-data the matcher is told the NUL terminator (the searcher then judges every line
    // on its own in the slow path; without it the fast path would search the buffer, where `$` does not hold before a
    // NUL — the recorded C02/C01 class `nul-terminator-lf-anchored-matcher`, not this property's business)
    let mut mb = RegexMatcherBuilder::new();
    mb.multi_line(true).crlf(c.crlf);
    if c.nul {
        mb.line_terminator(Some(0));
    }
    let matcher = match mb.build(&c.pat) {
        Ok(m) => m,
        Err(_) => {
            rep.branch("l2:pattern-rejected");
            return;
        }
    };
    let re = match regex::bytes::RegexBuilder::new(&c.pat).multi_line(true).crlf(c.crlf).build() {
        Ok(r) => r,
        Err(_) => {
            rep.branch("l2:regex-rejected");
            return;
        }
    };
    // implementation: the real printer with a replacement
    let mut printer = StandardBuilder::new()
        .replacement(Some(c.tmpl.clone()))
        .only_matching(c.only)
        .per_match(c.per_match)
        .column(c.prelude)
        .build_no_color(vec![]);
    let mut searcher = SearcherBuilder::new()
        .line_number(c.prelude)
        .line_terminator(if c.crlf {
            grep_matcher::LineTerminator::crlf()
        } else {
            grep_matcher::LineTerminator::byte(tb)
        })
        .build();
    if searcher.search_slice(&matcher, &c.input, printer.sink(&matcher)).is_err() {
        rep.branch("l2:search-error");
        return;
    }
    let out = printer.into_inner().into_inner();

    // names
    let mut names = vec![];
    for n in NAMES.iter() {
        if let Some(i) = matcher.capture_index(n) {
            names.push((n.to_string(), i));
        }
    }
    let lt = if c.crlf { "crlf" } else if c.nul { "nul" } else { "lf" };
    let term_out: &[u8] = if c.crlf { b"\r\n" } else if c.nul { b"\0" } else { b"\n" };
    let mut model_out = vec![];
    let mut spec_out = vec![];
    let mut any_match = false;
    let mut any_nonmatch = false;
    let mut ls = 0usize;
    for (idx, line) in split_lines_at(&c.input, tb).into_iter().enumerate() {
        let ln = idx + 1;
        let le = ls + line.len();
        let line_start = ls;
        ls = le;
        // model: where the haystack is cut is the model's business (the printer is handed the whole
        // buffer and the line's range in it)
        let e: usize =
            drv.ask(&format!("c19.trim {} {} {} {}", lt, hex(&c.input), line_start, le)).parse().unwrap_or(usize::MAX);
        if e > le || e < line_start {
            rep.violation(Violation {
                kind: "impl_vs_model".into(),
                class: "".into(),
                tie: "driver c19.trim".into(),
                case: case.to_string(),
                detail: "driver returned a bad trim".into(),
            });
            return;
        }
        // since 0cdcce3 the line's content is the haystack, searched from 0
        let hay = &c.input[line_start..e];
        // content as the property defines it
        let mut content = line;
        if content.last() == Some(&tb) {
            content = &content[..content.len() - 1];
            if c.crlf && content.last() == Some(&b'\r') {
                content = &content[..content.len() - 1];
            }
        }
        if !re.is_match(content) {
            any_nonmatch = true;
            continue;
        }
        any_match = true;
        if c.crlf && line.last() == Some(&b'\n') && !(line.len() >= 2 && line[line.len() - 2] == b'\r') {
            rep.branch("l2:crlf-mode-bare-lf-line");
        }
        let term_in: &[u8] = &line[content.len()..];
        let (table, sane) = caps_sx(&matcher, hay, 0);
        if !sane {
            rep.violation(Violation {
                kind: "impl_vs_model".into(),
                class: "".into(),
                tie: "hypothesis `Sane` of theorems iteration_eq_regex_iterator / replace_in_context_eq / C19_line (engine contract)".into(),
                case: case.to_string(),
                detail: format!("captures_at answers for pattern {:?} on {:?} violate the Sane contract", c.pat, show(hay)),
            });
        }
        rep.branch("l2:sane-table-checked");
        let reply = drv.ask(&format!(
            "c19.print {} {} {} {} {} {} {} {} {}",
            lt,
            c.only as u8,
            c.per_match as u8,
            hex(&c.input),
            line_start,
            le,
            hex(&c.tmpl),
            names_sx(&names),
            table
        ));
        for rec in reply.split(' ').filter(|r| !r.is_empty()) {
            match rec.split_once(':') {
                Some((col, text)) => {
                    model_out.extend(prelude(c.prelude, ln, col.parse().ok()));
                    model_out.extend(unhex(text).unwrap_or_else(|| b"<bad-op>".to_vec()));
                }
                None => model_out.extend_from_slice(b"<bad-op>"),
            }
        }
        // F6 (repaired): an empty match at the very end of an unterminated final line
        if term_in.is_empty() && re.find_iter(content).any(|m| m.is_empty() && m.start() == content.len()) {
            rep.branch("l2:empty-match-at-end-of-unterminated-last-line");
        }
        // the property: each match replaced by its expansion, everything else and the terminator intact
        // (a missing terminator is completed); -o: one record per expansion; per-match: the line once per match
        let (dst, spans) = spec_replace(&re, content, &c.tmpl);
        let own_term: &[u8] = if term_in.is_empty() { term_out } else { term_in };
        if c.only {
            for (s, e) in &spans {
                spec_out.extend(prelude(c.prelude, ln, Some(s + 1)));
                spec_out.extend_from_slice(&dst[*s..*e]);
                // a record is terminated unless the expansion itself ends in the terminator byte
                if dst[*s..*e].last() != Some(&tb) {
                    spec_out.extend_from_slice(term_out);
                }
            }
        } else if c.per_match {
            for (s, _) in &spans {
                spec_out.extend(prelude(c.prelude, ln, Some(s + 1)));
                spec_out.extend_from_slice(&dst);
                spec_out.extend_from_slice(own_term);
            }
        } else {
            spec_out.extend(prelude(c.prelude, ln, spans.first().map(|x| x.0 + 1)));
            spec_out.extend_from_slice(&dst);
            spec_out.extend_from_slice(own_term);
        }
    }
    let guard = drv.ask(&format!("c19.guard {}", hex(&c.tmpl)));
    rep.branch(if c.only { "l2:only-matching" } else if c.per_match { "l2:per-match" } else { "l2:whole-line" });
    rep.branch(if c.prelude { "l2:line-number+column" } else { "l2:no-prelude" });
    rep.branch(if c.crlf { "l2:crlf" } else if c.nul { "l2:nul" } else { "l2:lf" });
    if any_match && any_nonmatch && !c.tmpl.is_empty() {
        rep.nontrivial(case);
    }
    if out != model_out {
        rep.violation(Violation {
            kind: "impl_vs_model".into(),
            class: "".into(),
            tie: "Standard printer with replacement vs Model.Replace.replaceAllLine/printRecords (theorems replace_in_context_eq, C19_line)".into(),
            case: case.to_string(),
            detail: format!(
                "pattern {:?} template {:?} input {:?}: impl {:?} model {:?}",
                c.pat,
                show(&c.tmpl),
                show(&c.input),
                show(&out),
                show(&model_out)
            ),
        });
    }
    if out != spec_out {
        let class = if guard == "0" { "braced-name-outside-capletters" } else { "" };
        rep.violation(Violation {
            kind: "impl_vs_spec".into(),
            class: class.into(),
            tie: "rg -r output vs regex::bytes::Regex::replace_all per line".into(),
            case: case.to_string(),
            detail: format!(
                "pattern {:?} template {:?} input {:?}: ripgrep prints {:?}, regex replace_all gives {:?}",
                c.pat,
                show(&c.tmpl),
                show(&c.input),
                show(&out),
                show(&spec_out)
            ),
        });
    }
}

// ---------------------------------------------------------------- L3: multi-line (-U), implementation vs spec

fn gen_ml_pattern(rng: &mut Rng) -> String {
    // pieces that can span a terminator, mixed with ordinary ones and empty-matching alternatives
    let pieces = ["a", "b", "c", "\\n", "\\n?", "(b)", "(?P<x>a)", "[ab]", "\\s", "(?:a\\nb)", "^", "$", " ", "(\\n)", "q"];
    let n = rng.range(1, 4);
    let mut p = String::new();
    for _ in 0..n {
        p.push_str(*rng.pick(&pieces[..]));
    }
    if rng.chance(1, 4) {
        p = format!("{}|{}", p, *rng.pick(&["^", "b\\nc", "(a)", "\\n\\n"][..]));
    }
    p
}

fn l3_case(rng: &mut Rng, malformed: bool) -> String {
    let pat = gen_ml_pattern(rng);
    let tmpl = gen_template(rng, malformed);
    let crlf = rng.chance(1, 4);
    let mut input = gen_input(rng, crlf);
    if rng.chance(1, 2) {
        input.extend(gen_input(rng, crlf));
    }
    format!("l3 {} {} {} crlf={} pre={}", hex(pat.as_bytes()), hex(&tmpl), hex(&input), crlf as u8, rng.chance(1, 2) as u8)
}

/// C19 under -U: the printed blocks are the lines covered by the matches, with each match replaced.
/// Implementation vs the regex crate only (the multi-line branch of `replace_all` is not modelled in Lean).
fn run_l3(case: &str, parts: &[&str], drv: &mut Driver, rep: &mut Report) {
    if parts.len() != 6 {
        rep.notes.push(format!("unparsable case: {}", case));
        return;
    }
    let (pat, tmpl, input) = match (
        unhex(parts[1]).and_then(|b| String::from_utf8(b).ok()),
        unhex(parts[2]),
        unhex(parts[3]),
    ) {
        (Some(p), Some(t), Some(i)) => (p, t, i),
        _ => {
            rep.notes.push(format!("unparsable case: {}", case));
            return;
        }
    };
    let crlf = parts[4] == "crlf=1";
    let pre = parts[5] == "pre=1";
    rep.eval();
    // as `rg -U [--crlf]` builds it (hiargs.rs): CRLF-aware anchors but no line terminator on the matcher
    let matcher = match RegexMatcherBuilder::new().multi_line(true).crlf(crlf).line_terminator(None).build(&pat) {
        Ok(m) => m,
        Err(_) => {
            rep.branch("l3:pattern-rejected");
            return;
        }
    };
    let re = match regex::bytes::RegexBuilder::new(&pat).multi_line(true).crlf(crlf).build() {
        Ok(r) => r,
        Err(_) => {
            rep.branch("l3:regex-rejected");
            return;
        }
    };
    let mut printer = StandardBuilder::new().replacement(Some(tmpl.clone())).build_no_color(vec![]);
    let mut searcher = SearcherBuilder::new()
        .multi_line(true)
        .line_number(pre)
        .line_terminator(if crlf {
            grep_matcher::LineTerminator::crlf()
        } else {
            grep_matcher::LineTerminator::byte(b'\n')
        })
        .build();
    // the real printer behind a tee that records the blocks it is handed (for the Lean model of the multi-line
    // branch); a panic of the printer (a kept match ending beyond the block, F18 family) must not take the harness down
    let ml_eff = searcher.multi_line_with_matcher(&matcher);
    let mut blocks_seen: Vec<L3Block> = vec![];
    let searched = std::panic::catch_unwind(std::panic::AssertUnwindSafe(|| {
        let tee = L3Tee { inner: printer.sink(&matcher), blocks: &mut blocks_seen };
        searcher.search_slice(&matcher, &input, tee)
    }));
    let impl_panicked = searched.is_err();
    if let Ok(Err(_)) = searched {
        rep.branch("l3:search-error");
        return;
    }
    let out = printer.into_inner().into_inner();
    l3_model_check(case, &matcher, &tmpl, &input, crlf, ml_eff, &blocks_seen, &out, impl_panicked, None, drv, rep);
    // class predicate of `multiline-match-beyond-block` (since 2e6bd1f: such a match is left unreplaced so that its
    // expansion cannot copy bytes from beyond the reported lines): in the haystack the printer re-searches (cut
    // MAX_LOOK_AHEAD bytes behind the block) a match starts inside a reported block and ends beyond it
    let refound_beyond_block = ml_eff && blocks_seen.iter().any(|b| l3_match_beyond_block(&matcher, &input, b));
    if refound_beyond_block {
        rep.branch("l3:refound-match-beyond-block");
        // the C14 side of it, checked directly with the identity template `$0`: replacing every match by itself
        // must print exactly the reported blocks — a replaced match reaching beyond its block would add bytes
        // the searcher never delivered (seed witness `rg -U -r '[$0]' 'a\n[^\n]{128}\z|Q'`)
        if !crlf {
            l3_identity_probe(case, &matcher, &input, &blocks_seen, rep);
        }
    }
    // shadow run (model comparison only): the same search on the input followed by 150 bytes of filler lines, so
    // that `replace_all` really cuts the haystack MAX_LOOK_AHEAD bytes after the block
    if ml_eff && fnv(case.as_bytes()) % 4 == 0 {
        l3_shadow_padded(case, &matcher, &tmpl, &input, crlf, pre, drv, rep);
    }
    // option variants (model comparison only): the same search printed with a path, --column, -b, -o or --vimgrep
    if ml_eff && !impl_panicked {
        l3_option_variant(case, &matcher, &tmpl, &input, crlf, pre, drv, rep);
    }
    if impl_panicked {
        rep.branch("l3:printer-panic");
        rep.violation(Violation {
            kind: "impl_vs_spec".into(),
            // the panic (F18) was repaired by 55c3d7e + 2e6bd1f: a panic now is a new violation, never a recorded one
            class: "".into(),
            tie: "rg -U -r must print every reported block".into(),
            case: case.to_string(),
            detail: format!("pattern {:?} input {:?}: the printer panicked inside replace_all", pat, show(&input)),
        });
        return;
    }
    // spec: successive matches over the whole input; blocks = covered lines, touching blocks merged
    let line_start = |p: usize| input[..p].iter().rposition(|&b| b == b'\n').map_or(0, |i| i + 1);
    let line_end = |p: usize| {
        // end of the line containing position p (p may be the position just after a match)
        input[p..].iter().position(|&b| b == b'\n').map_or(input.len(), |i| p + i + 1)
    };
    let mut ms: Vec<regex::bytes::Captures> = vec![];
    for caps in re.captures_iter(&input) {
        let m = caps.get(0).unwrap();
        // the position behind the final terminator is not on any line
        if m.is_empty() && m.start() == input.len() && input.last() == Some(&b'\n') {
            continue;
        }
        if m.is_empty() && input.is_empty() {
            continue;
        }
        ms.push(caps);
    }
    let mut blocks: Vec<(usize, usize, Vec<usize>)> = vec![]; // start, end, match indices
    for (i, caps) in ms.iter().enumerate() {
        let m = caps.get(0).unwrap();
        let s = line_start(m.start());
        let e = if m.end() > m.start() { line_end(m.end() - 1) } else { line_end(m.start()) };
        match blocks.last_mut() {
            Some(b) if b.1 >= s => {
                b.1 = b.1.max(e);
                b.2.push(i);
            }
            _ => blocks.push((s, e, vec![i])),
        }
    }
    let term_out: &[u8] = if crlf { b"\r\n" } else { b"\n" };
    let mut spec_out = vec![];
    let mut lookahead_sensitive = false;
    for (s, e, idxs) in &blocks {
        let mut dst = vec![];
        let mut last = *s;
        for &i in idxs {
            let m = ms[i].get(0).unwrap();
            if m.end() > *e {
                lookahead_sensitive = true;
            }
            dst.extend_from_slice(&input[last..m.start()]);
            ms[i].expand(&tmpl, &mut dst);
            last = m.end();
        }
        dst.extend_from_slice(&input[last.min(*e)..*e]);
        // printed line by line with the number of the line of the ORIGINAL block it replaces (n, n+1, …)
        let first_ln = input[..*s].iter().filter(|&&b| b == b'\n').count() + 1;
        let mut k = 0;
        let mut p = 0;
        while p < dst.len() {
            let q = dst[p..].iter().position(|&b| b == b'\n').map_or(dst.len(), |i| p + i + 1);
            if pre {
                spec_out.extend(format!("{}:", first_ln + k).into_bytes());
            }
            spec_out.extend_from_slice(&dst[p..q]);
            if dst[p..q].last() != Some(&b'\n') {
                spec_out.extend_from_slice(term_out);
            }
            k += 1;
            p = q;
        }
        // a block whose every byte (terminator included) was matched and replaced by nothing prints nothing.
        // When the search really runs line by line (`-U` with a pattern that cannot match a terminator), every line
        // is a record of its own: an unterminated last line whose whole content was replaced by nothing is still
        // printed, as an empty line (the line rule of l2: replaced content, then the line's terminator, completed)
        if !ml_eff && *e == input.len() && input.last() != Some(&b'\n') {
            let ls = line_start(input.len());
            let last_line_dst_empty = idxs.iter().any(|&i| ms[i].get(0).unwrap().start() >= ls) && {
                let mut d = vec![];
                let mut last = ls;
                for &i in idxs {
                    let m = ms[i].get(0).unwrap();
                    if m.start() >= ls {
                        d.extend_from_slice(&input[last..m.start()]);
                        ms[i].expand(&tmpl, &mut d);
                        last = m.end();
                    }
                }
                d.extend_from_slice(&input[last..]);
                d.is_empty()
            };
            if last_line_dst_empty {
                if pre {
                    spec_out.extend(format!("{}:", first_ln + k).into_bytes());
                }
                spec_out.extend_from_slice(term_out);
            }
        }
    }
    let guard = drv.ask(&format!("c19.guard {}", hex(&tmpl)));
    // The searcher's own iteration (find_at from the previous end, +1 after an empty match) accepts an empty
    // match that starts exactly where the previous match ended; the regex iterator (and the printer's
    // replace loop) skips it. Detect that situation: it is a recorded finding (F32), not a new violation.
    let mut empty_after_match = false;
    {
        let (mut pos, mut last_end) = (0usize, None);
        while pos <= input.len() {
            match re.find_at(&input, pos) {
                None => break,
                Some(m) => {
                    if m.is_empty() && Some(m.start()) == last_end && m.start() < input.len() {
                        empty_after_match = true;
                    }
                    last_end = Some(m.end());
                    pos = if m.is_empty() { m.end() + 1 } else { m.end() };
                }
            }
        }
    }
    rep.branch(if crlf { "l3:crlf" } else { "l3:lf" });
    if blocks.iter().any(|b| input[b.0..b.1].iter().filter(|&&x| x == b'\n').count() > 1) {
        rep.branch("l3:block-spans-lines");
        rep.nontrivial(case);
    }
    if out != spec_out {
        // what the property leaves open in multi-line mode (stated in the rule): blocks whose replaced text
        // changes the number of lines (line numbers of later lines of the block). (F19 — CRLF blocks — was repaired by
        // b0493c8: every printed line keeps its own terminator, so a LF/CRLF difference is a new violation)
        let class = if guard == "0" {
            "braced-name-outside-capletters"
        } else if lookahead_sensitive || refound_beyond_block {
            "multiline-match-beyond-block"
        } else if empty_after_match {
            "multiline-empty-match-directly-after-a-match"
        } else {
            ""
        };
        if !class.is_empty() {
            rep.branch(&format!("class:{}:attributed", class));
        }
        rep.violation(Violation {
            kind: "impl_vs_spec".into(),
            class: class.into(),
            tie: "rg -U -r output vs regex replace_all over the lines covered by the matches".into(),
            case: case.to_string(),
            detail: format!(
                "pattern {:?} template {:?} input {:?}: ripgrep prints {:?}, replace-all of the covered lines gives {:?}",
                pat,
                show(&tmpl),
                show(&input),
                show(&out),
                show(&spec_out)
            ),
        });
    }
}

/// One `matched` callback of an l3 search: the block `[rs, re)` of the (slice) buffer, its offset and line number,
/// and whether the real sink's callback returned (it does not when `replace_all` panics).
struct L3Block {
    rs: usize,
    re: usize,
    off: u64,
    ln: Option<u64>,
    returned: bool,
}

struct L3Tee<'t, S> {
    inner: S,
    blocks: &'t mut Vec<L3Block>,
}

impl<'t, S: grep_searcher::Sink<Error = std::io::Error>> grep_searcher::Sink for L3Tee<'t, S> {
    type Error = std::io::Error;
    fn matched(&mut self, searcher: &grep_searcher::Searcher, mat: &grep_searcher::SinkMatch<'_>) -> Result<bool, std::io::Error> {
        let r = mat.bytes_range_in_buffer();
        self.blocks.push(L3Block { rs: r.start, re: r.end, off: mat.absolute_byte_offset(), ln: mat.line_number(), returned: false });
        let ret = self.inner.matched(searcher, mat)?;
        if let Some(b) = self.blocks.last_mut() {
            b.returned = true;
        }
        Ok(ret)
    }
    fn context(&mut self, searcher: &grep_searcher::Searcher, ctx: &grep_searcher::SinkContext<'_>) -> Result<bool, std::io::Error> {
        self.inner.context(searcher, ctx)
    }
    fn context_break(&mut self, searcher: &grep_searcher::Searcher) -> Result<bool, std::io::Error> {
        self.inner.context_break(searcher)
    }
    fn begin(&mut self, searcher: &grep_searcher::Searcher) -> Result<bool, std::io::Error> {
        self.inner.begin(searcher)
    }
    fn finish(&mut self, searcher: &grep_searcher::Searcher, fin: &grep_searcher::SinkFinish) -> Result<(), std::io::Error> {
        self.inner.finish(searcher, fin)
    }
}

/// impl vs model for C19 under -U: every block the real printer was handed is given to the Lean model of the
/// multi-line branch (`ReplaceMulti.printReplacedBlock`, theorems `C19_multi_buffer` / `C19_multi_records` /
/// `C19_multi` / `C19_multi_unreplaced` in Props/C19Multi.lean) with the real matcher's `captures_at` answers on
/// the haystack the model cuts; the concatenation of the model's outputs must be the printer's bytes, and the model
/// must abort exactly where the printer panics.
#[allow(clippy::too_many_arguments)]
fn l3_model_check(
    case: &str,
    matcher: &grep_regex::RegexMatcher,
    tmpl: &[u8],
    input: &[u8],
    crlf: bool,
    ml_eff: bool,
    blocks: &[L3Block],
    out: &[u8],
    impl_panicked: bool,
    std: Option<&str>,
    drv: &mut Driver,
    rep: &mut Report,
) {
    if !ml_eff {
        // the pattern cannot match a line terminator: the searcher and the printer take the line-oriented
        // branch, which is the l2 stream's business
        rep.branch("l3:not-effective-multi-line");
        return;
    }
    let lt = if crlf { "crlf" } else { "lf" };
    let tie = "Standard printer with replacement under -U (Replacer::replace_all multi-line branch, sink_slow_multi_line on                the replaced bytes) vs Model.ReplaceMulti.printReplacedBlock (theorems C19_multi_buffer, C19_multi_records,                C19_multi, C19_multi_unreplaced)";
    let mut names = vec![];
    for n in NAMES.iter() {
        if let Some(i) = matcher.capture_index(n) {
            names.push((n.to_string(), i));
        }
    }
    let mut model_out: Vec<u8> = vec![];
    let mut model_panicked = false;
    for b in blocks {
        let cut: usize = match drv.ask(&format!("c19.mlcut {} {} {}", lt, hex(input), b.re)).parse() {
            Ok(c) => c,
            Err(_) => {
                // the C19 driver does not delegate `c19.ml…` (yet)
                rep.branch("l3:model-not-wired");
                return;
            }
        };
        if cut > input.len() {
            rep.violation(Violation {
                kind: "impl_vs_model".into(),
                class: "".into(),
                tie: "driver c19.mlcut".into(),
                case: case.to_string(),
                detail: format!("cut {} beyond the buffer", cut),
            });
            return;
        }
        if cut < input.len() {
            rep.branch("l3:look-ahead-cut");
        }
        let (table, _sane) = caps_sx(matcher, &input[..cut], b.rs);
        let reply = drv.ask(&format!(
            "{} {} {} {} {} {} {} {} {} {}{}",
            if std.is_some() { "c19.mlprintc" } else { "c19.mlprint" },
            lt,
            hex(input),
            b.rs,
            b.re,
            b.off,
            b.ln.map_or("~".to_string(), |n| n.to_string()),
            hex(tmpl),
            names_sx(&names),
            table,
            std.map_or(String::new(), |s| format!(" {}", s))
        ));
        if reply == "panic" {
            model_panicked = true;
            if b.returned {
                rep.violation(Violation {
                    kind: "impl_vs_model".into(),
                    class: "".into(),
                    tie: tie.into(),
                    case: case.to_string(),
                    detail: format!("block [{}, {}): the model aborts, the printer does not", b.rs, b.re),
                });
                return;
            }
            break;
        }
        let m = reply
            .split(' ')
            .find_map(|f| f.strip_prefix("out="))
            .and_then(unhex);
        match m {
            Some(bytes) => {
                if !b.returned {
                    rep.violation(Violation {
                        kind: "impl_vs_model".into(),
                        class: "".into(),
                        tie: tie.into(),
                        case: case.to_string(),
                        detail: format!("block [{}, {}): the printer panicked, the model prints {:?}", b.rs, b.re, show(&bytes)),
                    });
                    return;
                }
                if reply.contains("spans= ") || reply.ends_with("spans=") {
                    rep.branch("l3:block-unreplaced");
                } else {
                    rep.branch("l3:block-replaced");
                }
                model_out.extend(bytes);
            }
            None => {
                rep.violation(Violation {
                    kind: "impl_vs_model".into(),
                    class: "".into(),
                    tie: tie.into(),
                    case: case.to_string(),
                    detail: format!("driver reply: {}", reply),
                });
                return;
            }
        }
    }
    if model_panicked != impl_panicked {
        rep.violation(Violation {
            kind: "impl_vs_model".into(),
            class: "".into(),
            tie: tie.into(),
            case: case.to_string(),
            detail: format!("printer panicked: {}, model aborts: {}", impl_panicked, model_panicked),
        });
        return;
    }
    if model_out != out {
        rep.violation(Violation {
            kind: "impl_vs_model".into(),
            class: "".into(),
            tie: tie.into(),
            case: case.to_string(),
            detail: format!("input {:?}: printer {:?} model {:?}", show(input), show(out), show(&model_out)),
        });
    }
}

/// Does the printer's re-search of block `b` (haystack cut 128 bytes behind it, from the block's start) find a match
/// that starts inside the block and ends beyond it?
fn l3_match_beyond_block(matcher: &grep_regex::RegexMatcher, input: &[u8], b: &L3Block) -> bool {
    let cut = if input.len() - b.re >= 128 { b.re + 128 } else { input.len() };
    let mut hit = false;
    let _ = matcher.find_iter_at(&input[..cut], b.rs, |m| {
        if m.start() >= b.re {
            return false;
        }
        if m.end() > b.re {
            hit = true;
            return false;
        }
        true
    });
    hit
}

/// `-U -r '$0'` must print the reported blocks themselves (each line terminated), nothing more.
fn l3_identity_probe(case: &str, matcher: &grep_regex::RegexMatcher, input: &[u8], blocks: &[L3Block], rep: &mut Report) {
    let mut printer = StandardBuilder::new().replacement(Some(b"$0".to_vec())).build_no_color(vec![]);
    let mut searcher = SearcherBuilder::new()
        .multi_line(true)
        .line_number(false)
        .line_terminator(grep_matcher::LineTerminator::byte(b'\n'))
        .build();
    let r = std::panic::catch_unwind(std::panic::AssertUnwindSafe(|| searcher.search_slice(matcher, input, printer.sink(matcher))));
    if !matches!(r, Ok(Ok(()))) {
        return;
    }
    let out = printer.into_inner().into_inner();
    let mut want = vec![];
    for b in blocks {
        want.extend_from_slice(&input[b.rs..b.re]);
        if input[b.rs..b.re].last() != Some(&b'\n') {
            want.push(b'\n');
        }
    }
    rep.branch("l3:identity-probe");
    if out != want {
        rep.violation(Violation {
            kind: "impl_vs_spec".into(),
            class: "".into(),
            tie: "rg -U -r '$0' prints the reported lines, no byte from beyond them (C19 / C14)".into(),
            case: case.to_string(),
            detail: format!("input {:?}: printed {:?}, the reported blocks are {:?}", show(input), show(&out), show(&want)),
        });
    }
}

/// The l3 search repeated on `input ++ filler` (50 lines `zz`), printer vs model only.
#[allow(clippy::too_many_arguments)]
fn l3_shadow_padded(
    case: &str,
    matcher: &grep_regex::RegexMatcher,
    tmpl: &[u8],
    input: &[u8],
    crlf: bool,
    pre: bool,
    drv: &mut Driver,
    rep: &mut Report,
) {
    let mut padded = input.to_vec();
    if !padded.is_empty() && padded.last() != Some(&b'\n') {
        padded.push(b'\n');
    }
    for _ in 0..50 {
        padded.extend_from_slice(b"zz\n");
    }
    let mut printer = StandardBuilder::new().replacement(Some(tmpl.to_vec())).build_no_color(vec![]);
    let mut searcher = SearcherBuilder::new()
        .multi_line(true)
        .line_number(pre)
        .line_terminator(if crlf { grep_matcher::LineTerminator::crlf() } else { grep_matcher::LineTerminator::byte(b'\n') })
        .build();
    let mut blocks: Vec<L3Block> = vec![];
    let searched = std::panic::catch_unwind(std::panic::AssertUnwindSafe(|| {
        let tee = L3Tee { inner: printer.sink(matcher), blocks: &mut blocks };
        searcher.search_slice(matcher, &padded, tee)
    }));
    let panicked = searched.is_err();
    if let Ok(Err(_)) = searched {
        return;
    }
    let out = printer.into_inner().into_inner();
    rep.branch("l3:shadow-padded");
    // reported under the original case line: replaying it runs this shadow search again
    l3_model_check(case, matcher, tmpl, &padded, crlf, true, &blocks, &out, panicked, None, drv, rep);
}

/// The l3 search repeated under one of six printer configurations the spec check does not use (the replaced block
/// printed with a path, `--column`, `-b`, `-o`, `--vimgrep`), printer vs `ReplaceMulti.printReplacedBlock` only.
#[allow(clippy::too_many_arguments)]
fn l3_option_variant(
    case: &str,
    matcher: &grep_regex::RegexMatcher,
    tmpl: &[u8],
    input: &[u8],
    crlf: bool,
    pre: bool,
    drv: &mut Driver,
    rep: &mut Report,
) {
    // (path, column, byte offset, only matching, per match)
    let (path, col, boff, only, vim) = match (fnv(case.as_bytes()) / 4) % 6 {
        0 => (false, true, false, false, false),
        1 => (false, false, true, false, false),
        2 => (true, true, true, false, false),
        3 => (false, false, false, true, false),
        4 => (false, true, false, false, true),
        _ => (true, false, true, true, false),
    };
    let mut b = StandardBuilder::new();
    b.replacement(Some(tmpl.to_vec())).column(col).byte_offset(boff).only_matching(only).per_match(vim).per_match_one_line(vim).path(path);
    let mut printer = b.build_no_color(vec![]);
    let mut searcher = SearcherBuilder::new()
        .multi_line(true)
        .line_number(pre)
        .line_terminator(if crlf { grep_matcher::LineTerminator::crlf() } else { grep_matcher::LineTerminator::byte(b'\n') })
        .build();
    let mut blocks: Vec<L3Block> = vec![];
    let searched = std::panic::catch_unwind(std::panic::AssertUnwindSafe(|| {
        if path {
            let tee = L3Tee { inner: printer.sink_with_path(matcher, "p/q"), blocks: &mut blocks };
            searcher.search_slice(matcher, input, tee)
        } else {
            let tee = L3Tee { inner: printer.sink(matcher), blocks: &mut blocks };
            searcher.search_slice(matcher, input, tee)
        }
    }));
    let panicked = searched.is_err();
    if let Ok(Err(_)) = searched {
        return;
    }
    let out = printer.into_inner().into_inner();
    rep.branch(match (only, vim) {
        (true, _) => "l3:variant-only-matching",
        (_, true) => "l3:variant-vimgrep",
        _ => "l3:variant-coordinates",
    });
    let std = format!(
        "(std (stats 0) (heading 0) (path {}) (only {}) (pm {}) (pm1 {}) (max ~) (col {}) (boff {}) (ssearch ~) (sctx 2d2d) (sfm 3a) (sfc 2d) (pterm ~))",
        if path { hex(b"p/q") } else { "~".to_string() },
        only as u8,
        vim as u8,
        vim as u8,
        col as u8,
        boff as u8
    );
    l3_model_check(case, matcher, tmpl, input, crlf, true, &blocks, &out, panicked, Some(&std), drv, rep);
}

// ---------------------------------------------------------------- L2c: context lines, inverted searches, passthru

fn l2c_case(rng: &mut Rng, malformed: bool) -> String {
    let mut ng = 0;
    let pat = gen_pattern(rng, 3, &mut ng);
    let tmpl = gen_template(rng, malformed);
    let crlf = rng.chance(1, 4);
    // more lines than l2, so that context windows, gaps between groups and adjacency all occur
    let mut input = vec![];
    for _ in 0..rng.range(1, 3) {
        input.extend(gen_input(rng, crlf));
        if input.last() != Some(&b'\n') && !input.is_empty() {
            input.push(b'\n');
        }
    }
    if rng.chance(1, 4) && input.last() == Some(&b'\n') {
        input.pop();
        if input.last() == Some(&b'\r') {
            input.pop();
        }
    }
    let invert = rng.chance(1, 2);
    let passthru = rng.chance(1, 5);
    let (b, a) = if passthru { (0, 0) } else { (rng.below(3), rng.below(3)) };
    format!(
        "l2c {} {} {} crlf={} o={} pm={} pre={} v={} B={} A={} pt={}",
        hex(pat.as_bytes()),
        hex(&tmpl),
        hex(&input),
        crlf as u8,
        rng.chance(1, 5) as u8,
        rng.chance(1, 5) as u8,
        rng.chance(1, 2) as u8,
        invert as u8,
        b,
        a,
        passthru as u8
    )
}

fn l4_case(rng: &mut Rng) -> String {
    // valid UTF-8 templates only (the flag's value must be): draw until one is
    let base = loop {
        let c = l2c_case(rng, false);
        let t = c.split(' ').nth(2).and_then(unhex).unwrap_or_default();
        if std::str::from_utf8(&t).is_ok() {
            break c;
        }
    };
    format!("l4{} n={} col={} mm={}", &base[3..], rng.chance(1, 2) as u8, rng.chance(1, 2) as u8, rng.chance(1, 2) as u8)
}

/// remove `ESC [ … m` sequences
fn strip_ansi(v: &[u8]) -> Vec<u8> {
    let mut r = Vec::with_capacity(v.len());
    let mut i = 0;
    while i < v.len() {
        if v[i] == 0x1b && v.get(i + 1) == Some(&b'[') {
            let mut j = i + 2;
            while j < v.len() && v[j] != b'm' {
                j += 1;
            }
            i = j + 1;
        } else {
            r.push(v[i]);
            i += 1;
        }
    }
    r
}

/// prelude with the field separator of the record's kind (`:` match, `-` context)
fn prelude_sep(on: (bool, bool), ln: usize, col: Option<usize>, sep: char) -> Vec<u8> {
    let (ln_on, col_on) = on;
    let mut v = vec![];
    if ln_on {
        v.extend(format!("{}{}", ln, sep).into_bytes());
    }
    if col_on {
        if let Some(c) = col {
            v.extend(format!("{}{}", c, sep).into_bytes());
        }
    }
    v
}

/// `l2c`: the library printer behind the library searcher. `l4` (same fields plus `n= col= mm=`): the real `rg`
/// binary with the corresponding flags on a file — the wiring from flags to searcher/printer configuration
/// (crates/core/flags/hiargs.rs) is then part of what is compared.
fn run_l2c(case: &str, parts: &[&str], drv: &mut Driver, rep: &mut Report, cli: Option<(&std::path::Path, &std::path::Path)>) {
    let want = if cli.is_some() { 15 } else { 12 };
    if parts.len() != want {
        rep.notes.push(format!("unparsable case: {}", case));
        return;
    }
    let tag = if cli.is_some() { "l4" } else { "l2c" };
    let field = |i: usize, k: &str| -> Option<usize> { parts[i].strip_prefix(k)?.parse().ok() };
    let (pat, tmpl, input) = match (unhex(parts[1]).and_then(|p| String::from_utf8(p).ok()), unhex(parts[2]), unhex(parts[3])) {
        (Some(p), Some(t), Some(i)) => (p, t, i),
        _ => {
            rep.notes.push(format!("unparsable case: {}", case));
            return;
        }
    };
    let (crlf, only, per_match, pre, invert, before, after, passthru) = match (
        field(4, "crlf="),
        field(5, "o="),
        field(6, "pm="),
        field(7, "pre="),
        field(8, "v="),
        field(9, "B="),
        field(10, "A="),
        field(11, "pt="),
    ) {
        (Some(c), Some(o), Some(pm), Some(pr), Some(v), Some(b), Some(a), Some(pt)) => {
            (c == 1, o == 1, pm == 1, pr == 1, v == 1, b, a, pt == 1)
        }
        _ => {
            rep.notes.push(format!("unparsable case: {}", case));
            return;
        }
    };
    // which prelude fields are on: l2c ties both to `pre`; l4 has `-n/-N` and `--column` separately (and
    // `--vimgrep` = per-match records with both)
    let (ln_on, col_on, mmap) = if cli.is_some() {
        match (field(12, "n="), field(13, "col="), field(14, "mm=")) {
            (Some(n), Some(c), Some(m)) => (n == 1, c == 1, m == 1),
            _ => {
                rep.notes.push(format!("unparsable case: {}", case));
                return;
            }
        }
    } else {
        (pre, pre, false)
    };
    let on = (ln_on, col_on);
    rep.eval();
    let matcher = match RegexMatcherBuilder::new().multi_line(true).crlf(crlf).build(&pat) {
        Ok(m) => m,
        Err(_) => {
            rep.branch("l2c:pattern-rejected");
            return;
        }
    };
    let re = match regex::bytes::RegexBuilder::new(&pat).multi_line(true).crlf(crlf).build() {
        Ok(r) => r,
        Err(_) => {
            rep.branch("l2c:regex-rejected");
            return;
        }
    };
    let mut printer = StandardBuilder::new()
        .replacement(Some(tmpl.clone()))
        .only_matching(only)
        .per_match(per_match)
        .column(col_on)
        .build_no_color(vec![]);
    let mut sb = SearcherBuilder::new();
    sb.line_number(ln_on).invert_match(invert).line_terminator(if crlf {
        grep_matcher::LineTerminator::crlf()
    } else {
        grep_matcher::LineTerminator::byte(b'\n')
    });
    if passthru {
        sb.passthru(true);
    } else {
        sb.before_context(before).after_context(after);
    }
    let mut searcher = sb.build();
    let out = if let Some((rg, scratch)) = cli {
        // the real binary: flags -> LowArgs -> HiArgs -> searcher/printer builders
        let tmpl_str = match std::str::from_utf8(&tmpl) {
            Ok(t) if !t.contains('\0') => t.to_string(),
            _ => {
                rep.branch("l4:template-not-passable-as-argument");
                return;
            }
        };
        let _ = std::fs::create_dir_all(scratch);
        let f = scratch.join("l4-input");
        if std::fs::write(&f, &input).is_err() {
            rep.notes.push("l4: cannot write the scratch file".into());
            return;
        }
        let mut cmd = std::process::Command::new(rg);
        cmd.arg("--no-config").arg("--color=never").arg("--no-heading").arg("-j1");
        if per_match {
            cmd.arg("--vimgrep");
        }
        cmd.arg(if ln_on { "-n" } else { "-N" });
        cmd.arg(if col_on { "--column" } else { "--no-column" });
        cmd.arg("--no-filename");
        if only {
            cmd.arg("-o");
        }
        if crlf {
            cmd.arg("--crlf");
        }
        if invert {
            cmd.arg("-v");
        }
        if passthru {
            cmd.arg("--passthru");
        } else {
            if before > 0 {
                cmd.arg(format!("-B{}", before));
            }
            if after > 0 {
                cmd.arg(format!("-A{}", after));
            }
        }
        cmd.arg(if mmap { "--mmap" } else { "--no-mmap" });
        cmd.arg(format!("--replace={}", tmpl_str)).arg("-e").arg(&pat).arg(&f);
        let o = match cmd.output() {
            Ok(o) => o,
            Err(e) => {
                rep.notes.push(format!("l4: cannot run rg: {}", e));
                return;
            }
        };
        match o.status.code() {
            Some(0) | Some(1) => {}
            _ => {
                // rg refused what the library accepted (or failed): counted, shown in the evidence, not compared
                rep.branch("l4:rg-exit-2");
                return;
            }
        }
        rep.branch(if mmap { "l4:mmap" } else { "l4:no-mmap" });
        o.stdout
    } else {
        if searcher.search_slice(&matcher, &input, printer.sink(&matcher)).is_err() {
            rep.branch("l2c:search-error");
            return;
        }
        printer.into_inner().into_inner()
    };
    // the colour paths (write_colored_line / write_colored_matches, which cut the terminator off and write it back)
    // are not modelled; they are held to the plain output by a relation: with colours on, the output with the
    // escape sequences removed is the plain output
    if cli.is_none() {
        let mut cprinter = StandardBuilder::new()
            .replacement(Some(tmpl.clone()))
            .only_matching(only)
            .per_match(per_match)
            .column(col_on)
            .color_specs(grep_printer::ColorSpecs::default_with_color())
            .build(termcolor::Ansi::new(vec![]));
        let mut csearcher = sb.build();
        if csearcher.search_slice(&matcher, &input, cprinter.sink(&matcher)).is_ok() {
            let cout = strip_ansi(&cprinter.into_inner().into_inner());
            rep.branch("l2c:colour-relation-checked");
            if cout != out {
                rep.violation(Violation {
                    kind: "impl_vs_spec".into(),
                    class: "".into(),
                    tie: "rg -r --color=always with the escape sequences removed vs --color=never".into(),
                    case: case.to_string(),
                    detail: format!(
                        "pattern {:?} template {:?} input {:?}: coloured (escapes removed) {:?}, plain {:?}",
                        pat,
                        show(&tmpl),
                        show(&input),
                        show(&cout),
                        show(&out)
                    ),
                });
            }
        }
    }

    let mut names = vec![];
    for n in NAMES.iter() {
        if let Some(i) = matcher.capture_index(n) {
            names.push((n.to_string(), i));
        }
    }
    let lt = if crlf { "crlf" } else { "lf" };
    let term_out: &[u8] = if crlf { b"\r\n" } else { b"\n" };
    // the grep model of which lines are delivered and as what (C03's business; used here as the oracle of the
    // callbacks the printer receives)
    let lines = split_lines(&input);
    let content_of = |line: &[u8]| -> usize {
        let mut n = line.len();
        if n > 0 && line[n - 1] == b'\n' {
            n -= 1;
            if crlf && n > 0 && line[n - 1] == b'\r' {
                n -= 1;
            }
        }
        n
    };
    let has_match: Vec<bool> = lines.iter().map(|l| re.is_match(&l[..content_of(l)])).collect();
    let is_matched: Vec<bool> = has_match.iter().map(|&m| m != invert).collect();
    let n = lines.len();
    let mut printed = vec![false; n];
    for i in 0..n {
        if is_matched[i] {
            printed[i] = true;
            if !passthru {
                for j in i.saturating_sub(before)..i {
                    printed[j] = true;
                }
                for j in i + 1..=(i + after).min(n.saturating_sub(1)) {
                    printed[j] = true;
                }
            }
        }
    }
    if passthru {
        printed.iter_mut().for_each(|p| *p = true);
    }
    let with_breaks = !passthru && (before > 0 || after > 0);
    let mut model_out = vec![];
    let mut spec_out = vec![];
    let mut starts = vec![0usize; n + 1];
    for i in 0..n {
        starts[i + 1] = starts[i] + lines[i].len();
    }
    let mut last_printed: Option<usize> = None;
    let (mut n_ctx_replaced, mut n_ctx_plain, mut n_matched_plain, mut n_matched_replaced) = (0, 0, 0, 0);
    for i in 0..n {
        if !printed[i] {
            continue;
        }
        if with_breaks {
            if let Some(lp) = last_printed {
                if lp + 1 < i {
                    model_out.extend_from_slice(b"--");
                    model_out.extend_from_slice(term_out);
                    spec_out.extend_from_slice(b"--");
                    spec_out.extend_from_slice(term_out);
                }
            }
        }
        last_printed = Some(i);
        let line = lines[i];
        let ln = i + 1;
        let (ls, le) = (starts[i], starts[i + 1]);
        let kind_matched = is_matched[i];
        let sep = if kind_matched { ':' } else { '-' };
        let content = &line[..content_of(line)];
        // ---- model: the printer's callback for this line
        let reply = if !kind_matched && !invert {
            n_ctx_plain += 1;
            drv.ask(&format!(
                "c19.sink {} {} {} 0 c {} {} {} {} {} (table)",
                lt, only as u8, per_match as u8, hex(&input), ls, le, hex(&tmpl), names_sx(&names)
            ))
        } else if !kind_matched {
            // context line of an inverted search: its own haystack
            n_ctx_replaced += 1;
            let e: usize = drv.ask(&format!("c19.trim {} {} 0 {}", lt, hex(line), line.len())).parse().unwrap_or(0);
            let (table, sane) = caps_sx(&matcher, &line[..e.min(line.len())], 0);
            if !sane {
                rep.branch("l2c:insane-table");
            }
            drv.ask(&format!(
                "c19.sink {} {} {} 1 c {} 0 {} {} {} {}",
                lt, only as u8, per_match as u8, hex(line), line.len(), hex(&tmpl), names_sx(&names), table
            ))
        } else {
            if invert {
                n_matched_plain += 1;
            } else {
                n_matched_replaced += 1;
            }
            let e: usize = drv.ask(&format!("c19.trim {} {} {} {}", lt, hex(&input), ls, le)).parse().unwrap_or(0);
            let (table, sane) = caps_sx(&matcher, &input[ls..e.clamp(ls, input.len())], 0);
            if !sane {
                rep.branch("l2c:insane-table");
            }
            drv.ask(&format!(
                "c19.sink {} {} {} {} m {} {} {} {} {} {}",
                lt, only as u8, per_match as u8, invert as u8, hex(&input), ls, le, hex(&tmpl), names_sx(&names), table
            ))
        };
        for rec in reply.split(' ').filter(|r| !r.is_empty()) {
            match rec.split_once(':') {
                Some((col, text)) => {
                    model_out.extend(prelude_sep(on, ln, col.parse().ok(), sep));
                    model_out.extend(unhex(text).unwrap_or_else(|| b"<bad-op>".to_vec()));
                }
                None => model_out.extend_from_slice(b"<bad-op>"),
            }
        }
        // ---- the property: every match in a printed line replaced, everything else (and every line without a
        // match) as it is
        let (dst, spans) = spec_replace(&re, content, &tmpl);
        let term_in: &[u8] = &line[content.len()..];
        let own_term: &[u8] = if term_in.is_empty() { term_out } else { term_in };
        if spans.is_empty() {
            spec_out.extend(prelude_sep(on, ln, None, sep));
            spec_out.extend_from_slice(content);
            spec_out.extend_from_slice(own_term);
        } else if only {
            for (s, e) in &spans {
                spec_out.extend(prelude_sep(on, ln, Some(s + 1), sep));
                spec_out.extend_from_slice(&dst[*s..*e]);
                if dst[*s..*e].last() != Some(&b'\n') {
                    spec_out.extend_from_slice(term_out);
                }
            }
        } else if per_match {
            for (s, _) in &spans {
                spec_out.extend(prelude_sep(on, ln, Some(s + 1), sep));
                spec_out.extend_from_slice(&dst);
                spec_out.extend_from_slice(own_term);
            }
        } else {
            spec_out.extend(prelude_sep(on, ln, spans.first().map(|x| x.0 + 1), sep));
            spec_out.extend_from_slice(&dst);
            spec_out.extend_from_slice(own_term);
        }
    }
    rep.branch(&format!("{}:{}", tag, if invert { "inverted" } else { "not-inverted" }));
    rep.branch(&format!("{}:{}", tag, if passthru { "passthru" } else if with_breaks { "context" } else { "no-context" }));
    if n_ctx_replaced > 0 {
        rep.branch("l2c:context-line-with-matches-replaced(-v)");
    }
    if n_ctx_plain > 0 {
        rep.branch("l2c:context-line-as-is");
    }
    if n_matched_plain > 0 {
        rep.branch("l2c:matched-line-of-inverted-search-as-is");
    }
    if n_matched_replaced > 0 {
        rep.branch("l2c:matched-line-replaced");
    }
    if (n_ctx_replaced > 0 || n_matched_replaced > 0) && (n_ctx_plain > 0 || n_matched_plain > 0) && !tmpl.is_empty() {
        rep.nontrivial(case);
    }
    let guard = drv.ask(&format!("c19.guard {}", hex(&tmpl)));
    if out != model_out {
        rep.violation(Violation {
            kind: "impl_vs_model".into(),
            class: "".into(),
            tie: format!("{} vs Model.Replace.sinkLine (theorems C19_line, C19_no_match_unaltered)", if cli.is_some() { "the rg binary (flags -> HiArgs -> searcher + Standard printer with --replace)" } else { "Standard printer (matched + context callbacks) with replacement" }),
            case: case.to_string(),
            detail: format!(
                "pattern {:?} template {:?} input {:?}: impl {:?} model {:?}",
                pat,
                show(&tmpl),
                show(&input),
                show(&out),
                show(&model_out)
            ),
        });
    }
    if out != spec_out {
        let class = if guard == "0" { "braced-name-outside-capletters" } else { "" };
        if !class.is_empty() {
            rep.branch(&format!("class:{}:attributed", class));
        }
        rep.violation(Violation {
            kind: "impl_vs_spec".into(),
            class: class.into(),
            tie: format!("{} -r with context / -v / --passthru vs regex replace_all of each printed line", if cli.is_some() { "rg binary" } else { "library printer" }),
            case: case.to_string(),
            detail: format!(
                "pattern {:?} template {:?} input {:?}: ripgrep prints {:?}, expected {:?}",
                pat,
                show(&tmpl),
                show(&input),
                show(&out),
                show(&spec_out)
            ),
        });
    }
    if model_out != spec_out && guard == "1" {
        rep.violation(Violation {
            kind: "model_vs_spec".into(),
            class: "".into(),
            tie: "theorems C19_line / C19_no_match_unaltered contradicted".into(),
            case: case.to_string(),
            detail: format!("model {:?} spec {:?}", show(&model_out), show(&spec_out)),
        });
    }
}

fn run_case(case: &str, drv: &mut Driver, rep: &mut Report, cli: Option<(&std::path::Path, &std::path::Path)>) {
    let parts: Vec<&str> = case.split(' ').collect();
    match parts.first().copied() {
        Some("l1") => match parse_l1(&parts) {
            Some(c) => run_l1(case, &c, drv, rep),
            None => rep.notes.push(format!("unparsable case: {}", case)),
        },
        Some("l2") => match parse_l2(&parts) {
            Some(c) => run_l2(case, &c, drv, rep),
            None => rep.notes.push(format!("unparsable case: {}", case)),
        },
        Some("l2c") => run_l2c(case, &parts, drv, rep, None),
        Some("l4") => match cli {
            Some((rg, scratch)) => run_l2c(case, &parts, drv, rep, Some((rg, scratch))),
            None => rep.branch("l4:skipped-no-rg-binary"),
        },
        Some("l3") => run_l3(case, &parts, drv, rep),
        _ => rep.notes.push(format!("unparsable case: {}", case)),
    }
}

fn main() {
    let args = parse_args();
    let mut drv = Driver::spawn(&args.driver);
    let mut rep = Report::new(
        "C19",
        "L1: random templates over the reference grammar (10% from a malformed stream) x random capture environments. \
         L2: random patterns with capture groups and look-arounds (\\b \\B ^ $ \\A \\z (?-m:^) (?-m:$)) x templates x 1-4 line \
         inputs, LF/CRLF/NUL terminators, whole line / -o / per-match, -n/--column: real Standard printer vs model vs \
         regex replace_all per line. L2c: the same behind the real searcher with -A/-B context, --passthru and -v (matched \
         and context callbacks), plus the colour relation (escapes stripped = plain). L4: the L2c cases through the real \
         rg binary (flags -> HiArgs -> builders; -n/-N, --column, --vimgrep, -o, --crlf, --mmap/--no-mmap). L3: multi-line \
         (-U) blocks incl. a padded shadow run for the 128-byte look-ahead cut and option variants (path, --column, -b, -o, \
         --vimgrep). Non-trivial: L1 expansion differs from the template; L2 input has both a matching and a \
         non-matching line; L2c/L4 has both a replaced and an unaltered printed line; L3 block spans lines. \
         Distinct by case text.",
    );
    let rg_path = args.rg.clone();
    let scratch = args.scratch.clone();
    let cli: Option<(&std::path::Path, &std::path::Path)> = rg_path.as_deref().map(|r| (r, scratch.as_path()));
    for c in corpus_cases(&args) {
        run_case(&c, &mut drv, &mut rep, cli);
    }
    if args.replay.is_none() {
        let mut rng = Rng::new(args.seed);
        let n = args.cases.unwrap_or(if args.thorough { 60000 } else { 4000 });
        for i in 0..n {
            let malformed = i % 10 == 9;
            let case = match i % 6 {
                0 | 2 => l1_case(&mut rng, malformed),
                1 => l2_case(&mut rng, malformed),
                3 => l2c_case(&mut rng, malformed),
                5 if i % 12 == 5 => l2_case(&mut rng, malformed),
                5 => l2c_case(&mut rng, malformed),
                _ => l3_case(&mut rng, malformed),
            };
            if i < 6 {
                rep.sample(case.clone());
            }
            run_case(&case, &mut drv, &mut rep, cli);
            // every 8th case also goes through the real binary: the l2c case with separate -n / --column switches
            // and a strategy switch
            if i % 8 == 3 {
                let c4 = l4_case(&mut rng);
                run_case(&c4, &mut drv, &mut rep, cli);
            }
        }
    }
    rep.write(&args);
}
