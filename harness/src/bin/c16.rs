//! C16 — stopping early or failing mid-stream yields a prefix of the full results.
//!
//! For every case the uninterrupted Sink event stream E of the real `Searcher::search_slice` is compared
//! with the Lean model's; then for EVERY callback index k of E and for both answers "stop" (`Ok(false)`)
//! and "error" the real run and the model run (`c16.model … (sink stop k | err k)`) are compared exactly,
//! and both are checked against the prefix rule: events = E[0..=k] (+ exactly one `fin` iff stop), result
//! is an error iff the sink erred. `search_reader` (small chunks), `search_path` (mmap / no mmap) and a
//! reader failing at read call j are checked against the rule relative to their own uninterrupted run.
#[path = "../searcher_common.rs"]
mod searcher_common;

use std::path::{Path, PathBuf};

use grep_matcher::Matcher;
use rgverif_harness::*;
use searcher_common::*;

const READER_CHUNKS: [usize; 4] = [2, 3, 7, 4096];

struct Ctx {
    drv: Driver,
    rep: Report,
    scratch: PathBuf,
    files: u64,
    thorough: bool,
    /// ONE pair of Searcher objects per configuration, reused by every case with that configuration and by
    /// every run of a case (state carried from one search to the next is part of "for all histories")
    searchers: std::collections::HashMap<String, Searchers>,
    heap_searchers: std::collections::HashMap<String, grep_searcher::Searcher>,
    /// the real binary (CLI stream)
    rg: Option<PathBuf>,
}

enum AnyM {
    Lit(LitMatcher),
    Re(grep_regex::RegexMatcher),
}

struct Prep {
    line: String,
    case: Case,
    m: AnyM,
    /// uninterrupted run of search_slice
    e_impl: String,
    /// the sink scripts enumerated for this case
    scripts: Vec<Script>,
    /// path, model(all), model(script) for every script
    reqs: Vec<String>,
    /// the matcher as the driver reads it (a literal matcher, or the table of a real matcher's answers on the input)
    msx: String,
}

/// The C16 rule: `r` is the run whose sink answered stop / error at callback `k`, `e` the uninterrupted run
/// of the same side. Returns a description of the breach.
fn prefix_rule(e: &str, r: &str, k: usize, is_err: bool) -> Result<(), String> {
    let (ev, est) = split_run(e);
    let (rv, rst) = split_run(r);
    if est != "ok" {
        return Err(format!("the uninterrupted run did not complete ({})", est));
    }
    let n = ev.len();
    if k >= n {
        return Err(format!("callback index {} out of range ({} events)", k, n));
    }
    let want = if is_err { "err" } else { "ok" };
    if rst != want {
        return Err(format!("result is {} but must be {}", rst, want));
    }
    if k == n - 1 {
        // the finish callback itself: everything was already delivered
        if rv != ev {
            return Err("events differ from the uninterrupted run although only finish was answered".into());
        }
        return Ok(());
    }
    let prefix = &ev[..=k];
    if rv.len() < prefix.len() || &rv[..prefix.len()] != prefix {
        return Err(format!("events are not the first {} events of the uninterrupted run", k + 1));
    }
    let rest = &rv[prefix.len()..];
    if is_err {
        if !rest.is_empty() {
            return Err(format!("{} event(s) delivered after the sink's error: {}", rest.len(), rest.join(";")));
        }
    } else {
        if rest.len() != 1 || !rest[0].starts_with("fin ") {
            return Err(format!(
                "after the stop request exactly one finish must follow, got [{}]",
                rest.join(";")
            ));
        }
    }
    Ok(())
}

/// Rule for a reader failing at a read call: a prefix of the uninterrupted events, no finish, error result
/// (an `Interrupted` failure may instead be retried, giving the complete run).
fn read_fault_rule(e: &str, r: &str, interrupted: bool) -> Result<(), String> {
    let (ev, est) = split_run(e);
    let (rv, rst) = split_run(r);
    if est != "ok" {
        return Err(format!("the uninterrupted run did not complete ({})", est));
    }
    if interrupted {
        // an interrupted read is retried: the search is the complete one
        if r == e {
            return Ok(());
        }
        return Err("an Interrupted read must be retried (the run differs from the uninterrupted one)".into());
    }
    if rst != "err" {
        return Err(format!("result is {} but the reader failed", rst));
    }
    if rv.iter().any(|x| x.starts_with("fin ")) {
        return Err("finish was signalled although the reader failed".into());
    }
    let body = &ev[..ev.len().saturating_sub(1)];
    if rv.len() > body.len() || rv[..] != body[..rv.len()] {
        return Err("events are not a prefix of the uninterrupted run".into());
    }
    Ok(())
}

fn scripts_for(case: &Case, n: usize) -> Vec<Script> {
    match case.script {
        Some(Script::All) => vec![],
        Some(s) => vec![s],
        None => (0..n).flat_map(|k| [Script::Stop(k), Script::Err(k)]).collect(),
    }
}

fn prepare(line: &str, ctx: &mut Ctx) -> Option<Prep> {
    let case = match Case::parse(line) {
        Some(c) => c,
        None => {
            ctx.rep.notes.push(format!("unparsable case: {}", line));
            return None;
        }
    };
    let cfg = &case.cfg;
    let (m, msx, head) = match &case.m {
        MatcherSpec::Lit { term, .. } => {
            let m = case.lit_matcher().unwrap();
            if term.is_some() && *term != Some(cfg.lt) {
                // malformed: refused by check_config before any callback, for every script
                ctx.rep.eval();
                ctx.rep.branch("malformed:mismatched-line-terminator");
                for sc in [Script::All, Script::Stop(0), Script::Err(0)] {
                    let imp = run_impl(cfg, &m, &case.input, sc, &Strategy::Slice, false);
                    if imp != "|err" {
                        ctx.rep.violation(Violation {
                            kind: "impl_vs_spec".into(),
                            class: "".into(),
                            tie: "Searcher::check_config: a configuration error is returned before any event".into(),
                            case: case.with_script(sc).line(),
                            detail: format!("expected |err, impl {}", imp),
                        });
                    }
                }
                return None;
            }
            let msx = m.to_sx();
            (AnyM::Lit(m), msx.clone(), msx)
        }
        MatcherSpec::Re { mode, pattern } => {
            let m = match build_regex(*mode, cfg.lt, pattern) {
                Ok(m) => m,
                Err(_) => {
                    ctx.rep.branch("re:pattern-rejected");
                    return None;
                }
            };
            let (tsx, incons) = table_sx(&m, cfg, &case.input);
            if let Some(msg) = incons {
                ctx.rep.violation(Violation {
                    kind: "impl_vs_model".into(),
                    class: "".into(),
                    tie: "RegexMatcher::is_match vs shortest_match (the model derives is_match from shortest_match)".into(),
                    case: line.to_string(),
                    detail: msg,
                });
            }
            let head = table_head_sx(&m);
            ctx.rep.branch("matcher:regex");
            (AnyM::Re(m), tsx, head)
        }
    };
    let mut s = cfg.searcher();
    let e_impl = match &m {
        AnyM::Lit(m) => run_with(&mut s, m, &case.input, Script::All, &Strategy::Slice).0,
        AnyM::Re(m) => run_with(&mut s, m, &case.input, Script::All, &Strategy::Slice).0,
    };
    let n = split_run(&e_impl).0.len();
    let scripts = scripts_for(&case, n);
    let effsx = cfg.effective().to_sx();
    let inp = hex(&case.input);
    let mut reqs = vec![
        format!("c16.path {} {}", effsx, head),
        format!("c16.model {} {} {} (sink all)", effsx, msx, inp),
    ];
    for sc in &scripts {
        reqs.push(format!("c16.model {} {} {} {}", effsx, msx, inp, sc.to_sx()));
    }
    Some(Prep { line: line.to_string(), case, m, e_impl, scripts, reqs, msx })
}

fn flush(batch: &mut Vec<Prep>, ctx: &mut Ctx) {
    if batch.is_empty() {
        return;
    }
    let reqs: Vec<String> = batch.iter().flat_map(|p| p.reqs.iter().cloned()).collect();
    let answers = ctx.drv.ask_all(&reqs);
    let mut at = 0;
    for p in batch.drain(..) {
        let a = &answers[at..at + p.reqs.len()];
        at += p.reqs.len();
        match &p.m {
            AnyM::Lit(m) => evaluate(&p, m, a, ctx),
            AnyM::Re(m) => evaluate(&p, m, a, ctx),
        }
    }
}

fn run_case(line: &str, ctx: &mut Ctx) {
    if line.starts_with("cli-maxcount ") {
        cli_maxcount_run(line, ctx);
        return;
    }
    let mut b: Vec<Prep> = prepare(line, ctx).into_iter().collect();
    flush(&mut b, ctx);
}

fn script_parts(sc: Script) -> (usize, bool) {
    match sc {
        Script::Stop(k) => (k, false),
        Script::Err(k) => (k, true),
        Script::All => (usize::MAX, false),
    }
}

fn evaluate<M: Matcher>(p: &Prep, m: &M, answers: &[String], ctx: &mut Ctx) {
    let case = &p.case;
    let cfg = &case.cfg;
    let input = &case.input[..];
    let line = &p.line[..];
    ctx.rep.eval();
    let path = &answers[0][..];
    let e_model = &answers[1][..];
    let e_impl = &p.e_impl[..];
    let (ev, est) = split_run(e_impl);
    let n = ev.len();
    let what = format!("[{} path={} input {:?}]", cfg.token(), path, show(input));

    // ---- branches
    {
        let rep = &mut ctx.rep;
        rep.branch(&format!("path:{}", path));
        rep.branch(&format!("lt:{}", cfg.lt.name()));
        if cfg.inv {
            rep.branch("inverted");
        }
        if cfg.pt {
            rep.branch("passthru");
        }
        if cfg.son {
            rep.branch("stop-on-nonmatch");
        }
        if cfg.ml {
            rep.branch(if path == "multi" { "ml:multi-line-strategy" } else { "ml:falls-back-to-line-by-line" });
        }
        if n >= 4 && ev.iter().any(|e| e.starts_with("c ") || *e == "brk") {
            rep.nontrivial(line);
        }
    }
    if !["fast", "slow", "multi"].contains(&path) {
        ctx.rep.violation(Violation {
            kind: "impl_vs_model".into(),
            class: "".into(),
            tie: "driver c16.path".into(),
            case: line.to_string(),
            detail: format!("driver answered {:?}", path),
        });
    }

    // ---- uninterrupted runs
    if e_impl != e_model {
        ctx.rep.violation(Violation {
            kind: "impl_vs_model".into(),
            class: "".into(),
            tie: "search_slice, uninterrupted: Sink event stream vs Lean model searchSlice".into(),
            case: case.with_script(Script::All).line(),
            detail: format!("{} impl {} model {}", what, e_impl, e_model),
        });
    }
    if est != "ok" || !ev.last().map_or(false, |e| e.starts_with("fin ")) || ev.first() != Some(&"begin") {
        ctx.rep.violation(Violation {
            kind: "impl_vs_spec".into(),
            class: "".into(),
            tie: "search_slice, uninterrupted: begin first, finish last, Ok result".into(),
            case: case.with_script(Script::All).line(),
            detail: format!("{} impl {}", what, e_impl),
        });
        return;
    }

    // ---- every stop / error point of search_slice: impl vs model, and the rule on both
    let key = cfg.token();
    let mut ss = ctx.searchers.remove(&key).unwrap_or_else(|| Searchers::new(cfg));
    ctx.rep.branch("searcher-object-reused-across-searches");
    for (i, &sc) in p.scripts.iter().enumerate() {
        let (k, is_err) = script_parts(sc);
        let r_model = &answers[2 + i][..];
        let r_impl = run_with(&mut ss.plain, m, input, sc, &Strategy::Slice).0;
        ctx.rep.eval();
        if k < n {
            ctx.rep.branch(&format!("{}@{}", if is_err { "err" } else { "stop" }, event_kind(ev[k])));
        } else {
            ctx.rep.branch("script-index-beyond-stream");
        }
        let cl = || case.with_script(sc).line();
        if r_impl != r_model {
            ctx.rep.violation(Violation {
                kind: "impl_vs_model".into(),
                class: "".into(),
                tie: "search_slice with a stopping/erring sink: Sink event stream vs Lean model searchSlice".into(),
                case: cl(),
                detail: format!("{} {} impl {} model {}", what, sc.token(), r_impl, r_model),
            });
        }
        if k >= n {
            // replayed script beyond the stream: the run must equal the uninterrupted one
            if r_impl != e_impl {
                ctx.rep.violation(Violation {
                    kind: "impl_vs_spec".into(),
                    class: "".into(),
                    tie: "search_slice: a script that never fires leaves the run unchanged".into(),
                    case: cl(),
                    detail: format!("{} impl {} uninterrupted {}", what, r_impl, e_impl),
                });
            }
            continue;
        }
        if let Err(why) = prefix_rule(e_impl, &r_impl, k, is_err) {
            ctx.rep.violation(Violation {
                kind: "impl_vs_spec".into(),
                class: "".into(),
                tie: "search_slice: events after stop/error at callback k = first k+1 events of the uninterrupted run (+ one finish iff stop)".into(),
                case: cl(),
                detail: format!("{} {} at `{}`: {}; run {} ; uninterrupted {}", what, sc.token(), ev[k], why, r_impl, e_impl),
            });
        }
        if !is_driver_error(e_model) && !is_driver_error(r_model) {
            // k is an index of the IMPLEMENTATION's stream; if the model's stream is shorter (only when
            // impl and model already disagree) the script never fires in the model
            let n_model = split_run(e_model).0.len();
            let verdict = if k >= n_model {
                if r_model == e_model { Ok(()) } else { Err("the script never fires but the run differs from the uninterrupted one".to_string()) }
            } else {
                prefix_rule(e_model, r_model, k, is_err)
            };
            if let Err(why) = verdict {
                ctx.rep.violation(Violation {
                    kind: "model_vs_spec".into(),
                    class: "".into(),
                    tie: "Lean model searchSlice vs the prefix rule (theorem contradicted)".into(),
                    case: cl(),
                    detail: format!("{} {}: {}; model run {} ; model uninterrupted {}", what, sc.token(), why, r_model, e_model),
                });
            }
        }
    }

    // ---- the printers' match limit (-m N): where the real Standard / JSON sink first answers stop, vs the
    //      model of its counters and the counting spec; and the stream it sees = prefix + finish
    if case.script.is_none() && cfg.bin == Bin::None {
        let kinds = kinds_str(&ev);
        let a_eff = cfg.effective().a;
        for nlim in 0..=3u64 {
            let reply = ctx.drv.ask(&format!("c16.quitindex {} {} {}", nlim, a_eff, kinds));
            let (qm, qs) = match reply.split_once('|') {
                Some(x) => x,
                None => {
                    ctx.rep.violation(Violation {
                        kind: "impl_vs_model".into(),
                        class: "".into(),
                        tie: "driver c16.quitindex".into(),
                        case: line.to_string(),
                        detail: format!("driver answered {:?}", reply),
                    });
                    break;
                }
            };
            // the Summary printer (count mode, line-oriented search only): refuses at the N-th match
            if path != "multi" {
                let reply = ctx.drv.ask(&format!("c16.summaryquit {} {}", nlim, kinds));
                let (sm, ssp) = reply.split_once('|').unwrap_or(("bad", "bad"));
                let mut pr = grep_printer::SummaryBuilder::new()
                    .kind(grep_printer::SummaryKind::Count)
                    .max_matches(Some(nlim))
                    .build_no_color(vec![]);
                let mut tap = TapSink::new(pr.sink(m));
                let res = ss.plain.search_slice(m, input, &mut tap);
                let run = format!("{}|{}", tap.rec.events.join(";"), if res.is_ok() { "ok" } else { "err" });
                let fs = tap.first_stop.map_or("-".to_string(), |k| k.to_string());
                ctx.rep.eval();
                ctx.rep.branch(&format!("maxcount:summary:{}", if tap.first_stop.is_some() { "limit-hit" } else { "limit-not-hit" }));
                if fs != sm || fs != ssp {
                    ctx.rep.violation(Violation {
                        kind: if fs != ssp { "impl_vs_spec".into() } else { "impl_vs_model".into() },
                        class: "".into(),
                        tie: "summary printer sink with max_matches N: first refused callback = the N-th match".into(),
                        case: line.to_string(),
                        detail: format!("{} N={}: impl {} model {} spec {} stream {}", what, nlim, fs, sm, ssp, kinds),
                    });
                }
                let verdict = match tap.first_stop {
                    Some(k) if k + 1 < n => prefix_rule(e_impl, &run, k, false),
                    _ => {
                        if run == *e_impl {
                            Ok(())
                        } else {
                            Err("the limit was not hit but the stream differs from the uninterrupted one".to_string())
                        }
                    }
                };
                if let Err(why) = verdict {
                    ctx.rep.violation(Violation {
                        kind: "impl_vs_spec".into(),
                        class: "".into(),
                        tie: "summary printer sink with max_matches: callbacks delivered = prefix + one finish".into(),
                        case: line.to_string(),
                        detail: format!("{} N={}: {}; run {} ; uninterrupted {}", what, nlim, why, run, e_impl),
                    });
                }
            }
            for printer in ["standard", "json"] {
                let (run, first_stop) = if printer == "standard" {
                    let mut pr = grep_printer::StandardBuilder::new().max_matches(Some(nlim)).build_no_color(vec![]);
                    let mut tap = TapSink::new(pr.sink(m));
                    let res = ss.plain.search_slice(m, input, &mut tap);
                    (format!("{}|{}", tap.rec.events.join(";"), if res.is_ok() { "ok" } else { "err" }), tap.first_stop)
                } else {
                    let mut pr = grep_printer::JSONBuilder::new().max_matches(Some(nlim)).build(vec![]);
                    let mut tap = TapSink::new(pr.sink(m));
                    let res = ss.plain.search_slice(m, input, &mut tap);
                    (format!("{}|{}", tap.rec.events.join(";"), if res.is_ok() { "ok" } else { "err" }), tap.first_stop)
                };
                ctx.rep.eval();
                ctx.rep.branch(&format!("maxcount:{}:{}", printer, if first_stop.is_some() { "limit-hit" } else { "limit-not-hit" }));
                let fs = first_stop.map_or("-".to_string(), |k| k.to_string());
                let cl = format!("{} #maxcount={} printer={}", line, nlim, printer);
                if fs != qm {
                    ctx.rep.violation(Violation {
                        kind: "impl_vs_model".into(),
                        class: "".into(),
                        tie: format!("{} printer sink with max_matches: first refused callback vs Spec/MaxCount.answers", printer),
                        case: line.to_string(),
                        detail: format!("{} {}: impl {} model {} stream {}", what, cl, fs, qm, kinds),
                    });
                }
                if fs != qs {
                    ctx.rep.violation(Violation {
                        kind: "impl_vs_spec".into(),
                        class: "".into(),
                        tie: format!("{} printer sink with max_matches N: stops at the N-th match plus A trailing lines", printer),
                        case: line.to_string(),
                        detail: format!("{} {}: impl {} spec {} stream {}", what, cl, fs, qs, kinds),
                    });
                }
                if qm != qs {
                    ctx.rep.violation(Violation {
                        kind: "model_vs_spec".into(),
                        class: "".into(),
                        tie: "theorem firstFalse_eq_quitIndex / C16_maxcount contradicted".into(),
                        case: line.to_string(),
                        detail: format!("{} N={} A={} stream {}: model {} spec {}", what, nlim, a_eff, kinds, qm, qs),
                    });
                }
                // what the printer was shown: the prefix up to the refused callback, then finish
                let verdict = match first_stop {
                    Some(k) if k + 1 < n => prefix_rule(e_impl, &run, k, false),
                    _ => {
                        if run == *e_impl {
                            Ok(())
                        } else {
                            Err("the limit was not hit but the stream differs from the uninterrupted one".to_string())
                        }
                    }
                };
                if let Err(why) = verdict {
                    ctx.rep.violation(Violation {
                        kind: "impl_vs_spec".into(),
                        class: "".into(),
                        tie: format!("{} printer sink with max_matches: callbacks delivered = prefix + one finish", printer),
                        case: line.to_string(),
                        detail: format!("{} {}: {}; run {} ; uninterrupted {}", what, cl, why, run, e_impl),
                    });
                }
            }
        }
    }

    // ---- the other strategies: the rule relative to their own uninterrupted run
    let h = fnv(line.as_bytes());
    let mut rng = Rng::new(h);
    ctx.files += 1;
    let file = scratch_file(&ctx.scratch, &format!("c16-{}.bin", ctx.files), input);
    let chunk2 = READER_CHUNKS[(h % READER_CHUNKS.len() as u64) as usize];
    let strategies: Vec<(Strategy, bool, String)> = vec![
        (Strategy::Reader(1), false, "reader1".to_string()),
        (Strategy::Reader(chunk2), false, format!("reader{}", chunk2)),
        // the same reader strategies with a 7-byte roll buffer: the buffer rolls / grows between callbacks, so a
        // stop or an error lands before, between and after refills (seeded changes C16-2-1, C02-1-1, C03-1-1)
        (Strategy::Reader(1), false, "reader1-small".to_string()),
        (Strategy::Reader(chunk2), false, format!("reader{}-small", chunk2)),
        (Strategy::Path(file.clone()), false, "path-nommap".to_string()),
        (Strategy::Path(file.clone()), true, "path-mmap".to_string()),
    ];
    for (st, mmap, name) in &strategies {
        let small = name.ends_with("-small");
        // (the small-capacity searcher is built afresh for every run: a reused one keeps the capacity its buffer has
        // grown to, and how much is read at once decides when a NUL is noticed and what an early finish counts)
        let mut fresh_small = cfg.searcher_small();
        let s = if *mmap { &mut ss.mmap } else if small { &mut fresh_small } else { &mut ss.plain };
        let e_s = run_with(s, m, input, Script::All, st).0;
        let (evs, _) = split_run(&e_s);
        let ns = evs.len();
        ctx.rep.branch(&format!("strategy:{}{}", name, if path == "multi" { ":multi" } else { "" }));
        // The reader strategy against the Lean model of search_reader (Model/ReadByLine.lean: BOM peek, roll
        // buffer, ReadByLine over Core) -- the model that theorems C16_stop_reader / C16_fault_reader /
        // C16_stop_reader_fast (Props/C16Reader.lean) speak about.  Only with a literal matcher: a table of a real
        // matcher's answers is indexed by positions of the whole input, the reader asks about windows.
        // ChunkReader(n) returns at most n bytes per call = the read script `ret n` repeated.
        let reader_model: Option<String> = match (st, &p.m) {
            (Strategy::Reader(nchunk), AnyM::Lit(_)) if input.len() <= 600 => Some(format!(
                "c16.rbl {} {} {} (script {}) {} -",
                cfg.effective().to_sx(),
                p.msx,
                hex(input),
                vec![nchunk.to_string(); input.len() + 8].join(" "),
                if small { SMALL_CAP.to_string() } else { "-".to_string() }
            )),
            // search_path without memory maps reads the file through the same decoder + roll buffer; a File returns
            // min(free space, rest of the file) per read call = the model's reader with an empty script
            (Strategy::Path(_), AnyM::Lit(_)) if !*mmap && input.len() <= 600 => Some(format!(
                "c16.rbl {} {} {} (script) - -",
                cfg.effective().to_sx(),
                p.msx,
                hex(input)
            )),
            _ => None,
        };
        if let Some(req) = &reader_model {
            let e_m = ctx.drv.ask(&format!("{} (sink all)", req));
            ctx.rep.eval();
            ctx.rep.branch(&format!("reader-model:{}:uninterrupted", if path == "multi" { "multi" } else { path }));
            if e_m != e_s {
                ctx.rep.violation(Violation {
                    kind: "impl_vs_model".into(),
                    class: "".into(),
                    tie: "search_reader, uninterrupted: Sink event stream vs Lean model searchReader (theorems C16_stop_reader*)".into(),
                    case: case.with_script(Script::All).line(),
                    detail: format!("{} strategy {} impl {} model {}", what, name, e_s, e_m),
                });
            }
        }
        let scripts: Vec<Script> = match case.script {
            Some(Script::All) => vec![],
            Some(sc) => vec![sc],
            None if ctx.thorough || cfg.bin != Bin::None => {
                (0..ns).flat_map(|k| [Script::Stop(k), Script::Err(k)]).collect()
            }
            None => {
                // a sample: two indices, both answers
                let mut v = vec![];
                if ns > 0 {
                    for _ in 0..2 {
                        let k = rng.below(ns);
                        v.push(Script::Stop(k));
                        v.push(Script::Err(k));
                    }
                }
                v
            }
        };
        for sc in scripts {
            let (k, is_err) = script_parts(sc);
            if k >= ns {
                continue;
            }
            if small {
                *s = cfg.searcher_small();
            }
            let r = run_with(s, m, input, sc, st).0;
            ctx.rep.eval();
            if let Some(req) = &reader_model {
                let r_m = ctx.drv.ask(&format!("{} {}", req, sc.to_sx()));
                ctx.rep.branch(&format!("reader-model:{}@{}", if is_err { "err" } else { "stop" }, event_kind(evs[k])));
                if r_m != r {
                    ctx.rep.violation(Violation {
                        kind: "impl_vs_model".into(),
                        class: "".into(),
                        tie: "search_reader with a stopping/erring sink: Sink event stream vs Lean model searchReader (theorems C16_stop_reader*)".into(),
                        case: case.with_script(sc).line(),
                        detail: format!("{} strategy {} {} impl {} model {}", what, name, sc.token(), r, r_m),
                    });
                }
            }
            if let Err(why) = prefix_rule(&e_s, &r, k, is_err) {
                ctx.rep.violation(Violation {
                    kind: "impl_vs_spec".into(),
                    class: "".into(),
                    tie: format!("{}: events after stop/error at callback k = first k+1 events of the uninterrupted run (+ one finish iff stop)", name),
                    case: case.with_script(sc).line(),
                    detail: format!("{} strategy {} {} at `{}`: {}; run {} ; uninterrupted {}", what, name, sc.token(), evs[k], why, r, e_s),
                });
            }
        }
    }
    std::fs::remove_file(&file).ok();

    // ---- a reader that fails at read call j (plain searcher; for the multi-line strategy also a heap-limited
    //      searcher, whose reader path fills the buffer with its own read loop)
    if case.script.is_none() {
        let mut heap = if path == "multi" {
            let limit = input.len() + 64;
            let hkey = format!("{}#{}", key, limit);
            Some((hkey.clone(), ctx.heap_searchers.remove(&hkey).unwrap_or_else(|| cfg.searcher_heap(limit))))
        } else {
            None
        };
        for chunk in [1usize, chunk2] {
            for use_heap in [false, true] {
                if use_heap && heap.is_none() {
                    continue;
                }
                let s: &mut grep_searcher::Searcher = if use_heap { &mut heap.as_mut().unwrap().1 } else { &mut ss.plain };
                let (e_r, reads) = run_with(s, m, input, Script::All, &Strategy::Reader(chunk));
                if use_heap {
                    ctx.rep.branch("multi-line-reader:heap-limited");
                    let e_plain = run_with(&mut ss.plain, m, input, Script::All, &Strategy::Reader(chunk)).0;
                    if e_r != e_plain {
                        ctx.rep.violation(Violation {
                            kind: "impl_vs_spec".into(),
                            class: "".into(),
                            tie: "multi-line search_reader with and without a (sufficient) heap limit".into(),
                            case: line.to_string(),
                            detail: format!("{} heap-limited {} unlimited {}", what, e_r, e_plain),
                        });
                    }
                }
                let s: &mut grep_searcher::Searcher = if use_heap { &mut heap.as_mut().unwrap().1 } else { &mut ss.plain };
                let js: Vec<usize> = if ctx.thorough || reads <= 4 || path == "multi" {
                    (0..reads.min(24)).collect()
                } else {
                    (0..3).map(|_| rng.below(reads)).collect()
                };
                for j in js {
                    for interrupted in [false, true] {
                        let st = Strategy::FaultReader { chunk, fail_at: j, interrupted };
                        let r = run_with(s, m, input, Script::All, &st).0;
                        ctx.rep.eval();
                        ctx.rep.branch(if interrupted { "read-fault:interrupted" } else { "read-fault:error" });
                        if let Err(why) = read_fault_rule(&e_r, &r, interrupted) {
                            ctx.rep.violation(Violation {
                                kind: "impl_vs_spec".into(),
                                class: "".into(),
                                tie: "search_reader with a reader failing at read j: a hard error leaves a prefix without finish and is returned; an Interrupted read is retried".into(),
                                case: line.to_string(),
                                detail: format!(
                                    "{} reader chunk {}{} failing at read {} ({}): {}; run {} ; uninterrupted {}",
                                    what,
                                    chunk,
                                    if use_heap { " (heap-limited searcher)" } else { "" },
                                    j,
                                    if interrupted { "Interrupted" } else { "Other" },
                                    why,
                                    r,
                                    e_r
                                ),
                            });
                        }
                    }
                }
            }
        }
        if let Some((k, s)) = heap {
            ctx.heap_searchers.insert(k, s);
        }
    }
    ctx.searchers.insert(key, ss);
}

// ---------------------------------------------------------------- generated streams

fn small_cfg(rng: &mut Rng) -> Cfg {
    let mut cfg = gen_cfg(rng, 3);
    if rng.chance(1, 3) {
        cfg.pt = false;
        if cfg.a + cfg.b == 0 {
            cfg.a = rng.range(0, 1);
            cfg.b = 1 - cfg.a;
        }
    }
    cfg
}

fn lit_case(rng: &mut Rng) -> String {
    let cfg = small_cfg(rng);
    let needle: &[u8] = if rng.chance(1, 4) { b"xy" } else { b"x" };
    let (pn, pd) = *rng.pick(&[(1usize, 4usize), (1, 3), (1, 2), (3, 4)]);
    let input = gen_lit_input(rng, cfg.lt, needle, 6, pn, pd);
    let m = gen_lit_matcher(rng, &cfg, needle);
    Case { cfg, m, input, script: None }.line()
}

/// binary detection on (quit / convert on NUL): the `binary_data` notice is one more stoppable callback
fn bin_case(rng: &mut Rng) -> String {
    let mut cfg = small_cfg(rng);
    if cfg.lt == Lt::Nul {
        cfg.lt = Lt::Lf;
    }
    // the binary byte: NUL, a letter that also occurs in ordinary lines, or a byte that is not valid UTF-8
    let bb = *rng.pick(&[0u8, 0, b'y', 0xff]);
    cfg.bin = if rng.chance(1, 2) { Bin::Quit(bb) } else { Bin::Convert(bb) };
    let needle: &[u8] = b"x";
    let mut input = gen_lit_input(rng, cfg.lt, needle, 6, 1, 2);
    // at least one such byte, at a random place (possibly inside or after a matching line)
    let at = rng.range(0, input.len());
    input.insert(at, bb);
    let m = gen_lit_matcher(rng, &cfg, needle);
    Case { cfg, m, input, script: None }.line()
}

fn boundary_case(rng: &mut Rng, i: usize) -> String {
    let mut cfg = small_cfg(rng);
    let t = cfg.lt.bytes();
    let rep = |unit: &[u8], n: usize| -> Vec<u8> { (0..n).flat_map(|_| unit.to_vec()).collect() };
    let sel_line: Vec<u8> = [b"x".as_ref(), t].concat();
    let non_line: Vec<u8> = [b"y".as_ref(), t].concat();
    let mut needle = b"x".to_vec();
    let input: Vec<u8> = match i % 9 {
        0 => vec![],
        1 => rep(t, rng.range(1, 3)),
        2 => if rng.chance(1, 2) { b"x".to_vec() } else { b"y".to_vec() },
        3 => rep(&sel_line, rng.range(1, 5)),
        4 => rep(&non_line, rng.range(1, 5)),
        5 => {
            // two groups separated by a break
            cfg.pt = false;
            cfg.inv = false;
            cfg.son = false;
            cfg.a = rng.range(0, 1);
            cfg.b = 1 - cfg.a + rng.range(0, 1);
            let mut v = sel_line.clone();
            v.extend(rep(&non_line, cfg.a + cfg.b + rng.range(0, 2)));
            v.extend_from_slice(&sel_line);
            v.extend_from_slice(&non_line);
            v
        }
        6 => {
            needle = vec![];
            gen_lit_input(rng, cfg.lt, b"x", 4, 1, 2)
        }
        7 => {
            cfg.lt = Lt::Crlf;
            let pieces: [&[u8]; 6] = [b"x\r\n", b"y\r\n", b"\r", b"x\n", b"\r\r\n", b"y\rx"];
            (0..rng.range(1, 5)).flat_map(|_| rng.pick(&pieces).to_vec()).collect()
        }
        _ => {
            let other = match cfg.lt {
                Lt::Lf => Lt::Nul,
                _ => Lt::Lf,
            };
            let input = gen_lit_input(rng, cfg.lt, &needle, 3, 1, 2);
            return Case { cfg, m: MatcherSpec::Lit { needle, term: Some(other), nm: None, cand: None }, input, script: None }.line();
        }
    };
    let m = if needle.is_empty() {
        MatcherSpec::Lit { needle, term: if rng.chance(1, 2) { Some(cfg.lt) } else { None }, nm: None, cand: None }
    } else {
        gen_lit_matcher(rng, &cfg, &needle)
    };
    Case { cfg, m, input, script: None }.line()
}

/// two or three groups of delivered lines separated by gaps wider than A+B (breaks are signalled)
fn break_case(rng: &mut Rng) -> String {
    let mut cfg = small_cfg(rng);
    cfg.pt = false;
    cfg.son = false;
    cfg.a = rng.range(0, 1);
    cfg.b = if cfg.a == 0 { 1 } else { rng.range(0, 1) };
    let t = cfg.lt.bytes();
    // under inversion the roles of the two kinds of line swap
    let (sel, non): (&[u8], &[u8]) = if cfg.inv { (b"y", b"x") } else { (b"x", b"y") };
    let mut input = vec![];
    let groups = rng.range(2, 3);
    for g in 0..groups {
        if g > 0 || rng.chance(1, 2) {
            for _ in 0..(cfg.a + cfg.b + rng.range(if g > 0 { 1 } else { 0 }, 2)) {
                input.extend_from_slice(non);
                input.extend_from_slice(t);
            }
        }
        for _ in 0..rng.range(1, 2) {
            input.extend_from_slice(sel);
            input.extend_from_slice(t);
        }
    }
    if rng.chance(1, 2) {
        input.extend_from_slice(non);
        if rng.chance(1, 2) {
            input.extend_from_slice(t);
        }
    }
    let m = gen_lit_matcher(rng, &cfg, b"x");
    Case { cfg, m, input, script: None }.line()
}

fn regex_case(rng: &mut Rng) -> String {
    let cfg = small_cfg(rng);
    let mode = if cfg.lt != Lt::Crlf && rng.chance(1, 3) { ReMode::Plain } else { ReMode::Term };
    let mut p = gen_safe_pattern(rng, 2, true);
    if cfg.lt == Lt::Lf {
        p = gen_anchored(rng, p);
    }
    let input = gen_text_input(rng, cfg.lt, 6);
    Case { cfg, m: MatcherSpec::Re { mode, pattern: p }, input, script: None }.line()
}

/// multi-line search with a literal that may contain the terminator
fn ml_lit_case(rng: &mut Rng) -> String {
    let mut cfg = small_cfg(rng);
    cfg.ml = true;
    let t = cfg.lt.byte();
    let needles: Vec<Vec<u8>> = vec![
        vec![b'x', t],
        vec![b'x', t, b'y'],
        vec![b'x'],
        vec![b'x', b'y'],
        vec![t],
        vec![t, t],
        vec![b'x', t, t],
        vec![t, b'x'],
        vec![],
    ];
    let needle = rng.pick(&needles).clone();
    // lines of x / y / xy / empty
    let n = rng.range(0, 6);
    let mut input = vec![];
    for i in 0..n {
        input.extend_from_slice(*rng.pick(&[b"x".as_ref(), b"y", b"xy", b"", b"yx", b"a"]));
        if i + 1 < n || rng.chance(3, 4) {
            if cfg.lt == Lt::Crlf && rng.chance(1, 2) {
                input.push(b'\r');
            }
            input.push(t);
        }
    }
    // mostly nothing announced (multi-line strategy); sometimes the terminator (falls back to line by line,
    // only sensible for needles without the terminator)
    let has_t = needle.contains(&t);
    let (term, nm) = if !has_t && rng.chance(1, 5) {
        if rng.chance(1, 2) {
            (Some(cfg.lt), None)
        } else {
            (None, Some(vec![t]))
        }
    } else {
        (None, None)
    };
    Case { cfg, m: MatcherSpec::Lit { needle, term, nm, cand: None }, input, script: None }.line()
}

const ML_PATTERNS: [&str; 24] = [
    "x\\n?", "x\\ny", "(?s)x.*y", "^x$", "\\z", "x", "y\\n", "[xy]+", "x\\n\\n", "(?s).+", "$", "^", "x\\n?y?",
    "(?s)x.+", "\\n", "\\n\\n", "x|\\n", "(?s)y.*?x", "\\A", "a*", "(?s)x.*", "\\n+", "^\\n", "x$\\n^y",
];

/// multi-line search with a real regex (answers of `find_at` at every position in the table)
fn ml_regex_case(rng: &mut Rng) -> String {
    let mut cfg = small_cfg(rng);
    cfg.ml = true;
    if cfg.lt == Lt::Crlf {
        cfg.lt = Lt::Lf;
    }
    let p = rng.pick(&ML_PATTERNS).to_string();
    let n = rng.range(0, 6);
    let mut input = vec![];
    for i in 0..n {
        input.extend_from_slice(*rng.pick(&[b"x".as_ref(), b"y", b"xy", b"", b"yx", b"a"]));
        if i + 1 < n || rng.chance(3, 4) {
            // under NUL the lines still contain LF now and then (the patterns speak about LF)
            input.push(if cfg.lt == Lt::Nul && rng.chance(1, 3) { b'\n' } else { cfg.lt.byte() });
        }
    }
    Case { cfg, m: MatcherSpec::Re { mode: ReMode::Plain, pattern: p }, input, script: None }.line()
}

// ---------------------------------------------------------------- the real `rg` binary with -m N

/// One output record of `rg`: a matching line, a context line (with their line numbers) or a `--` separator.
#[derive(Clone, Debug, PartialEq, Eq)]
enum Rec {
    Match(u64),
    Ctx(u64),
    Brk,
}

fn show_recs(r: &[Rec]) -> String {
    r.iter()
        .map(|x| match x {
            Rec::Match(n) => format!("m{}", n),
            Rec::Ctx(n) => format!("c{}", n),
            Rec::Brk => "--".to_string(),
        })
        .collect::<Vec<_>>()
        .join(" ")
}

/// the records of an event stream (`m ln off hex`, `c k ln off hex`, `brk`)
fn recs_of_events(evs: &[&str]) -> Vec<Rec> {
    let mut out = vec![];
    for e in evs {
        let f: Vec<&str> = e.split(' ').collect();
        if f[0] == "m" {
            out.push(Rec::Match(f[1].parse().unwrap_or(0)));
        } else if f[0] == "c" {
            out.push(Rec::Ctx(f[2].parse().unwrap_or(0)));
        } else if *e == "brk" {
            out.push(Rec::Brk);
        }
    }
    out
}

/// `-m N` through rg's own flag wiring, in every output format: a generated (needle, input, -A, -B, -v, N) is run
/// through the real binary as `rg -n`, `rg --json` and `rg --count`, and each output is compared with the limit
/// semantics of the model: the uninterrupted event stream of the Lean model cut after the callback at which
/// `Spec/MaxCount` says the printer first refuses (`c16.quitindex`: the N-th match plus its trailing context) —
/// every delivered callback is one output record; `matched_lines` of the JSON end message is the number of
/// delivered match records; `--count` is the number of matches up to the N-th (`c16.summaryquit`).
fn cli_maxcount_case(rng: &mut Rng) -> String {
    let needle = *rng.pick(&["m", "ab", "x"]);
    let other = *rng.pick(&["o", "y1", "zz z"]);
    let nl = rng.range(1, 9);
    let mut input = vec![];
    for i in 0..nl {
        let line = if rng.chance(1, 2) { format!("{}{}{}", other, needle, i) } else { format!("{}{}", other, i) };
        input.extend_from_slice(line.as_bytes());
        if i + 1 < nl || rng.chance(4, 5) {
            input.push(b'\n');
        }
    }
    let cfg = Cfg {
        lt: Lt::Lf,
        inv: rng.chance(1, 4),
        a: rng.range(0, 2),
        b: rng.range(0, 2),
        pt: false,
        ln: true,
        son: false,
        ml: false,
        bin: Bin::None,
    };
    let nlim = rng.range(1, 4) as u64;
    format!("cli-maxcount {} {} {} {}", cfg.token(), nlim, hex(needle.as_bytes()), hex(&input))
}

/// run one `cli-maxcount <cfg> <N> <needle-hex> <input-hex>` case
fn cli_maxcount_run(line: &str, ctx: &mut Ctx) {
    let p: Vec<&str> = line.split_whitespace().collect();
    let parsed = (|| {
        if p.len() != 5 {
            return None;
        }
        Some((Cfg::parse_token(p[1])?, p[2].parse::<u64>().ok()?, String::from_utf8(unhex(p[3])?).ok()?, unhex(p[4])?))
    })();
    let Some((cfg, nlim, needle_s, input)) = parsed else {
        ctx.rep.violation(Violation {
            kind: "impl_vs_model".into(),
            class: "".into(),
            tie: "harness".into(),
            case: line.to_string(),
            detail: "unparsable cli-maxcount case line".into(),
        });
        return;
    };
    let Some(rg) = ctx.rg.clone() else {
        ctx.rep.branch("cli-maxcount:skipped-no-rg-binary");
        return;
    };
    let rg: &Path = &rg;
    let needle: &str = &needle_s;
    let m = LitMatcher::new(needle.as_bytes().to_vec(), Some(Lt::Lf), None, None);
    let case = line.to_string();
    ctx.rep.eval();
    // M: the uninterrupted stream of the model, cut where the spec says the printer stops
    let e_model = ctx.drv.ask(&format!("c16.model {} {} {} (sink all)", cfg.to_sx(), m.to_sx(), hex(&input)));
    if is_driver_error(&e_model) {
        ctx.rep.violation(Violation {
            kind: "impl_vs_model".into(),
            class: "".into(),
            tie: "driver c16.model (cli stream)".into(),
            case: case.clone(),
            detail: format!("driver answered {:?}", e_model),
        });
        return;
    }
    let (evs, _) = split_run(&e_model);
    let kinds = kinds_str(&evs);
    let q = ctx.drv.ask(&format!("c16.quitindex {} {} {}", nlim, cfg.a, kinds));
    let sq = ctx.drv.ask(&format!("c16.summaryquit {} {}", nlim, kinds));
    let cut = |reply: &str| -> Option<usize> {
        let spec = reply.split_once('|').map(|x| x.1)?;
        if spec == "-" {
            Some(evs.len())
        } else {
            spec.parse::<usize>().ok().map(|k| k + 1)
        }
    };
    let (Some(qcut), Some(scut)) = (cut(&q), cut(&sq)) else {
        ctx.rep.violation(Violation {
            kind: "impl_vs_model".into(),
            class: "".into(),
            tie: "driver c16.quitindex / c16.summaryquit (cli stream)".into(),
            case: case.clone(),
            detail: format!("driver answered {:?} / {:?}", q, sq),
        });
        return;
    };
    let want = recs_of_events(&evs[..qcut.min(evs.len())]);
    let want_matched = want.iter().filter(|r| matches!(r, Rec::Match(_))).count() as u64;
    let want_count = evs[..scut.min(evs.len())].iter().filter(|e| e.starts_with("m ")).count() as u64;
    ctx.rep.branch(if qcut < evs.len() { "cli-maxcount:limit-hit" } else { "cli-maxcount:limit-not-hit" });
    if want.iter().any(|r| matches!(r, Rec::Ctx(_))) {
        ctx.rep.nontrivial(&case);
    }

    ctx.files += 1;
    let f = scratch_file(&ctx.scratch, &format!("c16-cli-{}.txt", ctx.files % 16), &input);
    let access = (input.len() + nlim as usize + cfg.a + 2 * cfg.b) % 3;
    ctx.rep.branch(["cli-maxcount:mmap", "cli-maxcount:no-mmap", "cli-maxcount:stdin"][access]);
    let run = |extra: &[&str]| -> (String, i32) {
        let mut c = std::process::Command::new(rg);
        c.env_remove("RIPGREP_CONFIG_PATH").arg("--no-config").arg("--color").arg("never").arg("-j1").arg("-F");
        c.arg("-m").arg(nlim.to_string());
        if cfg.a > 0 {
            c.arg("-A").arg(cfg.a.to_string());
        }
        if cfg.b > 0 {
            c.arg("-B").arg(cfg.b.to_string());
        }
        if cfg.inv {
            c.arg("-v");
        }
        for x in extra {
            c.arg(x);
        }
        c.arg("-e").arg(needle);
        // how the file reaches the searcher: memory map (slice strategy), read (reader strategy), or standard input
        match access {
            0 => {
                c.arg("--mmap").arg(&f).stdin(std::process::Stdio::null());
            }
            1 => {
                c.arg("--no-mmap").arg(&f).stdin(std::process::Stdio::null());
            }
            _ => {
                c.arg("-").stdin(std::fs::File::open(&f).map(std::process::Stdio::from).unwrap_or(std::process::Stdio::null()));
            }
        }
        match c.output() {
            Ok(o) => (String::from_utf8_lossy(&o.stdout).to_string(), o.status.code().unwrap_or(-1)),
            Err(e) => (format!("spawn failed: {}", e), -2),
        }
    };
    let file = |tie: &str, detail: String, ctx: &mut Ctx| {
        ctx.rep.violation(Violation { kind: "impl_vs_spec".into(), class: "".into(), tie: tie.to_string(), case: case.clone(), detail });
    };
    // 1. standard printer: `N:text`, `N-text`, `--`
    let (out, code) = run(&["-n"]);
    let mut got = vec![];
    let mut bad = code < 0 || code > 1;
    for l in out.lines() {
        if l == "--" {
            got.push(Rec::Brk);
            continue;
        }
        let digits: String = l.chars().take_while(|c| c.is_ascii_digit()).collect();
        match (digits.parse::<u64>(), l[digits.len()..].chars().next()) {
            (Ok(n), Some(':')) => got.push(Rec::Match(n)),
            (Ok(n), Some('-')) => got.push(Rec::Ctx(n)),
            _ => bad = true,
        }
    }
    if bad || got != want {
        file(
            "rg -n -m N [-A -B -v]: the lines printed = the model's callbacks up to the one at which the limit rule stops (N-th match + trailing context)",
            format!("exit {} printed [{}] expected [{}] (stream {})", code, show_recs(&got), show_recs(&want), kinds),
            ctx,
        );
    }
    // 2. JSON printer: match / context records (no separators), matched_lines in the end message
    let (out, code) = run(&["--json"]);
    let mut got = vec![];
    let mut matched_lines = 0u64;
    let mut bad = code < 0 || code > 1;
    for l in out.lines() {
        match serde_json::from_str::<serde_json::Value>(l) {
            Ok(v) => {
                let ln = v["data"]["line_number"].as_u64().unwrap_or(0);
                match v["type"].as_str() {
                    Some("match") => got.push(Rec::Match(ln)),
                    Some("context") => got.push(Rec::Ctx(ln)),
                    Some("end") => matched_lines = v["data"]["stats"]["matched_lines"].as_u64().unwrap_or(u64::MAX),
                    _ => {}
                }
            }
            Err(_) => bad = true,
        }
    }
    let want_json: Vec<Rec> = want.iter().filter(|r| **r != Rec::Brk).cloned().collect();
    if bad || got != want_json || matched_lines != want_matched {
        file(
            "rg --json -m N [-A -B -v]: match / context records and matched_lines = the model's callbacks up to the limit rule's stop",
            format!(
                "exit {} records [{}] matched_lines {} expected [{}] matched_lines {} (stream {})",
                code,
                show_recs(&got),
                matched_lines,
                show_recs(&want_json),
                want_matched,
                kinds
            ),
            ctx,
        );
    }
    // 3. summary printer: --count stops counting at the N-th match
    let (out, code) = run(&["--count"]);
    let got_count = if out.trim().is_empty() { Some(0) } else { out.trim().parse::<u64>().ok() };
    if code < 0 || code > 1 || got_count != Some(want_count) {
        file(
            "rg --count -m N [-v]: the count = min(N, matching lines)",
            format!("exit {} printed {:?} expected {} (stream {})", code, out.trim(), want_count, kinds),
            ctx,
        );
    }
}

fn main() {
    let args = parse_args();
    let drv = Driver::spawn(&args.driver);
    let rep = Report::new(
        "C16",
        "Cases: small inputs (<= 6 lines) for the line-oriented strategies (literal matcher with controlled selection, boundary \
         stream, real RegexMatcher over safe patterns) and multi-line cases (literal containing the terminator; real multi-line \
         regexes through a find_at table). For each case EVERY callback index k of the uninterrupted search_slice run is \
         enumerated with both answers (stop, error): impl vs Lean model exactly, and the prefix rule on both sides; \
         search_reader (1-byte and small chunks) with a literal matcher is compared with the Lean model of the reader strategy (c16.rbl: BOM peek, roll buffer, ReadByLine) for the uninterrupted run and each enumerated index; search_reader (1-byte and small chunks), search_path (mmap / no mmap) are checked against the rule relative to their own \
         uninterrupted run (sampled k in the quick tier, all k in the thorough tier), and a reader failing at read call j \
         (Other / Interrupted) must leave a prefix without finish and an error. The byte count of a finish after an early stop \
         is not compared by the rule (only its presence). CLI stream: the real rg binary with -m N [-A -B -v] on generated files, as \
         rg -n, rg --json and rg --count, each compared with the model's stream cut by the limit rule of Spec/MaxCount. Non-trivial = the uninterrupted run has >= 4 events including a \
         context line or a break. Distinct by case text.",
    );
    let mut ctx = Ctx {
        drv,
        rep,
        scratch: args.scratch.clone(),
        files: 0,
        thorough: args.thorough,
        searchers: Default::default(),
        heap_searchers: Default::default(),
        rg: args.rg.clone(),
    };
    for c in corpus_cases(&args) {
        run_case(&c, &mut ctx);
    }
    if args.replay.is_none() {
        let mut rng = Rng::new(args.seed);
        let n = args.cases.unwrap_or(if args.thorough { 60000 } else { 10000 });
        let mut batch: Vec<Prep> = vec![];
        for i in 0..n {
            let case = match i % 10 {
                0 => boundary_case(&mut rng, i / 10),
                1 | 6 => regex_case(&mut rng),
                2 | 7 => ml_lit_case(&mut rng),
                3 | 8 => ml_regex_case(&mut rng),
                4 => break_case(&mut rng),
                5 => bin_case(&mut rng),
                _ => lit_case(&mut rng),
            };
            if i < 10 {
                ctx.rep.sample(case.clone());
            }
            if let Some(p) = prepare(&case, &mut ctx) {
                batch.push(p);
            }
            if batch.len() >= 16 {
                flush(&mut batch, &mut ctx);
            }
        }
        flush(&mut batch, &mut ctx);
        // the real binary: -m N through rg's flag wiring, standard / JSON / count output
        if let Some(rg) = args.rg.clone() {
            let ncli = if args.thorough { 2500 } else { 400 };
            let _ = rg;
            for _ in 0..ncli {
                let c = cli_maxcount_case(&mut rng);
                cli_maxcount_run(&c, &mut ctx);
            }
        }
    }
    ctx.rep.write(&args);
}
