//! C13 — multi-line search reports exactly the lines covered by the pattern's matches.
//!
//! Real `RegexMatcher` built the way `hiargs.rs::matcher_rust` builds it under `-U` (no line terminator, so the
//! pattern may match `\n`), real `Searcher` with `multi_line(true)`.
//!   impl vs model : Sink event stream of `search_slice` vs Lean model (`c13.model`: `MultiLine::run`; the matcher's
//!                   `find_at(input, pos)` for every `pos` enters as a table)
//!   impl vs spec  : vs the multi-line model `Spec/MultiLine.lean` (`c13.spec`: successive matches over the whole
//!                   input, mapped to lines, merged; inversion = the other lines; context by the grep model)
//!   model vs spec : under the guard of the theorems
//! plus reader / path strategies vs the slice strategy.
//! Known-finding class: `ml-invert-resumes-at-line-end` (inversion is not the complement when a match starts
//! inside the last line of the previous match).
#[path = "../searcher_common.rs"]
mod searcher_common;

use std::path::PathBuf;

use grep_matcher::Matcher;
use grep_regex::{RegexMatcher, RegexMatcherBuilder};
use rgverif_harness::*;
use searcher_common::*;

#[derive(Clone, Debug)]
enum Pat {
    Re { dotall: bool, pattern: String },
    Lit { needle: Vec<u8> },
}

#[derive(Clone, Debug)]
struct C13 {
    cfg: Cfg,
    pat: Pat,
    input: Vec<u8>,
}

impl C13 {
    fn line(&self) -> String {
        match &self.pat {
            Pat::Re { dotall, pattern } => {
                format!("ml {} s{} {} {}", self.cfg.token(), *dotall as u8, hex(pattern.as_bytes()), hex(&self.input))
            }
            Pat::Lit { needle } => format!("mllit {} {} {}", self.cfg.token(), hex(needle), hex(&self.input)),
        }
    }
    fn parse(s: &str) -> Option<C13> {
        let p: Vec<&str> = s.split_whitespace().collect();
        match p.first().copied() {
            Some("ml") if p.len() == 5 => Some(C13 {
                cfg: Cfg::parse_token(p[1])?,
                pat: Pat::Re { dotall: p[2] == "s1", pattern: String::from_utf8(unhex(p[3])?).ok()? },
                input: unhex(p[4])?,
            }),
            Some("mllit") if p.len() == 4 => {
                Some(C13 { cfg: Cfg::parse_token(p[1])?, pat: Pat::Lit { needle: unhex(p[2])? }, input: unhex(p[3])? })
            }
            _ => None,
        }
    }
}

/// `hiargs.rs::matcher_rust` under `-U`.
fn build_ml(cfg: &Cfg, dotall: bool, pattern: &str) -> Result<RegexMatcher, String> {
    let mut b = RegexMatcherBuilder::new();
    b.multi_line(true).unicode(true).octal(false);
    b.dot_matches_new_line(dotall);
    if cfg.lt == Lt::Crlf {
        b.crlf(true).line_terminator(None);
    }
    b.build(pattern).map_err(|e| e.to_string())
}

fn gen_pat(rng: &mut Rng, depth: usize) -> String {
    if depth == 0 {
        return ["a", "b", "x", "\\n", "\\n", "^", "$", "\\b", "\\B", "\\A", ".", "[ab]", "\\s", "", "\\r?\\n", "x\\n?", "\\z"]
            [rng.below(17)]
        .to_string();
    }
    match rng.below(8) {
        0 => gen_pat(rng, 0),
        1 | 2 | 3 => format!("{}{}", gen_pat(rng, depth - 1), gen_pat(rng, depth - 1)),
        4 => format!("(?:{}|{})", gen_pat(rng, depth - 1), gen_pat(rng, depth - 1)),
        5 => format!("(?:{})*", gen_pat(rng, depth - 1)),
        6 => format!("(?:{})?", gen_pat(rng, depth - 1)),
        _ => format!("(?:{})+", gen_pat(rng, depth - 1)),
    }
}

/// patterns for NUL-terminated records (the pattern must be able to match NUL, else the search is downgraded)
const FIXED_NUL: [&str; 10] = [
    "a\\x00",
    "b\\x00c",
    "\\x00",
    "(?s)a.*b",
    "x\\x00?",
    "[ab]\\x00",
    "c\\x00\\x00",
    "^b|a\\x00",
    "\\x00a|b\\x00",
    "(?s)b.c",
];

const FIXED: [&str; 28] = [
    // case folding, byte classes, invalid UTF-8 next to the terminator
    "(?i)A\\nB",
    "(?-u:\\xff)\\n",
    "(?i:X)*\\n",
    "(?-u:[^a])\\n(?-u:.)",
    "\\n\\pL",
    "(?i)\u{e9}\\n",
    // an empty match on a line, then a non-empty match later on the same line that crosses the terminator
    "^\\b|b\\nc",
    "^|b\\nc",
    "\\b|a\\nb",
    "x*\\b|c\\na",
    "^|a\\n",
    "(?:^\\b)|b \\n",
    "\\b|b\\n,",
    "^|c\\nb|b\\nc",
    "$|b\\nc",
    "\\B|a\\nb",
    "\\Ab|a\\n",
    "a\\nb|b\\nc",
    "x\\n?",
    "(?s)a.*b",
    "^b",
    "a$",
    "\\n\\n",
    "a\\n(?:b\\n)*",
    "\\bx\\b",
    "^$",
    "b\\nc|a\\nb",
    "(?s)x.y",
];

fn gen_input(rng: &mut Rng, lt: Lt) -> Vec<u8> {
    let n = rng.range(0, 6);
    let mut out = vec![];
    // records of NUL data also contain the other terminator byte (LF), CRLF lines a lone CR now and then
    let alpha: &[u8] = match lt {
        Lt::Nul => b"aabbxc \n\n",
        Lt::Crlf => b"aabbxc \r",
        Lt::Lf => b"aabbxc ,",
    };
    // now and then bytes that are not ASCII: invalid UTF-8 and a two-byte letter
    let extra: [&[u8]; 4] = [b"\xff", "\u{e9}".as_bytes(), "\u{c9}".as_bytes(), b"\x80"];
    for i in 0..n {
        for _ in 0..rng.range(0, 3) {
            if rng.chance(1, 12) {
                let e: &[u8] = *rng.pick(&extra[..]);
                out.extend_from_slice(e);
            } else {
                out.push(*rng.pick(alpha));
            }
        }
        if i + 1 < n || rng.chance(3, 4) {
            match lt {
                Lt::Nul => out.push(0),
                Lt::Crlf => {
                    if rng.chance(3, 4) {
                        out.push(b'\r');
                    }
                    out.push(b'\n');
                }
                _ => out.push(b'\n'),
            }
        }
    }
    out
}

fn gen_case(rng: &mut Rng) -> C13 {
    let lt = *rng.pick(&[Lt::Lf, Lt::Lf, Lt::Lf, Lt::Crlf, Lt::Nul]);
    let noctx = rng.chance(1, 3);
    let cfg = Cfg {
        lt,
        inv: rng.chance(1, 4),
        a: if noctx { 0 } else { gen_ctx(rng, 3) },
        b: if noctx { 0 } else { gen_ctx(rng, 3) },
        pt: !noctx && rng.chance(1, 6),
        ln: rng.chance(3, 4),
        // stop_on_nonmatch plays no role in multi-line search (and is honoured when the search is downgraded)
        son: rng.chance(1, 6),
        ml: true,
        bin: if rng.chance(1, 8) {
            let b = *rng.pick(&[if lt == Lt::Nul { b'x' } else { 0u8 }, b'x', 0xff]);
            if rng.chance(1, 2) {
                Bin::Quit(b)
            } else {
                Bin::Convert(b)
            }
        } else {
            Bin::None
        },
    };
    let mut input = gen_input(rng, lt);
    if cfg.bin != Bin::None && rng.chance(1, 2) && lt != Lt::Nul {
        let at = rng.range(0, input.len());
        input.insert(at, 0);
    }
    let pat = if lt == Lt::Nul {
        match rng.below(10) {
            0 | 1 => Pat::Lit { needle: [&b"a\0b"[..], b"x\0", b"\0", b"b\0c", b"a\0"][rng.below(5)].to_vec() },
            2 | 3 | 4 | 5 | 6 => Pat::Re { dotall: rng.chance(1, 4), pattern: FIXED_NUL[rng.below(FIXED_NUL.len())].to_string() },
            _ => Pat::Re { dotall: rng.chance(1, 4), pattern: format!("{}\\x00{}", gen_pat(rng, 1), gen_pat(rng, 1)) },
        }
    } else {
        match rng.below(10) {
            0 => Pat::Lit { needle: [&b"a\nb"[..], b"x\n", b"\n", b"b\nc", b"a"][rng.below(5)].to_vec() },
            1 | 2 | 3 | 4 => Pat::Re { dotall: rng.chance(1, 4), pattern: FIXED[rng.below(FIXED.len())].to_string() },
            _ => Pat::Re { dotall: rng.chance(1, 4), pattern: gen_pat(rng, 2) },
        }
    };
    C13 { cfg, pat, input }
}

struct Ctx {
    drv: Driver,
    rep: Report,
    scratch: PathBuf,
    files: u64,
    /// one Searcher per configuration, reused for every case and strategy (history across searches)
    searchers: std::collections::HashMap<String, grep_searcher::Searcher>,
}

fn check<M: Matcher>(line: &str, c: &C13, m: &M, msx: &str, head: &str, ctx: &mut Ctx) {
    let cfg = c.cfg.effective();
    let csx = cfg.to_sx();
    let inp = hex(&c.input);
    let path = ctx.drv.ask(&format!("c13.path {} {}", csx, head));
    let key = cfg.token();
    let mut s = ctx.searchers.remove(&key).unwrap_or_else(|| cfg.searcher());
    let imp = run_with(&mut s, m, &c.input, Script::All, &Strategy::Slice).0;
    let model = ctx.drv.ask(&format!("c13.model {} {} {} (sink all)", csx, msx, inp));
    ctx.rep.branch(&format!("path:{}", path));
    if imp != model {
        ctx.rep.violation(Violation {
            kind: "impl_vs_model".into(),
            class: "".into(),
            tie: "Sink event stream of Searcher::search_slice (multi_line) vs Lean model searchSlice / multiLine".into(),
            case: line.to_string(),
            detail: format!("{:?} on {:?}: impl {} model {}", c.pat, show(&c.input), imp, model),
        });
    }
    // other strategies must see the same events
    let mut strategies = vec![Strategy::Reader(1), Strategy::Reader(7)];
    ctx.files += 1;
    let f = scratch_file(&ctx.scratch, &format!("c13-{}.txt", ctx.files % 64), &c.input);
    strategies.push(Strategy::Path(f));
    // Once binary detection has seen its byte the strategies legitimately differ (a slice is sniffed as a whole before
    // the search, a reader notices the byte when the buffer that holds it is filled; SliceByLine reports the offset of
    // the byte as byte count, ReadByLine the bytes consumed): C14 / C02 territory. The strategy comparison is then
    // skipped, the slice strategy is still compared with the model.
    let bin_seen = imp.contains(";bin ");
    if bin_seen {
        ctx.rep.branch("binary:strategy-comparison-skipped");
    }
    for st in &strategies {
        // a search downgraded to line-by-line is C02's subject (and shows F24 there: a line judged in buffer context
        // depends on what shares the buffer with it, hence on the strategy): compared with the model only
        if bin_seen || path != "multi" {
            break;
        }
        let other = run_with(&mut s, m, &c.input, Script::All, st).0;
        if other != imp {
            ctx.rep.violation(Violation {
                kind: "impl_vs_spec".into(),
                class: "".into(),
                tie: format!("strategy {} vs slice strategy (multi-line)", st.name()),
                case: line.to_string(),
                detail: format!("{} gives {} slice gives {}", st.name(), other, imp),
            });
        }
    }
    ctx.searchers.insert(key, s);
    if path != "multi" {
        ctx.rep.branch("downgraded-to-line-by-line");
        return;
    }
    // binary detection (C14's property) changes what is delivered once its byte occurs: such cases stop at impl = model
    let bin_byte = match cfg.bin {
        Bin::None => None,
        Bin::Quit(b) | Bin::Convert(b) => Some(b),
    };
    if let Some(b) = bin_byte {
        ctx.rep.branch("binary-detection-on");
        if c.input.contains(&b) {
            ctx.rep.branch("binary-byte-present:only-impl-vs-model");
            return;
        }
    }
    let spec = ctx.drv.ask(&format!("c13.spec {} {} {}", csx, msx, inp));
    let guard = ctx.drv.ask(&format!("c13.guard {} {} {}", csx, msx, inp));
    let matches = ctx.drv.ask(&format!("c13.matches {} {}", msx, inp));
    for r in [&spec, &guard, &matches] {
        if r.as_str() == "bad-op" || r.as_str() == "table-miss" {
            ctx.rep.violation(Violation {
                kind: "impl_vs_model".into(),
                class: "".into(),
                tie: "driver".into(),
                case: line.to_string(),
                detail: format!("driver answered {}", r),
            });
            return;
        }
    }
    let nm = if matches == "-" { 0 } else { matches.split(' ').count() };
    let empty_match = matches.split(' ').any(|x| x.split_once(':').map_or(false, |(a, b)| a == b));
    if cfg.inv {
        ctx.rep.branch("inverted");
    }
    if cfg.pt {
        ctx.rep.branch("passthru");
    }
    if cfg.a > 0 || cfg.b > 0 {
        ctx.rep.branch("context");
    }
    if empty_match {
        ctx.rep.branch("empty-match");
    }
    if guard == "0" {
        ctx.rep.branch("match-starts-inside-previous-match's-last-line");
    }
    let (evs, _) = split_run(&imp);
    let blocks = evs.iter().filter(|e| e.starts_with("m ")).count();
    let multi_line_block = evs.iter().any(|e| {
        e.starts_with("m ") && {
            let f: Vec<&str> = e.split(' ').collect();
            unhex(f[3]).map_or(false, |b| b.iter().filter(|&&x| x == b'\n').count() >= 2)
        }
    });
    if multi_line_block {
        ctx.rep.branch("block-spans-lines");
    }
    if nm >= 2 && blocks >= 1 && multi_line_block {
        ctx.rep.nontrivial(line);
    }
    let len = c.input.len();
    let final_empty = matches.split(' ').last().map_or(false, |x| x == format!("{}:{}", len, len))
        && c.input.last() == Some(&cfg.lt.byte());
    if final_empty {
        ctx.rep.branch("empty-match-after-last-terminator");
    }
    // Class F19 `ml-invert-resumes-at-line-end` is attributed only when its mechanism is at work in this very case:
    //   * the search is inverted and the searcher delivers exactly what the inverted scan delivers (`mlSpecInv`);
    //   * S = the line ranges of the matches of the specification's iteration, F = the line ranges the inverted scan
    //     finds; they agree up to an index k >= 1 and differ at k, where S has a match M that starts inside the LAST
    //     line of the range R = F[k-1] the scan had just found (`start of that line <= M.s < R.e`): the scan resumed
    //     at R.e and never saw M — from there on the two iterations are out of step (M's lines are reported, or a
    //     match overlapping M is found instead);
    //   * every line on which searcher and model disagree about "matched" lies at or after R.e.
    // `guard == "0"` (invertSafe false) is the coarse predicate the class used to be decided by; it is kept as a counter.
    let coarse = cfg.inv && guard == "0";
    let mut class = "";
    if cfg.inv && imp != spec {
        let specinv = ctx.drv.ask(&format!("c13.specinv {} {} {}", csx, msx, inp));
        let invr = ctx.drv.ask(&format!("c13.invranges {} {} {}", csx, msx, inp));
        let parse_spans = |t: &str| -> Vec<(usize, usize)> {
            if t == "-" {
                return vec![];
            }
            t.split(' ').filter_map(|x| x.split_once(':')).filter_map(|(a, b)| Some((a.parse().ok()?, b.parse().ok()?))).collect()
        };
        let term = cfg.lt.byte();
        let line_start = |p: usize| -> usize { c.input[..p.min(c.input.len())].iter().rposition(|&b| b == term).map_or(0, |i| i + 1) };
        // `lines::locate`
        let locate = |s: usize, e: usize| -> (usize, usize) {
            let ls = line_start(s);
            let le = if e > ls && c.input.get(e - 1) == Some(&term) {
                e
            } else {
                c.input[e.min(c.input.len())..].iter().position(|&b| b == term).map_or(c.input.len(), |i| e + i + 1)
            };
            (ls, le)
        };
        let matched = |run: &str| -> std::collections::BTreeSet<usize> {
            split_run(run).0.iter().filter(|e| e.starts_with("m ")).filter_map(|e| e.split(' ').nth(2).and_then(|x| x.parse().ok())).collect()
        };
        let (mi, ms) = (matched(&imp), matched(&spec));
        let deviating: Vec<usize> = mi.symmetric_difference(&ms).cloned().collect();
        let ms_spans = parse_spans(&matches);
        let found = parse_spans(&invr);
        let seq_s: Vec<(usize, usize)> = ms_spans.iter().map(|&(s, e)| locate(s, e)).collect();
        let k = seq_s.iter().zip(found.iter()).take_while(|(a, b)| a == b).count();
        let mechanism = k >= 1 && k < seq_s.len() && {
            let (ms_, _) = ms_spans[k];
            let (rs, re) = found[k - 1];
            rs < re && line_start(re - 1) <= ms_ && ms_ < re && !deviating.is_empty() && deviating.iter().all(|&o| o >= re)
        };
        if !is_driver_error(&specinv) && imp == specinv && mechanism {
            class = "ml-invert-resumes-at-line-end";
            ctx.rep.branch("class:ml-invert-resumes-at-line-end:attributed");
        } else if coarse {
            ctx.rep.branch("class:ml-invert-resumes-at-line-end:coarse-predicate-only-reported-unclassified");
        }
    }
    if imp != spec {
        ctx.rep.violation(Violation {
            kind: "impl_vs_spec".into(),
            class: class.into(),
            tie: "Sink event stream of the multi-line searcher vs the multi-line model (Spec/MultiLine.lean)".into(),
            case: line.to_string(),
            detail: format!("{:?} on {:?} (matches {}): impl {} spec {}", c.pat, show(&c.input), matches, imp, spec),
        });
    }
    // theorem C13_context / C13_partial: everything but inversion, for a table whose spans are sane
    let sane = ctx.drv.ask(&format!("c13.sane {} {}", msx, inp));
    if sane != "1" {
        ctx.rep.violation(Violation {
            kind: "impl_vs_model".into(),
            class: "".into(),
            tie: "matcher table violates the SpanSane contract of C13_context (spans inside the input, at or after the search position)".into(),
            case: line.to_string(),
            detail: format!("c13.sane answered {}", sane),
        });
    }
    let base_guard = cfg.bin == Bin::None && (!cfg.pt || cfg.a == 0) && sane == "1";
    let mut invsame = String::from("1");
    if cfg.inv {
        invsame = ctx.drv.ask(&format!("c13.invsame {} {} {}", csx, msx, inp));
        let specinv = ctx.drv.ask(&format!("c13.specinv {} {} {}", csx, msx, inp));
        if (invsame != "0" && invsame != "1") || is_driver_error(&specinv) {
            ctx.rep.violation(Violation {
                kind: "impl_vs_model".into(),
                class: "".into(),
                tie: "driver".into(),
                case: line.to_string(),
                detail: format!("driver answered {} / {}", invsame, specinv),
            });
            return;
        }
        // the inverted search always delivers mlSpecInv (theorem C13_inverted), finding or not
        if imp != specinv {
            ctx.rep.violation(Violation {
                kind: "impl_vs_spec".into(),
                class: "".into(),
                tie: "Sink event stream of the inverted multi-line searcher vs mlSpecInv (grep model for the lines outside the matches the inverted scan finds)".into(),
                case: line.to_string(),
                detail: format!("{:?} on {:?}: impl {} specinv {}", c.pat, show(&c.input), imp, specinv),
            });
        }
        if base_guard && !is_driver_error(&model) && model != specinv {
            ctx.rep.violation(Violation {
                kind: "model_vs_spec".into(),
                class: "".into(),
                tie: "theorem C13_inverted contradicted".into(),
                case: line.to_string(),
                detail: format!("model {} specinv {}", model, specinv),
            });
        }
        // the guard of F19 (invertSafe) and the guard of the theorem (invCoverSame): a safe scan selects the spec's lines
        if guard == "1" && invsame != "1" {
            ctx.rep.violation(Violation {
                kind: "model_vs_spec".into(),
                class: "".into(),
                tie: "invertSafe holds but the inverted scan and the specification select different lines".into(),
                case: line.to_string(),
                detail: format!("matches {}", matches),
            });
        }
        if invsame == "1" {
            ctx.rep.branch("inverted:scan-selects-spec-lines");
        }
    }
    let guarded = base_guard && (!cfg.inv || invsame == "1");
    if guarded {
        ctx.rep.branch(if cfg.inv { "guard:C13_partial(inverted)" } else { "guard:C13_partial" });
    }
    if guarded && !is_driver_error(&model) && model != spec {
        ctx.rep.violation(Violation {
            kind: "model_vs_spec".into(),
            class: "".into(),
            tie: "theorem C13_partial (C13_context) contradicted".into(),
            case: line.to_string(),
            detail: format!("model {} spec {}", model, spec),
        });
    }
}

/// `mlbom <cfg> s<d> <pattern-hex> <text-hex> <utf8|utf16le|utf16be>`: the text is stored with a byte-order mark
/// (UTF-16: transcoded), so every strategy has to decode it before the multi-line search. Each strategy's event stream
/// (slice = what a memory map is searched with, reader, path) must be the model's stream for the DECODED text.
fn run_bom_case(line: &str, ctx: &mut Ctx) {
    let p: Vec<&str> = line.split_whitespace().collect();
    let parsed = (|| {
        if p.len() != 6 {
            return None;
        }
        Some((Cfg::parse_token(p[1])?, p[2] == "s1", String::from_utf8(unhex(p[3])?).ok()?, unhex(p[4])?, p[5].to_string()))
    })();
    let parsed = parsed.map(|(mut cfg, d, p, t, e)| {
        // decoding goes through the reader, where binary detection acts on the buffer (C14): switched off here
        cfg.bin = Bin::None;
        (cfg, d, p, t, e)
    });
    let Some((cfg0, dotall, pattern, text, enc)) = parsed else {
        ctx.rep.violation(Violation {
            kind: "impl_vs_model".into(),
            class: "".into(),
            tie: "harness".into(),
            case: line.to_string(),
            detail: "unparsable mlbom case line".into(),
        });
        return;
    };
    ctx.rep.eval();
    let cfg = cfg0.effective();
    let m = match build_ml(&cfg, dotall, &pattern) {
        Ok(m) => m,
        Err(_) => {
            ctx.rep.branch("pattern-rejected");
            return;
        }
    };
    let raw: Vec<u8> = match enc.as_str() {
        "utf8" => [&b"\xEF\xBB\xBF"[..], &text[..]].concat(),
        "utf16le" => std::iter::once([0xFFu8, 0xFE]).chain(text.iter().map(|&b| [b, 0])).flatten().collect(),
        // no mark: the encoding is given explicitly (-E utf-16le)
        "utf16le-E" => text.iter().flat_map(|&b| [b, 0]).collect(),
        _ => std::iter::once([0xFEu8, 0xFF]).chain(text.iter().map(|&b| [0, b])).flatten().collect(),
    };
    // what the searcher searches after decoding (BOM sniffing on, as in ripgrep): the mark is stripped, UTF-16 is
    // transcoded to UTF-8
    let decoded: Vec<u8> = text.clone();
    let (tsx, _) = table_sx(&m, &cfg, &decoded);
    let model = ctx.drv.ask(&format!("c13.model {} {} {} (sink all)", cfg.to_sx(), tsx, hex(&decoded)));
    if is_driver_error(&model) {
        ctx.rep.violation(Violation {
            kind: "impl_vs_model".into(),
            class: "".into(),
            tie: "driver".into(),
            case: line.to_string(),
            detail: format!("driver answered {}", model),
        });
        return;
    }
    ctx.rep.branch(&format!("bom:{}", enc));
    ctx.files += 1;
    let f = scratch_file(&ctx.scratch, &format!("c13-bom-{}.txt", ctx.files % 64), &raw);
    let (mut s, mut sm) = if enc == "utf16le-E" {
        (cfg.searcher_enc("utf-16le", false), cfg.searcher_enc("utf-16le", true))
    } else {
        (cfg.searcher_bom(false), cfg.searcher_bom(true))
    };
    let runs = [
        ("slice", run_with(&mut s, &m, &raw, Script::All, &Strategy::Slice).0),
        ("reader(1)", run_with(&mut s, &m, &raw, Script::All, &Strategy::Reader(1)).0),
        ("reader(7)", run_with(&mut s, &m, &raw, Script::All, &Strategy::Reader(7)).0),
        ("path", run_with(&mut s, &m, &raw, Script::All, &Strategy::Path(f.clone())).0),
        ("path-mmap", run_with(&mut sm, &m, &raw, Script::All, &Strategy::Path(f)).0),
    ];
    for (name, out) in runs.iter() {
        if *out != model {
            ctx.rep.violation(Violation {
                kind: "impl_vs_model".into(),
                class: "".into(),
                tie: format!("{} strategy on a BOM-marked ({}) input vs the Lean model on the decoded text (multi-line search)", name, enc),
                case: line.to_string(),
                detail: format!("{:?} on {:?}: {} gives {} model {}", pattern, show(&text), name, out, model),
            });
        }
    }
}

fn gen_bom_case(rng: &mut Rng) -> String {
    loop {
        let c = gen_case(rng);
        if let Pat::Re { dotall, pattern } = &c.pat {
            // the text must survive the round trip through UTF-16: ASCII only
            let text: Vec<u8> = c.input.iter().map(|&b| if b < 0x80 { b } else { b'a' }).collect();
            // a file that is nothing but a 2-byte mark is too short for BOM sniffing (3 bytes are peeked): not generated
            let enc = if text.is_empty() { "utf8" } else { *rng.pick(&["utf8", "utf16le", "utf16be", "utf16le-E"]) };
            return format!("mlbom {} s{} {} {} {}", c.cfg.token(), *dotall as u8, hex(pattern.as_bytes()), hex(&text), enc);
        }
    }
}

fn run_case(line: &str, ctx: &mut Ctx) {
    if line.starts_with("mlbom ") {
        run_bom_case(line, ctx);
        return;
    }
    let c = match C13::parse(line) {
        Some(c) => c,
        None => {
            ctx.rep.violation(Violation {
                kind: "impl_vs_model".into(),
                class: "".into(),
                tie: "harness".into(),
                case: line.to_string(),
                detail: "unparsable case line".into(),
            });
            return;
        }
    };
    ctx.rep.eval();
    let cfg = c.cfg.effective();
    match &c.pat {
        Pat::Re { dotall, pattern } => {
            let m = match build_ml(&cfg, *dotall, pattern) {
                Ok(m) => m,
                Err(_) => {
                    ctx.rep.branch("pattern-rejected");
                    return;
                }
            };
            let (tsx, _) = table_sx(&m, &cfg, &c.input);
            let head = table_head_sx(&m);
            ctx.rep.branch("matcher:regex");
            check(line, &c, &m, &tsx, &head, ctx);
        }
        Pat::Lit { needle } => {
            let m = LitMatcher::new(needle.clone(), None, None, None);
            let sx = m.to_sx();
            ctx.rep.branch("matcher:literal");
            check(line, &c, &m, &sx, &sx, ctx);
        }
    }
}

fn main() {
    let args = parse_args();
    let drv = Driver::spawn(&args.driver);
    let rep = Report::new(
        "C13",
        "Multi-line cases: a real RegexMatcher built as hiargs.rs builds it under -U (patterns with \\n, ^ $ \\b \\B \\A \\z next to it, \
         empty matches, (?s) / --multiline-dotall, CRLF) and a literal matcher whose needle contains the terminator; A,B in 0..3, \
         inversion, passthru, line numbers on/off; slice, reader (1-byte, 7-byte chunks) and path strategies. Non-trivial = at least \
         two matches and a delivered block that spans several lines. Cases whose pattern cannot match the terminator are downgraded \
         by the searcher to line-by-line search and only compared with the model. Every twelfth case stores the text with a UTF-8 / UTF-16LE / \
         UTF-16BE byte-order mark: slice, reader, path and mmap'ed path must all deliver the model's stream for the decoded text.",
    );
    let mut ctx = Ctx { drv, rep, scratch: args.scratch.clone(), files: 0, searchers: Default::default() };
    for c in corpus_cases(&args) {
        run_case(&c, &mut ctx);
    }
    if args.replay.is_none() {
        let mut rng = Rng::new(args.seed);
        let n = args.cases.unwrap_or(if args.thorough { 120000 } else { 6000 });
        for i in 0..n {
            let c = if i % 12 == 11 { gen_bom_case(&mut rng) } else { gen_case(&mut rng).line() };
            if i < 8 {
                ctx.rep.sample(c.clone());
            }
            run_case(&c, &mut ctx);
        }
    }
    ctx.rep.write(&args);
}
