//! C09 — printed lines and their coordinates are the input's own; JSON output is lossless.
//!
//! std : the real `grep_printer::Standard` over a real `Searcher`/`RegexMatcher`, event stream recorded by a tee
//!       -> model `stdSearch` on the same events (bytes, continue flags, stats), spec `eventOutput`, and the
//!       property checked directly: every printed record is read back with the Lean reader `parseRecord` and
//!       compared with the *file bytes* (text, line number, offset, column of the first match).
//! json: the real `grep_printer::JSON` -> model `jsonSearch` (messages as structures, base64 text compared
//!       verbatim), and directly: begin (match|context)* end, decoded lines/submatches vs the file bytes with an
//!       independent base64 decoder, text-vs-bytes exactly by `std::str::from_utf8`.
//! cli : the `rg` binary with the same flags (`-n -b --column --no-heading`, `--vimgrep`, `-H/-I`, `--heading`,
//!       `--null`, context, `--json`, `-U`, `--crlf`) on scratch files; stdout must equal the library printers'.
#[path = "../printer_common.rs"]
mod printer_common;
use grep_matcher::Matcher;
use grep_printer::{JSONBuilder, StandardBuilder};
use grep_regex::RegexMatcher;
use printer_common::*;
use rgverif_harness::*;
use serde_json::Value;
use std::ffi::OsStr;
use std::os::unix::ffi::OsStrExt;
use std::panic::{catch_unwind, AssertUnwindSafe};

const PANIC: &str = "multiline-lookahead-cut-match-beyond-block";
const ENGINE: &str = "regex-engine-not-leftmost-inner-literal";

/// The pattern compiled by regex-automata's meta engine with ripgrep's syntax options, for *anchored* searches
/// (which do not go through the unanchored prefilter / reverse-inner optimisations).
fn anchored_engine(o: &Opts) -> Option<regex_automata::meta::Regex> {
    regex_automata::meta::Regex::builder()
        .syntax(
            regex_automata::util::syntax::Config::new()
                .multi_line(true)
                .case_insensitive(o.icase)
                .crlf(o.crlf)
                .utf8(false),
        )
        .configure(regex_automata::meta::Regex::config().utf8_empty(false))
        .build(&o.pat)
        .ok()
}

fn viol(rep: &mut Report, kind: &str, class: &str, tie: &str, case: &str, detail: String) {
    rep.violation(Violation {
        kind: kind.into(),
        class: class.into(),
        tie: tie.into(),
        case: case.to_string(),
        detail,
    });
}

fn stats_str(s: &grep_printer::Stats, printed: Option<u64>) -> String {
    format!(
        "(searches {} with_match {} bytes_searched {} bytes_printed {} matched_lines {} matches {})",
        s.searches(),
        s.searches_with_match(),
        s.bytes_searched(),
        printed.unwrap_or(s.bytes_printed()),
        s.matched_lines(),
        s.matches()
    )
}

fn granular(o: &Opts) -> bool {
    o.column || o.vimgrep || o.only || o.stats
}

// ---------------------------------------------------------------- std

struct StdRun {
    outs: Vec<Vec<u8>>,
    traces: Vec<Trace>,
    stats: Vec<Option<String>>,
    ml_eff: bool,
}

fn build_standard(o: &Opts) -> grep_printer::Standard<termcolor::NoColor<Vec<u8>>> {
    let mut b = StandardBuilder::new();
    b.heading(o.heading)
        .path(o.with_path)
        .only_matching(o.only)
        .per_match(o.vimgrep)
        .per_match_one_line(o.vimgrep)
        .column(o.column)
        .byte_offset(o.boff)
        .max_matches(o.max)
        .stats(o.stats)
        .path_terminator(if o.null { Some(0) } else { None });
    if o.sepsearch {
        b.separator_search(Some(b"==".to_vec()));
    }
    b.build_no_color(vec![])
}

fn lib_std(o: &Opts, matcher: &RegexMatcher) -> Result<StdRun, String> {
    let mut searcher = o.searcher();
    let ml_eff = searcher.multi_line_with_matcher(matcher);
    let mut printer = build_standard(o);
    let mut run = StdRun { outs: vec![], traces: vec![], stats: vec![], ml_eff };
    for (i, input) in o.files.iter().enumerate() {
        let path = o.path_bytes(i);
        let mut trace = Trace::default();
        let before = printer.get_mut().get_ref().len();
        let stats;
        {
            let mut sink = printer.sink_with_path(matcher, OsStr::from_bytes(&path));
            run_search(o, &mut searcher, matcher, input, &mut sink, &mut trace)?;
            stats = sink.stats().map(|s| stats_str(s, None));
        }
        run.outs.push(printer.get_mut().get_ref()[before..].to_vec());
        run.traces.push(trace);
        run.stats.push(stats);
    }
    Ok(run)
}

fn shape_sx(has_path: bool, ln: bool, col: bool, off: bool, path_sep: u8, sep: u8) -> String {
    format!(
        "(shape {} {} {} {} {} {})",
        has_path as u8, ln as u8, col as u8, off as u8, path_sep, sep
    )
}

struct Parsed {
    path: Option<Vec<u8>>,
    ln: Option<u64>,
    col: Option<u64>,
    off: Option<u64>,
    text: Vec<u8>,
}

fn lean_parse(drv: &mut Driver, shape: &str, piece: &[u8]) -> Option<Parsed> {
    let r = drv.ask(&format!("c09.parse {} {}", shape, hex(piece)));
    let f: Vec<&str> = r.split(' ').collect();
    if f.len() != 5 {
        return None;
    }
    let num = |s: &str| if s == "-" { None } else { s.parse::<u64>().ok() };
    Some(Parsed {
        path: if f[0] == "~" { None } else { unhex(f[0]) },
        ln: num(f[1]),
        col: num(f[2]),
        off: num(f[3]),
        text: unhex(f[4])?,
    })
}


struct Expect {
    is_ctx: bool,
    line_off: usize,
    line_len: usize,
    /// `Some(rel)` = a column `rel + 1` must be shown and, under --vimgrep, the offset is `line_off + rel`
    col_rel: Option<usize>,
    per_match: bool,
    /// a column is printed but its value is not part of the direct check (lines of a multi-line block)
    col_unchecked: bool,
}

/// The property checked directly on one file's output of the Standard printer, against the file bytes.
/// Returns `Err((class, detail))` on the first record that is not the input's own.
fn check_std_direct(
    drv: &mut Driver,
    o: &Opts,
    matcher: &RegexMatcher,
    ml_eff: bool,
    path: &[u8],
    input: &[u8],
    trace: &Trace,
    out: &[u8],
    rep: &mut Report,
) -> Result<(), (String, String)> {
    let term = o.term_bytes();
    let tb = o.tb();
    // 1. the events are slices of the file at their offsets, with the right line numbers (searcher's contract)
    let mut expects: Vec<Option<Expect>> = vec![];
    for e in &trace.evs {
        match e {
            Ev::Break { .. } => expects.push(None),
            Ev::Matched { buf, rs, re, off, ln, .. } => {
                let bytes = &trace.bufs[*buf][*rs..*re];
                let off = *off as usize;
                if input.get(off..off + bytes.len()) != Some(bytes) {
                    return Err(("".into(), format!("matched event at {} is not a slice of the input", off)));
                }
                if let Some(ln) = ln {
                    if *ln != line_number_at_t(input, off, tb) {
                        return Err(("".into(), format!("matched event at {} has line number {}", off, ln)));
                    }
                }
                if ml_eff {
                    // the matches the printer can see in the block: the matcher iterated over the buffer cut
                    // MAX_LOOK_AHEAD bytes after the block, from the start of the block (an empty match at the
                    // very end of an unterminated last line counts)
                    let b = &trace.bufs[*buf];
                    let cut = (*re + 128).min(b.len());
                    let at_end = cut == *re && bytes.last() != Some(&tb);
                    let mut ms: Vec<(usize, usize)> = vec![];
                    if granular(o) {
                        let _ = matcher.find_iter_at(&b[..cut], *rs, |m| {
                            if m.start() >= *re && !(at_end && m.start() == *re) {
                                return false;
                            }
                            ms.push((m.start() - *rs, m.end() - *rs));
                            true
                        });
                    }
                    let slow = !ms.is_empty();
                    let lines = split_lines_t(bytes, tb);
                    if slow && o.vimgrep {
                        // --vimgrep: one record per match, on the first line of the block that overlaps it
                        rep.branch("std:vimgrep-multi-line-direct");
                        for (ms_s, ms_e) in &ms {
                            if let Some((lo, l)) = lines.iter().find(|(lo, l)| *lo < *ms_e && lo + l.len() > *ms_s) {
                                expects.push(Some(Expect {
                                    is_ctx: false,
                                    line_off: off + lo,
                                    line_len: l.len(),
                                    col_rel: Some(ms_s.saturating_sub(*lo)),
                                    per_match: false,
                                    col_unchecked: false,
                                }));
                            }
                        }
                        continue;
                    }
                    for (lo, l) in lines {
                        expects.push(Some(Expect {
                            is_ctx: false,
                            line_off: off + lo,
                            line_len: l.len(),
                            col_rel: None,
                            per_match: false,
                            col_unchecked: slow,
                        }));
                    }
                    continue;
                }
                // "the first match in the line": the printer searches the line on its own (0cdcce3) — the line's
                // content, terminator stripped, from its first byte; nothing before or after the line is visible
                let hay = content_o(o, bytes);
                // (also under -v: a reported non-matching line normally has no match and hence no column, but the
                // printer shows one whenever its own search finds a match)
                let first = matcher.find_at(hay, 0).ok().flatten();
                let mut ms = vec![];
                if o.vimgrep {
                    let _ = matcher.find_iter_at(hay, 0, |m| {
                        ms.push(m.start());
                        true
                    });
                }
                // (a line the searcher reports although the matcher finds nothing in its content — C01/F1 under
                // --crlf — is printed once, without column, like any line without recorded matches)
                if o.vimgrep && !ms.is_empty() {
                    for s in ms {
                        expects.push(Some(Expect {
                            is_ctx: false,
                            line_off: off,
                            line_len: bytes.len(),
                            col_rel: Some(s),
                            per_match: true,
                            col_unchecked: false,
                        }));
                    }
                } else {
                    expects.push(Some(Expect {
                        is_ctx: false,
                        line_off: off,
                        line_len: bytes.len(),
                        col_rel: if granular(o) { first.map(|m| m.start()) } else { None },
                        per_match: false,
                        col_unchecked: false,
                    }));
                }
            }
            Ev::Context { bytes, off, ln, .. } => {
                let off = *off as usize;
                if input.get(off..off + bytes.len()) != Some(&bytes[..]) {
                    return Err(("".into(), format!("context event at {} is not a slice of the input", off)));
                }
                if let Some(ln) = ln {
                    if *ln != line_number_at_t(input, off, tb) {
                        return Err(("".into(), format!("context event at {} has line number {}", off, ln)));
                    }
                }
                // in multi-line mode the printer re-searches the context bytes with their terminator visible
                let cont = if ml_eff { &bytes[..] } else { content_o(o, bytes) };
                let first = if o.invert && granular(o) { matcher.find(cont).ok().flatten() } else { None };
                if o.vimgrep && o.invert && first.is_some() {
                    let mut ms = vec![];
                    let unterminated = bytes.last() != Some(&tb);
                    let _ = matcher.find_iter(cont, |m| {
                        // a match starting at the end of the reported bytes belongs to the line only when the
                        // line has no terminator
                        if m.start() < bytes.len() || unterminated {
                            ms.push(m.start());
                        }
                        true
                    });
                    for s in ms {
                        expects.push(Some(Expect {
                            is_ctx: true,
                            line_off: off,
                            line_len: bytes.len(),
                            col_rel: Some(s),
                            per_match: true,
                            col_unchecked: false,
                        }));
                    }
                } else {
                    expects.push(Some(Expect {
                        is_ctx: true,
                        line_off: off,
                        line_len: bytes.len(),
                        col_rel: first.map(|m| m.start()),
                        per_match: false,
                        col_unchecked: false,
                    }));
                }
            }
        }
    }
    // a failure is attributed to a known-finding class only where that class's own mechanism is demonstrably
    // the cause (see the text check below); everything else is reported unclassified
    let fail = |d: String| Err((String::new(), d));

    // 2. walk the output
    let mut rest: &[u8] = out;
    let has_path = o.with_path && !o.heading;
    let mut first_record = true;
    let mut leftmost_seen: Option<usize> = None;
    for ex in &expects {
        // separators / heading that precede the first byte of a search
        if first_record && ex.is_some() {
            if o.sepsearch {
                let sep = [b"==", term].concat();
                if rest.starts_with(&sep) {
                    rest = &rest[sep.len()..];
                }
            }
            if o.heading && o.with_path {
                let h = [path, if o.null { &b"\0"[..] } else { term }].concat();
                if !rest.starts_with(&h) {
                    return fail(format!("heading missing before {:?}", show(&rest[..rest.len().min(30)])));
                }
                rest = &rest[h.len()..];
            }
        }
        match ex {
            None => {
                let sep = [b"--", term].concat();
                if !rest.starts_with(&sep) {
                    return fail(format!("context separator expected at {:?}", show(&rest[..rest.len().min(30)])));
                }
                rest = &rest[sep.len()..];
            }
            Some(ex) => {
                first_record = false;
                // a record ends with the line terminator byte; under --null-data the NUL that ends the path (--null)
                // comes first
                let skip = if tb == 0 && has_path && o.null { rest.iter().position(|&b| b == 0).map_or(0, |i| i + 1) } else { 0 };
                let end = match rest[skip..].iter().position(|&b| b == tb) {
                    Some(i) => skip + i + 1,
                    None => rest.len(),
                };
                let piece = &rest[..end];
                rest = &rest[end..];
                if piece.is_empty() {
                    return fail(format!("record for the line at offset {} is missing", ex.line_off));
                }
                let sep = if ex.is_ctx { b'-' } else { b':' };
                let has_ln = o.lineno;
                let has_col = o.column && (ex.col_rel.is_some() || ex.col_unchecked);
                let shape = shape_sx(has_path, has_ln, has_col, o.boff, if o.null { 0 } else { sep }, sep);
                let p = match lean_parse(drv, &shape, piece) {
                    Some(p) => p,
                    None => return fail(format!("record {:?} does not parse with shape {}", show(piece), shape)),
                };
                rep.branch("std:record-parsed");
                let line = &input[ex.line_off..ex.line_off + ex.line_len];
                let mut want = line.to_vec();
                if want.last() != Some(&tb) {
                    want.extend_from_slice(term);
                }
                if p.text != want {
                    return fail(format!(
                        "printed text {:?} is not the input line {:?} at offset {}",
                        show(&p.text),
                        show(line),
                        ex.line_off
                    ));
                }
                if has_path && p.path.as_deref() != Some(path) {
                    return fail(format!("path field {:?}", p.path.map(|x| show(&x))));
                }
                if has_ln && p.ln != Some(line_number_at_t(input, ex.line_off, tb)) {
                    return fail(format!(
                        "line number {:?} for the line at offset {} (line {})",
                        p.ln,
                        ex.line_off,
                        line_number_at_t(input, ex.line_off, tb)
                    ));
                }
                // the engine's "first match" against an independent notion of leftmost: an anchored search at every
                // earlier position of the line's own content (same syntax options) must find nothing
                // (under --vimgrep only the first record of a line shows the first match)
                let first_of_line = leftmost_seen != Some(ex.line_off);
                leftmost_seen = Some(ex.line_off);
                if has_col && !ex.col_unchecked && !ex.is_ctx && !ml_eff && !o.word && !o.xline && first_of_line {
                    if let (Some(c), Some(are)) = (ex.col_rel, anchored_engine(o)) {
                        let hay = content_o(o, line);
                        for s2 in 0..c {
                            let inp = regex_automata::Input::new(hay)
                                .span(s2..hay.len())
                                .anchored(regex_automata::Anchored::Yes);
                            if let Some(m2) = are.find(inp) {
                                rep.branch(&format!("class:{}:attributed", ENGINE));
                                return Err((
                                    ENGINE.to_string(),
                                    format!(
                                        "column {:?}: the engine's first match starts at {}, but the pattern matches at {} (anchored search finds [{}, {}))",
                                        p.col,
                                        c,
                                        s2,
                                        m2.start(),
                                        m2.end()
                                    ),
                                ));
                            }
                        }
                        rep.branch("std:leftmost-verified");
                    }
                }
                if has_col && !ex.col_unchecked && p.col != ex.col_rel.map(|c| c as u64 + 1) {
                    return fail(format!("column {:?}, first match starts at {:?}", p.col, ex.col_rel));
                }
                if o.boff {
                    let want_off = ex.line_off + if ex.per_match { ex.col_rel.unwrap_or(0) } else { 0 };
                    if p.off != Some(want_off as u64) {
                        return fail(format!("byte offset {:?}, expected {}", p.off, want_off));
                    }
                }
            }
        }
    }
    if first_record && !trace.evs.is_empty() {
        // records were due but none is printed (multi-line --vimgrep drops an empty match at the start of a
        // line): the search prelude may still have been written
        if o.sepsearch {
            let sep = [b"==", term].concat();
            if rest.starts_with(&sep) {
                rest = &rest[sep.len()..];
            }
        }
        if o.heading && o.with_path {
            let h = [path, if o.null { &b"\0"[..] } else { term }].concat();
            if rest.starts_with(&h) {
                rest = &rest[h.len()..];
            }
        }
    }
    if !rest.is_empty() {
        return fail(format!("unexpected trailing output {:?}", show(&rest[..rest.len().min(40)])));
    }
    Ok(())
}

fn run_std(case: &str, o: &Opts, drv: &mut Driver, rep: &mut Report) {
    rep.eval();
    let matcher = match o.matcher() {
        Ok(m) => m,
        Err(_) => {
            rep.branch("pattern-rejected");
            return;
        }
    };
    let run = match lib_std(o, &matcher) {
        Ok(r) => r,
        Err(e) => {
            rep.branch("search-error");
            rep.notes.push(format!("search error: {}", e));
            return;
        }
    };
    let ml = run.ml_eff;
    rep.branch(if ml { "std:multi-line" } else { "std:single-line" });
    if o.crlf {
        rep.branch("std:crlf");
    }
    if o.vimgrep {
        rep.branch("std:vimgrep");
    }
    if o.heading {
        rep.branch("std:heading");
    }
    if o.null {
        rep.branch("std:null");
    }
    if o.has_context() {
        rep.branch("std:context");
    }
    if o.invert {
        rep.branch("std:invert");
    }
    if o.reader {
        rep.branch("std:reader");
    }
    let (mut wc, mut wt) = (0usize, 0usize);
    let mut any_records = false;
    for (i, input) in o.files.iter().enumerate() {
        let path = o.path_bytes(i);
        let (trace, out) = (&run.traces[i], &run.outs[i]);
        if trace.matched_count() > 0 && trace.matched_count() < split_lines_t(input, o.tb()).len() {
            any_records = true;
        }
        if input.last().map_or(false, |&b| b != o.tb()) {
            rep.branch("std:no-final-terminator");
        }
        if std::str::from_utf8(input).is_err() {
            rep.branch("std:invalid-utf8");
        }
        // ---- model
        let tables = match tables_for(drv, "c09.cuts", o, ml, &matcher, trace, granular(o), granular(o) && o.invert) {
            Ok(t) => t,
            Err(e) => {
                viol(rep, "impl_vs_model", "", "driver c09.cuts", case, e);
                return;
            }
        };
        let req = format!(
            "c09.standard {} {} (w {} {}) {} {} {}",
            sc_sx(o, ml),
            std_sx(o, Some(&path[..])),
            wc,
            wt,
            bufs_sx(trace),
            evs_sx(trace, &tables),
            trace.byte_count.unwrap_or(0)
        );
        let reply = drv.ask(&req);
        let m_out = field_word(&reply, "out").unwrap_or("?");
        let m_conts = field_word(&reply, "conts").unwrap_or("?");
        let m_begin = field_word(&reply, "begin").unwrap_or("?");
        let m_spec = field_word(&reply, "spec").unwrap_or("?");
        let m_guard = field_word(&reply, "guard").unwrap_or("?");
        let m_stats = field(&reply, "stats").and_then(|r| r.split(" spec=").next()).unwrap_or("?");
        let tie = "grep_printer::Standard (StandardSink::{begin,matched,context,context_break,finish}) vs Model.Printer.stdSearch";
        if m_out != hex(out) {
            viol(
                rep,
                "impl_vs_model",
                "",
                tie,
                case,
                format!(
                    "file {}: impl {:?} model {:?}",
                    i,
                    show(out),
                    show(&unhex(m_out).unwrap_or_else(|| reply.as_bytes().to_vec()))
                ),
            );
        } else {
            if m_begin != if trace.begin == Some(true) { "1" } else { "0" } {
                viol(rep, "impl_vs_model", "", tie, case, format!("file {}: begin() impl {:?} model {}", i, trace.begin, m_begin));
            }
            if trace.begin == Some(true) && m_conts != trace.conts() {
                viol(
                    rep,
                    "impl_vs_model",
                    "",
                    tie,
                    case,
                    format!("file {}: continue flags impl {} model {}", i, trace.conts(), m_conts),
                );
            }
            let i_stats = run.stats[i].clone().unwrap_or_else(|| "~".into());
            if m_stats != i_stats {
                viol(rep, "impl_vs_model", "", tie, case, format!("file {}: stats impl {} model {}", i, i_stats, m_stats));
            }
        }
        // ---- spec (Lean): model vs spec under the theorem's guard
        if m_guard == "1" && m_spec != m_out {
            viol(
                rep,
                "model_vs_spec",
                "",
                "theorem C09_standard contradicted",
                case,
                format!("file {}: model {} spec {}", i, m_out, m_spec),
            );
        }
        // ---- the property on the implementation directly (only-matching is outside C09)
        if !o.only {
            match check_std_direct(drv, o, &matcher, ml, &path, input, trace, out, rep) {
                Ok(()) => {}
                Err((class, detail)) => viol(
                    rep,
                    "impl_vs_spec",
                    &class,
                    "Standard printer output vs the file bytes (text, line number, offset, column)",
                    case,
                    format!("file {} ({:?}): {}; output {:?}", i, show(input), detail, show(out)),
                ),
            }
        }
        wt += wc;
        wc = out.len();
    }
    if any_records {
        rep.nontrivial(case);
    }
}

// ---------------------------------------------------------------- json

fn data_canon(v: &Value) -> Option<String> {
    if let Some(t) = v.get("text").and_then(|t| t.as_str()) {
        return Some(format!("t:{}", hex(t.as_bytes())));
    }
    if let Some(b) = v.get("bytes").and_then(|t| t.as_str()) {
        return Some(format!("b:{}", hex(b.as_bytes())));
    }
    None
}

fn data_decode(v: &Value) -> Option<(bool, Vec<u8>)> {
    if let Some(t) = v.get("text").and_then(|t| t.as_str()) {
        return Some((true, t.as_bytes().to_vec()));
    }
    if let Some(b) = v.get("bytes").and_then(|t| t.as_str()) {
        return Some((false, base64_decode(b.as_bytes())?));
    }
    None
}

fn opt_data_canon(v: &Value) -> String {
    if v.is_null() {
        "~".into()
    } else {
        data_canon(v).unwrap_or_else(|| "?".into())
    }
}

fn opt_num(v: &Value) -> String {
    v.as_u64().map_or("-".to_string(), |n| n.to_string())
}

fn msg_canon(v: &Value) -> String {
    let ty = v["type"].as_str().unwrap_or("?");
    let d = &v["data"];
    match ty {
        "begin" => format!("begin {}", opt_data_canon(&d["path"])),
        "match" | "context" => {
            let subs: Vec<String> = d["submatches"]
                .as_array()
                .map(|a| {
                    a.iter()
                        .map(|s| {
                            format!(
                                "{}:{}:{}",
                                opt_num(&s["start"]),
                                opt_num(&s["end"]),
                                data_canon(&s["match"]).unwrap_or_else(|| "?".into())
                            )
                        })
                        .collect()
                })
                .unwrap_or_default();
            format!(
                "{} {} {} {} {} [{}]",
                ty,
                opt_data_canon(&d["path"]),
                data_canon(&d["lines"]).unwrap_or_else(|| "?".into()),
                opt_num(&d["line_number"]),
                opt_num(&d["absolute_offset"]),
                subs.join(",")
            )
        }
        "end" => {
            let s = &d["stats"];
            format!(
                "end {} {} (searches {} with_match {} bytes_searched {} bytes_printed 0 matched_lines {} matches {})",
                opt_data_canon(&d["path"]),
                opt_num(&d["binary_offset"]),
                opt_num(&s["searches"]),
                opt_num(&s["searches_with_match"]),
                opt_num(&s["bytes_searched"]),
                opt_num(&s["matched_lines"]),
                opt_num(&s["matches"])
            )
        }
        other => format!("unknown-{}", other),
    }
}

/// The JSON half of the property, directly against the file bytes.
fn check_json_direct(o: &Opts, path: &[u8], input: &[u8], msgs: &[Value], drv: &mut Driver, rep: &mut Report) -> Result<(), String> {
    if msgs.is_empty() {
        return Ok(());
    }
    // the path of begin/end decodes to the file's path; text exactly when it is valid UTF-8
    for m in [&msgs[0], &msgs[msgs.len() - 1]] {
        let (is_text, p) = data_decode(&m["data"]["path"]).ok_or("path does not decode")?;
        if p != path || is_text != std::str::from_utf8(path).is_ok() {
            return Err(format!("path {:?} reported as {:?} (text: {})", show(path), show(&p), is_text));
        }
    }
    if msgs[0]["type"] != "begin" {
        return Err("first message is not begin".into());
    }
    if msgs[msgs.len() - 1]["type"] != "end" {
        return Err("last message is not end".into());
    }
    let mut concat = vec![];
    let mut last_end = 0usize;
    for m in &msgs[1..msgs.len() - 1] {
        let ty = m["type"].as_str().unwrap_or("?");
        if ty != "match" && ty != "context" {
            return Err(format!("message of type {} between begin and end", ty));
        }
        let d = &m["data"];
        let (is_text, lines) = data_decode(&d["lines"]).ok_or("lines does not decode")?;
        // the Lean reader agrees with the independent decoder
        if let Some(b64) = d["lines"].get("bytes").and_then(|t| t.as_str()) {
            rep.branch("json:base64");
            let l = drv.ask(&format!("c09.unbase64 {}", hex(b64.as_bytes())));
            if l != hex(&lines) {
                return Err(format!("Lean unbase64 {} vs independent decoder {}", l, hex(&lines)));
            }
        } else {
            rep.branch("json:text");
        }
        if is_text != std::str::from_utf8(&lines).is_ok() {
            return Err(format!("text/bytes choice wrong for {:?}", show(&lines)));
        }
        let off = d["absolute_offset"].as_u64().ok_or("no absolute_offset")? as usize;
        if input.get(off..off + lines.len()) != Some(&lines[..]) {
            return Err(format!("lines {:?} are not the input bytes at offset {}", show(&lines), off));
        }
        if off < last_end {
            return Err(format!("messages out of order at offset {}", off));
        }
        last_end = off + lines.len();
        if let Some(ln) = d["line_number"].as_u64() {
            if ln != line_number_at_t(input, off, o.tb()) {
                return Err(format!("line_number {} at offset {}", ln, off));
            }
        }
        let mut prev = 0usize;
        for s in d["submatches"].as_array().ok_or("no submatches")? {
            let (st, t) = data_decode(&s["match"]).ok_or("submatch does not decode")?;
            let (a, b) = (
                s["start"].as_u64().ok_or("no start")? as usize,
                s["end"].as_u64().ok_or("no end")? as usize,
            );
            if a > b || b > lines.len() || lines[a..b] != t[..] {
                return Err(format!("submatch [{},{}) text {:?} is not that range of the line", a, b, show(&t)));
            }
            if st != std::str::from_utf8(&t).is_ok() {
                return Err(format!("text/bytes choice wrong for submatch {:?}", show(&t)));
            }
            if a < prev {
                return Err("submatches overlap or are out of order".into());
            }
            prev = b;
        }
        concat.extend_from_slice(&lines);
    }
    if o.passthru && o.max.is_none() && concat != input {
        return Err("with --passthru the concatenation of all reported lines is not the input".into());
    }
    Ok(())
}

fn run_json(case: &str, o: &Opts, drv: &mut Driver, rep: &mut Report) {
    rep.eval();
    let matcher = match o.matcher() {
        Ok(m) => m,
        Err(_) => {
            rep.branch("pattern-rejected");
            return;
        }
    };
    let mut searcher = o.searcher();
    let ml = searcher.multi_line_with_matcher(&matcher);
    rep.branch(if ml { "json:multi-line" } else { "json:single-line" });
    let mut nontrivial = false;
    for (i, input) in o.files.iter().enumerate() {
        let path = o.path_bytes(i);
        let mut printer = JSONBuilder::new().max_matches(o.max).build(vec![]);
        let mut trace = Trace::default();
        let res = catch_unwind(AssertUnwindSafe(|| {
            let mut sink = printer.sink_with_path(&matcher, OsStr::from_bytes(&path));
            run_search(o, &mut searcher, &matcher, input, &mut sink, &mut trace)
        }));
        let panicked = res.is_err();
        if let Ok(Err(e)) = &res {
            rep.notes.push(format!("search error: {}", e));
            return;
        }
        if panicked {
            // the searcher may be left mid-search; rebuild it
            searcher = o.searcher();
        }
        let out = printer.get_mut().clone();
        let mut msgs: Vec<Value> = vec![];
        let mut bad_json = false;
        for l in out.split(|&b| b == b'\n').filter(|l| !l.is_empty()) {
            match serde_json::from_slice::<Value>(l) {
                Ok(v) => msgs.push(v),
                Err(_) => bad_json = true,
            }
        }
        if bad_json {
            viol(rep, "impl_vs_spec", "", "JSON printer output is JSON Lines", case, format!("file {}: unparsable line in {:?}", i, show(&out)));
            continue;
        }
        if msgs.len() > 2 {
            nontrivial = true;
        }
        // `bytes_printed` of the end message (not part of the model's Stats): the bytes of this search's earlier lines
        if !panicked {
            if let Some(end) = msgs.last().filter(|m| m["type"] == "end") {
                let before: usize = out.split(|&b| b == b'\n').filter(|l| !l.is_empty()).map(|l| l.len() + 1).sum::<usize>()
                    - out.split(|&b| b == b'\n').filter(|l| !l.is_empty()).last().map_or(0, |l| l.len() + 1);
                if end["data"]["stats"]["bytes_printed"].as_u64() != Some(before as u64) {
                    viol(rep, "impl_vs_spec", "", "JSON end message: bytes_printed = bytes of begin .. last match/context line", case, format!("file {}: bytes_printed {:?}, the earlier messages have {} bytes", i, end["data"]["stats"]["bytes_printed"], before));
                }
                rep.branch("json:bytes-printed");
            }
        }
        // ---- model. When the real sink panicked the event that caused it was not recorded by the tee (the tee
        // records after the inner call); re-create it is not possible, so the model is asked about the prefix
        // and must agree on it, and the panic itself is tied separately below.
        let tables = match tables_for(drv, "c09.cuts", o, ml, &matcher, &trace, true, o.invert) {
            Ok(t) => t,
            Err(e) => {
                viol(rep, "impl_vs_model", "", "driver c09.cuts", case, e);
                return;
            }
        };
        let req = format!(
            "c09.json {} (jc (max {}) (abe 0) (path {})) {} {} {}",
            sc_sx(o, ml),
            o.max.map_or("~".to_string(), |m| m.to_string()),
            hex(&path),
            bufs_sx(&trace),
            evs_sx(&trace, &tables),
            trace.byte_count.unwrap_or(0)
        );
        let reply = drv.ask(&req);
        let m_msgs = field(&reply, "msgs").unwrap_or("?");
        let m_panicked = field_word(&reply, "panicked").unwrap_or("?");
        let m_conts = field_word(&reply, "conts").unwrap_or("?");
        let tie = "grep_printer::JSON (JSONSink::{begin,matched,context,finish}, SubMatches::new, Data::from_bytes, base64_standard) vs Model.Printer.jsonSearch";
        let mut canon: Vec<String> = msgs.iter().map(msg_canon).collect();
        if panicked {
            rep.branch("json:panic");
            // the tee recorded the callback that panicked: the model must panic on it too, after the same messages
            if m_panicked != "1" || m_msgs != canon.join(";") {
                viol(rep, "impl_vs_model", "", tie, case, format!("file {}: implementation panicked after {:?}; model: {}", i, canon, reply));
            }
            viol(
                rep,
                "impl_vs_spec",
                PANIC,
                "JSON printer must report every delivered line",
                case,
                format!("file {} ({:?}): JSONSink::matched panicked (slice index out of range in SubMatches::new)", i, show(input)),
            );
            continue;
        }
        if m_panicked != "0" {
            viol(rep, "impl_vs_model", "", tie, case, format!("file {}: model panics, implementation does not", i));
            continue;
        }
        // bytes_printed is not modelled
        let joined = canon.join(";");
        if joined != m_msgs {
            viol(rep, "impl_vs_model", "", tie, case, format!("file {}: impl {:?} model {:?}", i, joined, m_msgs));
        } else if trace.begin == Some(true) && m_conts != trace.conts() {
            viol(rep, "impl_vs_model", "", tie, case, format!("file {}: continue flags impl {} model {}", i, trace.conts(), m_conts));
        }
        canon.clear();
        // ---- the property directly
        if let Err(d) = check_json_direct(o, &path, input, &msgs, drv, rep) {
            viol(
                rep,
                "impl_vs_spec",
                "",
                "JSON messages vs the file bytes (lines, offsets, submatches, text/base64, begin..end)",
                case,
                format!("file {} ({:?}): {}", i, show(input), d),
            );
        }
    }
    if nontrivial {
        rep.nontrivial(case);
    }
}

// ---------------------------------------------------------------- enc (decimal / base64 / utf8 through the driver)

fn run_enc(case: &str, parts: &[&str], drv: &mut Driver, rep: &mut Report) {
    rep.eval();
    match parts.get(1).copied() {
        Some("d") => {
            let n: u64 = parts.get(2).and_then(|s| s.parse().ok()).unwrap_or(0);
            let m = drv.ask(&format!("c09.decimal {}", n));
            // implementation: the private DecimalFormatter through the verif hook (numbers the printers cannot
            // reach through real offsets, up to u64::MAX)
            let imp = grep_printer::verif::decimal(n);
            if m != hex(&imp) {
                viol(
                    rep,
                    "impl_vs_model",
                    "",
                    "util::DecimalFormatter (hook grep_printer::verif::decimal) vs Model.Printer.decimal (theorem decimal_roundtrip)",
                    case,
                    format!("{}: impl {:?} model {}", n, show(&imp), m),
                );
            }
            // reference: Rust's own Display for u64 (the unit test of DecimalFormatter uses the same oracle)
            if imp != n.to_string().as_bytes() {
                viol(rep, "impl_vs_spec", "", "DecimalFormatter vs u64::to_string", case, format!("impl {:?} for {}", show(&imp), n));
            }
            let back = drv.ask(&format!("c09.parsenat {}", m));
            if back != n.to_string() {
                viol(rep, "model_vs_spec", "", "theorem decimal_roundtrip contradicted", case, format!("{} reads back as {}", n, back));
            }
            rep.branch("enc:decimal");
        }
        Some("u") => {
            let b = parts.get(2).and_then(|s| unhex(s)).unwrap_or_default();
            let m = drv.ask(&format!("c09.utf8 {}", hex(&b)));
            let i = if std::str::from_utf8(&b).is_ok() { "1" } else { "0" };
            if m != i {
                viol(
                    rep,
                    "impl_vs_model",
                    "",
                    "std::str::from_utf8 (Data::from_bytes) vs Model.Utf8.validUtf8 (theorem utf8_decision)",
                    case,
                    format!("{:?}: std {} model {}", show(&b), i, m),
                );
            }
            rep.branch(if i == "1" { "enc:utf8-valid" } else { "enc:utf8-invalid" });
            let d = drv.ask(&format!("c09.data {}", hex(&b)));
            let f: Vec<&str> = d.split(' ').collect();
            if f.len() != 2 || f[1] != hex(&b) {
                viol(rep, "model_vs_spec", "", "theorem data_roundtrip contradicted", case, format!("{:?}: {}", show(&b), d));
            } else if let Some(b64) = f[0].strip_prefix("b:") {
                if base64_decode(&unhex(b64).unwrap_or_default()).as_deref() != Some(&b[..]) {
                    viol(rep, "model_vs_spec", "", "model base64 vs independent decoder", case, format!("{:?}: {}", show(&b), d));
                }
            }
        }
        Some("b") => {
            // base64_standard on arbitrary bytes (through the verif hook) vs the model vs an independent decoder
            let b = parts.get(2).and_then(|s| unhex(s)).unwrap_or_default();
            let imp = grep_printer::verif::base64(&b);
            let m = drv.ask(&format!("c09.base64 {}", hex(&b)));
            if m != hex(imp.as_bytes()) {
                viol(
                    rep,
                    "impl_vs_model",
                    "",
                    "jsont::base64_standard (hook grep_printer::verif::base64) vs Model.Json.base64 (theorem base64_roundtrip)",
                    case,
                    format!("{:?}: impl {:?} model {}", show(&b), imp, m),
                );
            }
            if base64_decode(imp.as_bytes()).as_deref() != Some(&b[..]) {
                viol(rep, "impl_vs_spec", "", "base64_standard vs RFC 4648 decoder", case, format!("{:?} -> {:?}", show(&b), imp));
            }
            let back = drv.ask(&format!("c09.unbase64 {}", m));
            if back != hex(&b) {
                viol(rep, "model_vs_spec", "", "theorem base64_roundtrip contradicted", case, format!("{} reads back as {}", hex(&b), back));
            }
            rep.branch(&format!("enc:base64-rem{}", b.len() % 3));
        }
        _ => rep.notes.push(format!("unparsable case: {}", case)),
    }
}

// ---------------------------------------------------------------- cli

fn rg_args(o: &Opts, json: bool) -> Vec<String> {
    let mut a: Vec<String> =
        vec!["--no-config".into(), "--color=never".into(), "-j1".into(), "--sort=path".into(), "-Enone".into(), "--no-mmap".into()];
    if !o.reader {
        a.pop();
        a.push("--mmap".into());
    }
    // half of the cases with the default `-E auto`: no generated input starts with a byte order mark, so nothing is
    // transcoded (transcoding itself is C17)
    if fnv(o.pat.as_bytes()) % 2 == 1 {
        a.retain(|x| x != "-Enone");
    }
    let mut f = |on: bool, s: &str| {
        if on {
            a.push(s.to_string())
        }
    };
    f(o.icase, "-i");
    f(o.word && !o.xline, "-w");
    f(o.xline, "-x");
    f(o.crlf, "--crlf");
    f(o.nulldata, "--null-data");
    f(o.text, "-a");
    f(o.multi, "-U");
    f(o.dotall, "--multiline-dotall");
    f(o.invert, "-v");
    f(o.passthru, "--passthru");
    if json {
        a.push("--json".into());
    } else {
        a.push(if o.lineno { "-n".into() } else { "-N".into() });
        a.push(if o.with_path { "-H".into() } else { "-I".into() });
        a.push(if o.heading { "--heading".into() } else { "--no-heading".into() });
        if o.vimgrep {
            a.push("--vimgrep".into());
            if !o.column {
                a.push("--no-column".into());
            }
        } else if o.column {
            a.push("--column".into());
        }
        if o.only {
            a.push("-o".into());
        }
        if o.boff {
            a.push("-b".into());
        }
        if o.null {
            a.push("--null".into());
        }
    }
    if !o.passthru {
        if o.before > 0 {
            a.push(format!("-B{}", o.before));
        }
        if o.after > 0 {
            a.push(format!("-A{}", o.after));
        }
    }
    if let Some(m) = o.max {
        a.push(format!("-m{}", m));
    }
    a.push("-e".into());
    a.push(o.pat.clone());
    a
}

/// The `rg` binary on scratch files must print what the library printers print for the same configuration
/// (ties flags -> HiArgs -> builders); the library output itself is checked against the model and the files.
fn run_cli(case: &str, o: &Opts, args: &Args, json: bool, rep: &mut Report) {
    rep.eval();
    let rg = match &args.rg {
        Some(p) => p,
        None => {
            rep.branch("cli:no-rg");
            return;
        }
    };
    let matcher = match o.matcher() {
        Ok(m) => m,
        Err(_) => {
            rep.branch("pattern-rejected");
            return;
        }
    };
    let dir = args.scratch.join("c09");
    let _ = std::fs::remove_dir_all(&dir);
    for (i, input) in o.files.iter().enumerate() {
        let p = dir.join(OsStr::from_bytes(&o.path_bytes(i)));
        std::fs::create_dir_all(p.parent().unwrap()).unwrap();
        std::fs::write(&p, input).unwrap();
    }
    let mut cmd = std::process::Command::new(rg);
    cmd.current_dir(&dir).args(rg_args(o, json));
    let mut names: Vec<Vec<u8>> = (0..o.files.len()).map(|i| o.path_bytes(i)).collect();
    names.sort();
    cmd.args(names.iter().map(|n| OsStr::from_bytes(n)));
    // (the debug build of rg is slow on the > 64 KiB lines of the `long` stream: more time, and running out of it
    // there is not a finding)
    let long = o.files.iter().any(|f| f.len() > 60_000);
    let outp = match run_with_timeout(&mut cmd, &args.scratch.join("c09-out"), if long { 90 } else { 20 }) {
        Some(o) => o,
        None => {
            rep.notes.push("cannot run rg".to_string());
            return;
        }
    };
    let stderr = String::from_utf8_lossy(&outp.stderr).to_string();
    // library run in the same file order (sorted by path)
    let mut order: Vec<usize> = (0..o.files.len()).collect();
    order.sort_by_key(|&i| o.path_bytes(i));
    let mut o2 = o.clone();
    // the binary's single-threaded standard printer owns the context separator as search separator
    o2.files = order.iter().map(|&i| o.files[i].clone()).collect();
    rep.branch(if json { "cli:json" } else { "cli:standard" });
    if long && outp.timed_out && !stderr.contains("panicked") {
        rep.branch("cli:long-timeout");
        return;
    }
    if stderr.contains("panicked") || outp.timed_out {
        rep.branch("cli:panic");
        viol(
            rep,
            "impl_vs_spec",
            if json && o.multi { PANIC } else { "" },
            "rg --json must report every delivered line",
            case,
            format!("rg panicked: {}", stderr.lines().find(|l| l.contains("panicked")).unwrap_or("")),
        );
        return;
    }
    if json {
        // per file: begin (match|context)* end, then one summary; decoded against the files
        let mut cur: Vec<Value> = vec![];
        let mut idx = 0usize;
        let (mut cur_bytes, mut all_bytes) = (0u64, 0u64);
        for l in outp.stdout.split(|&b| b == b'\n').filter(|l| !l.is_empty()) {
            let v: Value = match serde_json::from_slice(l) {
                Ok(v) => v,
                Err(_) => {
                    viol(rep, "impl_vs_spec", "", "rg --json prints JSON Lines", case, format!("unparsable: {:?}", show(l)));
                    return;
                }
            };
            let ty = v["type"].as_str().unwrap_or("?").to_string();
            if ty == "summary" {
                // the totals' bytes_printed is the sum over the files
                if v["data"]["stats"]["bytes_printed"].as_u64() != Some(all_bytes) {
                    viol(rep, "impl_vs_spec", "", "rg --json summary: bytes_printed = sum over the files", case, format!("summary says {:?}, the files' messages have {} bytes", v["data"]["stats"]["bytes_printed"], all_bytes));
                }
                continue;
            }
            if ty == "end" {
                if v["data"]["stats"]["bytes_printed"].as_u64() != Some(cur_bytes) {
                    viol(rep, "impl_vs_spec", "", "rg --json end message: bytes_printed = bytes of begin .. last match/context line", case, format!("end says {:?}, the earlier messages have {} bytes", v["data"]["stats"]["bytes_printed"], cur_bytes));
                }
                all_bytes += cur_bytes;
                cur_bytes = 0;
                rep.branch("cli:json-bytes-printed");
            } else {
                cur_bytes += l.len() as u64 + 1;
            }
            cur.push(v);
            if ty == "end" {
                // which file?
                let (p_text, p) = data_decode(&cur[0]["data"]["path"]).unwrap_or((true, vec![]));
                if p_text != std::str::from_utf8(&p).is_ok() || data_canon(&cur[0]["data"]["path"]) != data_canon(&cur[cur.len() - 1]["data"]["path"]) {
                    viol(rep, "impl_vs_spec", "", "rg --json path: text iff valid UTF-8, same in begin and end", case, format!("path {:?}", show(&p)));
                }
                let fi = names.iter().position(|n| *n == p);
                match fi {
                    Some(fi) if fi >= idx => {
                        idx = fi;
                        let input = &o2.files[fi];
                        if let Err(d) = check_json_cli(o, input, &cur) {
                            viol(rep, "impl_vs_spec", "", "rg --json messages vs the file bytes", case, format!("file {}: {}", show(&p), d));
                        }
                    }
                    _ => viol(rep, "impl_vs_spec", "", "rg --json begin/end per file in order", case, format!("unexpected path {:?}", show(&p))),
                }
                cur.clear();
            }
        }
        if !cur.is_empty() {
            viol(rep, "impl_vs_spec", "", "rg --json: every begin has its end", case, "dangling messages".into());
        }
        return;
    }
    // direct, without any reader: `--passthru` with no coordinates prints every line of every file as it is (a missing
    // final terminator completed)
    if o.passthru && !o.lineno && !o.with_path && !o.heading && !o.column && !o.vimgrep && !o.only && !o.boff && o.max.is_none() {
        let mut want = vec![];
        for f in &o2.files {
            want.extend_from_slice(f);
            if !f.is_empty() && f.last() != Some(&o.tb()) {
                want.extend_from_slice(o.term_bytes());
            }
        }
        rep.branch("cli:passthru-identity");
        if want != outp.stdout {
            let k = want.iter().zip(&outp.stdout).take_while(|(a, b)| a == b).count();
            viol(
                rep,
                "impl_vs_spec",
                "",
                "rg --passthru without coordinates prints the files themselves",
                case,
                format!("output ({} bytes) differs from the input ({} bytes) at byte {}: {:?} vs {:?}", outp.stdout.len(), want.len(), k, show(&outp.stdout[k.min(outp.stdout.len())..(k + 20).min(outp.stdout.len())]), show(&want[k.min(want.len())..(k + 20).min(want.len())])),
            );
        }
    }
    // standard: compare with the library printer configured the way HiArgs does it
    let mut o3 = o2.clone();
    // HiArgs: file separator = context separator when context is on (owned by the printer with -j1); "" under heading
    o3.sepsearch = false;
    let lib = {
        let mut searcher = o3.searcher();
        let mut b = StandardBuilder::new();
        o3.heading = o3.heading && !o3.vimgrep;
        b.heading(o3.heading)
            .path(o3.with_path)
            .only_matching(o3.only)
            .per_match(o3.vimgrep)
            .per_match_one_line(true)
            .column(o3.column)
            .byte_offset(o3.boff)
            .max_matches(o3.max)
            .path_terminator(if o3.null { Some(0) } else { None });
        if o3.heading {
            b.separator_search(Some(vec![]));
        } else if !o3.passthru && (o3.before > 0 || o3.after > 0) {
            b.separator_search(Some(b"--".to_vec()));
        }
        let mut printer = b.build_no_color(vec![]);
        for (k, input) in o3.files.iter().enumerate() {
            let mut sink = printer.sink_with_path(&matcher, OsStr::from_bytes(&names[k]));
            let r = if o3.reader { searcher.search_reader(&matcher, &input[..], &mut sink) } else { searcher.search_slice(&matcher, input, &mut sink) };
            if r.is_err() {
                rep.branch("cli:lib-search-error");
                return;
            }
        }
        printer.into_inner().into_inner()
    };
    if lib != outp.stdout {
        viol(
            rep,
            "impl_vs_spec",
            "",
            "rg stdout vs grep_printer::Standard configured as HiArgs::printer_standard does",
            case,
            format!("rg {:?} printed {:?}, library {:?}", rg_args(o, false), show(&outp.stdout), show(&lib)),
        );
    }
}

fn check_json_cli(o: &Opts, input: &[u8], msgs: &[Value]) -> Result<(), String> {
    // same checks as the library-level direct check, without the Lean reader
    if msgs.is_empty() || msgs[0]["type"] != "begin" || msgs[msgs.len() - 1]["type"] != "end" {
        return Err("messages are not begin .. end".into());
    }
    let mut concat = vec![];
    for m in &msgs[1..msgs.len() - 1] {
        let ty = m["type"].as_str().unwrap_or("?");
        if ty != "match" && ty != "context" {
            return Err(format!("message of type {} between begin and end", ty));
        }
        let d = &m["data"];
        let (is_text, lines) = data_decode(&d["lines"]).ok_or("lines does not decode")?;
        if is_text != std::str::from_utf8(&lines).is_ok() {
            return Err("text/bytes choice wrong".into());
        }
        let off = d["absolute_offset"].as_u64().ok_or("no absolute_offset")? as usize;
        if input.get(off..off + lines.len()) != Some(&lines[..]) {
            return Err(format!("lines {:?} are not the input bytes at offset {}", show(&lines), off));
        }
        if let Some(ln) = d["line_number"].as_u64() {
            if ln != line_number_at_t(input, off, o.tb()) {
                return Err(format!("line_number {} at offset {}", ln, off));
            }
        }
        for s in d["submatches"].as_array().ok_or("no submatches")? {
            let (_, t) = data_decode(&s["match"]).ok_or("submatch does not decode")?;
            let (a, b) = (s["start"].as_u64().unwrap_or(0) as usize, s["end"].as_u64().unwrap_or(0) as usize);
            if a > b || b > lines.len() || lines[a..b] != t[..] {
                return Err(format!("submatch [{},{}) is not that range of the line", a, b));
            }
        }
        concat.extend_from_slice(&lines);
    }
    if o.passthru && o.max.is_none() && concat != input {
        return Err("with --passthru the concatenation of all reported lines is not the input".into());
    }
    Ok(())
}

// ---------------------------------------------------------------- rel: printer options outside the model
//
// Options the Lean model does not cover but the property quantifies over (colours, hyperlinks, field / context /
// path separators) are held to the plain output — which `std`/`cli` tie to the model and to the file bytes — by
// relations between runs of the `rg` binary on the same files:
//   sep   : output with unique separators, re-rendered with the default ones            == plain output
//   color : --color=always output with SGR / OSC-8 sequences stripped                  == --color=never output
//   psep  : --path-separator X only replaces '/' in the printed path
// (--trim and -M/--max-columns are excluded by the property text itself: "trimming, column limits".)

const SEP_M: &[u8] = b"\x01M\x01";
const SEP_C: &[u8] = b"\x01C\x01";
const SEP_X: &[u8] = b"\x01--\x01";

#[derive(Clone, Debug, Default)]
struct Extras {
    /// 0 = never, 1 = always (default colours), 2 = always with every colour spec `none`
    color: u8,
    hyper: bool,
    sep: bool,
    psep: Option<u8>,
    noctxsep: bool,
}

impl Extras {
    fn parse(x: &str) -> Option<Extras> {
        let mut e = Extras::default();
        for t in x.split(',') {
            match t {
                "-" | "" => {}
                "color" => e.color = 1,
                "color0" => e.color = 2,
                "hyper" => e.hyper = true,
                "sep" => e.sep = true,
                "noctxsep" => e.noctxsep = true,
                _ => {
                    if let Some(n) = t.strip_prefix("psep") {
                        e.psep = Some(u8::from_str_radix(n, 16).ok()?);
                    } else {
                        return None;
                    }
                }
            }
        }
        Some(e)
    }
    fn show(&self) -> String {
        let mut v: Vec<String> = vec![];
        match self.color {
            1 => v.push("color".into()),
            2 => v.push("color0".into()),
            _ => {}
        }
        if self.hyper {
            v.push("hyper".into());
        }
        if self.sep {
            v.push("sep".into());
        }
        if self.noctxsep {
            v.push("noctxsep".into());
        }
        if let Some(b) = self.psep {
            v.push(format!("psep{:02x}", b));
        }
        if v.is_empty() {
            "-".into()
        } else {
            v.join(",")
        }
    }
}

/// remove SGR sequences (`ESC [ ... m`) and OSC-8 hyperlink brackets (`ESC ] 8 ; ; URL ESC \`)
fn strip_escapes(b: &[u8]) -> Vec<u8> {
    let mut out = Vec::with_capacity(b.len());
    let mut i = 0;
    while i < b.len() {
        if b[i] == 0x1b && b.get(i + 1) == Some(&b'[') {
            let mut j = i + 2;
            while j < b.len() && (b[j].is_ascii_digit() || b[j] == b';') {
                j += 1;
            }
            if b.get(j) == Some(&b'm') {
                i = j + 1;
                continue;
            }
        }
        if b[i] == 0x1b && b[i + 1..].starts_with(b"]8;") {
            if let Some(k) = b[i..].windows(2).position(|w| w == b"\x1b\\") {
                i += k + 2;
                continue;
            }
        }
        out.push(b[i]);
        i += 1;
    }
    out
}

#[derive(Clone, Debug, PartialEq)]
enum Item {
    Break,
    Rec { path: Option<Vec<u8>>, fields: Vec<(Vec<u8>, bool)>, text: Vec<u8> },
}

/// Read an output printed with the unique separators back into records. `pterm` is what follows a path
/// (`\0` under --null, otherwise the field separator).
fn parse_unique(out: &[u8], names: &[Vec<u8>], with_path: bool, null: bool) -> Result<Vec<Item>, String> {
    let mut items = vec![];
    let mut rest = out;
    while !rest.is_empty() {
        let end = rest.iter().position(|&b| b == b'\n').map_or(rest.len(), |i| i + 1);
        let mut l = &rest[..end];
        rest = &rest[end..];
        if l.strip_suffix(b"\n") == Some(SEP_X) || l.strip_suffix(b"\r\n") == Some(SEP_X) {
            items.push(Item::Break);
            continue;
        }
        let mut path = None;
        let mut fields = vec![];
        if with_path {
            let n = names.iter().filter(|n| l.starts_with(n)).max_by_key(|n| n.len()).ok_or(format!("no path at {:?}", show(l)))?;
            path = Some(n.clone());
            l = &l[n.len()..];
            if null {
                l = l.strip_prefix(b"\0").ok_or("no NUL after the path")?;
            } else if let Some(r) = l.strip_prefix(SEP_M) {
                l = r;
                fields.push((vec![], false));
            } else if let Some(r) = l.strip_prefix(SEP_C) {
                l = r;
                fields.push((vec![], true));
            } else {
                return Err(format!("no separator after the path at {:?}", show(l)));
            }
        }
        loop {
            let d = l.iter().take_while(|b| b.is_ascii_digit()).count();
            if d == 0 {
                break;
            }
            if let Some(r) = l[d..].strip_prefix(SEP_M) {
                fields.push((l[..d].to_vec(), false));
                l = r;
            } else if let Some(r) = l[d..].strip_prefix(SEP_C) {
                fields.push((l[..d].to_vec(), true));
                l = r;
            } else {
                break;
            }
        }
        if l.windows(1).any(|w| w == b"\x01") {
            return Err(format!("separator bytes inside the text {:?}", show(l)));
        }
        items.push(Item::Rec { path, fields, text: l.to_vec() });
    }
    Ok(items)
}

fn render(items: &[Item], null: bool, sep_m: &[u8], sep_c: &[u8], sep_x: Option<&[u8]>, term: &[u8]) -> Vec<u8> {
    let mut out = vec![];
    for it in items {
        match it {
            Item::Break => {
                if let Some(x) = sep_x {
                    out.extend_from_slice(x);
                    out.extend_from_slice(term);
                }
            }
            Item::Rec { path, fields, text } => {
                let mut fs = fields.iter();
                if let Some(p) = path {
                    out.extend_from_slice(p);
                    if null {
                        out.push(0);
                    } else if let Some((_, c)) = fs.next() {
                        out.extend_from_slice(if *c { sep_c } else { sep_m });
                    }
                }
                for (d, c) in fs {
                    out.extend_from_slice(d);
                    out.extend_from_slice(if *c { sep_c } else { sep_m });
                }
                out.extend_from_slice(text);
            }
        }
    }
    out
}

fn run_rel(case: &str, o: &Opts, e: &Extras, args: &Args, rep: &mut Report) {
    rep.eval();
    let rg = match &args.rg {
        Some(p) => p.clone(),
        None => {
            rep.branch("rel:no-rg");
            return;
        }
    };
    let matcher = match o.matcher() {
        Ok(m) => m,
        Err(_) => {
            rep.branch("pattern-rejected");
            return;
        }
    };
    rep.branch(if o.searcher().multi_line_with_matcher(&matcher) { "rel:multi-line" } else { "rel:single-line" });
    let dir = args.scratch.join("c09rel");
    let _ = std::fs::remove_dir_all(&dir);
    for (i, input) in o.files.iter().enumerate() {
        let p = dir.join(OsStr::from_bytes(&o.path_bytes(i)));
        std::fs::create_dir_all(p.parent().unwrap()).unwrap();
        std::fs::write(&p, input).unwrap();
    }
    let mut names: Vec<Vec<u8>> = (0..o.files.len()).map(|i| o.path_bytes(i)).collect();
    names.sort();
    let scratch = args.scratch.join("c09rel-out");
    let mut failed = false;
    let mut run = |o: &Opts, color: &str, extra: &[String], rep: &mut Report| -> Option<Vec<u8>> {
        let mut a = rg_args(o, false);
        for x in a.iter_mut() {
            if x == "--color=never" {
                *x = color.to_string();
            }
        }
        // options go before `-e PATTERN`
        let k = a.len() - 2;
        for (i, x) in extra.iter().enumerate() {
            a.insert(k + i, x.clone());
        }
        let mut cmd = std::process::Command::new(&rg);
        cmd.current_dir(&dir).args(&a).args(names.iter().map(|n| OsStr::from_bytes(n)));
        let long = o.files.iter().any(|f| f.len() > 60_000);
        let out = run_with_timeout(&mut cmd, &scratch, if long { 90 } else { 20 })?;
        let stderr = String::from_utf8_lossy(&out.stderr).to_string();
        if long && out.timed_out && !stderr.contains("panicked") {
            rep.branch("rel:long-timeout");
            return None;
        }
        if stderr.contains("panicked") || out.timed_out {
            if !failed {
                viol(rep, "impl_vs_spec", "", "rg must not panic", case, format!("rg {:?} panicked: {}", a, stderr.lines().find(|l| l.contains("panicked")).unwrap_or("timeout")));
            }
            failed = true;
            return None;
        }
        if !out.stderr.is_empty() {
            return None;
        }
        Some(out.stdout)
    };
    let tie = "relations between rg runs: printer options outside the model vs the plain output (property C09)";
    let fail = |rep: &mut Report, class: &str, d: String| viol(rep, "impl_vs_spec", class, tie, case, d);
    let uniq: Vec<String> = vec![
        format!("--field-match-separator={}", String::from_utf8_lossy(SEP_M)),
        format!("--field-context-separator={}", String::from_utf8_lossy(SEP_C)),
        format!("--context-separator={}", String::from_utf8_lossy(SEP_X)),
    ];
    let name_bytes: Vec<Vec<u8>> = names.clone();
    let term = o.term_bytes();

    // ---- separators: unique separators re-rendered with the default ones == plain
    // (the re-parse relations read `\n`-terminated records)
    if (e.sep || e.noctxsep) && !o.nulldata {
        let mut o1 = o.clone();
        o1.heading = false;
        let (a, s) = match (run(&o1, "--color=never", &[], rep), run(&o1, "--color=never", &uniq, rep)) {
            (Some(a), Some(s)) => (a, s),
            _ => return,
        };
        rep.branch("rel:separators");
        match parse_unique(&s, &name_bytes, o1.with_path, o1.null) {
            Err(d) => fail(rep, "", format!("output with unique separators does not read back: {} ({:?})", d, show(&s))),
            Ok(items) => {
                let back = render(&items, o1.null, b":", b"-", Some(b"--"), term);
                if back != a {
                    fail(rep, "", format!("unique separators re-rendered {:?}, plain output {:?}", show(&back), show(&a)));
                }
                if e.noctxsep {
                    let mut f = uniq.clone();
                    f.push("--no-context-separator".into());
                    if let Some(n) = run(&o1, "--color=never", &f, rep) {
                        rep.branch("rel:no-context-separator");
                        let want = render(&items, o1.null, SEP_M, SEP_C, None, term);
                        if n != want {
                            fail(rep, "", format!("--no-context-separator printed {:?}, expected {:?}", show(&n), show(&want)));
                        }
                    }
                }
                if items.iter().any(|i| *i == Item::Break) {
                    rep.nontrivial(case);
                }
            }
        }
    }

    // ---- colours / hyperlinks: stripped == plain
    if e.color > 0 || e.hyper {
        let plain = match run(o, "--color=never", &[], rep) {
            Some(p) => p,
            None => return,
        };
        let mut f: Vec<String> = vec![];
        if e.color == 2 {
            for k in ["path", "line", "column", "match"] {
                f.push(format!("--colors={}:none", k));
            }
        }
        if e.hyper {
            f.push("--hyperlink-format=file://{host}{path}#{line}:{column}".into());
        }
        let col = match run(o, "--color=always", &f, rep) {
            Some(c) => c,
            None => return,
        };
        rep.branch(match (e.color, e.hyper) {
            (2, _) => "rel:color-specs-none",
            (_, true) => "rel:hyperlinks",
            _ => "rel:color",
        });
        if col != plain {
            rep.nontrivial(case);
        }
        if strip_escapes(&col) != plain {
            fail(rep, "", format!("with colours rg printed {:?} (escapes stripped), without colours {:?}", show(&strip_escapes(&col)), show(&plain)));
        }
    }

    // ---- --path-separator
    if let Some(x) = e.psep {
        if o.with_path && !o.nulldata {
            let mut o1 = o.clone();
            o1.heading = false;
            o1.null = true;
            let mut f = uniq.clone();
            let u = match run(&o1, "--color=never", &f, rep) {
                Some(u) => u,
                None => return,
            };
            f.push(format!("--path-separator={}", x as char));
            let q = match run(&o1, "--color=never", &f, rep) {
                Some(q) => q,
                None => return,
            };
            rep.branch("rel:path-separator");
            let swapped: Vec<Vec<u8>> = name_bytes.iter().map(|n| n.iter().map(|&b| if b == b'/' { x } else { b }).collect()).collect();
            match (parse_unique(&u, &name_bytes, true, true), parse_unique(&q, &swapped, true, true)) {
                (Ok(pu), Ok(pq)) => {
                    let want: Vec<Item> = pu
                        .into_iter()
                        .map(|i| match i {
                            Item::Rec { path, fields, text } => {
                                Item::Rec { path: path.map(|p| p.iter().map(|&b| if b == b'/' { x } else { b }).collect()), fields, text }
                            }
                            b => b,
                        })
                        .collect();
                    if want != pq {
                        fail(rep, "", format!("--path-separator={:?} printed {:?}, plain {:?}", x as char, show(&q), show(&u)));
                    } else if !pq.is_empty() {
                        rep.nontrivial(case);
                    }
                }
                (Err(d), _) | (_, Err(d)) => fail(rep, "", format!("output does not read back: {}", d)),
            }
        }
    }
}

fn gen_extras(rng: &mut Rng) -> Extras {
    let mut e = Extras::default();
    match rng.below(6) {
        0 => e.sep = true,
        1 => {
            e.sep = true;
            e.noctxsep = true
        }
        2 => e.psep = Some(*rng.pick(b"\\:|_")),
        _ => {}
    }
    match rng.below(6) {
        0 | 1 => e.color = 1,
        2 => e.color = 2,
        3 => {
            e.color = 1;
            e.hyper = true
        }
        _ => {}
    }
    if e.show() == "-" {
        e.color = 1;
    }
    e
}

// ---------------------------------------------------------------- generation

fn gen_opts(rng: &mut Rng, multi: bool, boundary: bool, long: bool) -> Opts {
    let mut o = Opts::default();
    o.multi = multi;
    o.pat = gen_pattern(rng, multi);
    o.crlf = rng.chance(1, 5);
    let nf = if rng.chance(1, 4) { rng.range(2, 3) } else { 1 };
    for _ in 0..nf {
        let mut f = gen_input(rng, o.crlf, long);
        if boundary {
            match rng.below(5) {
                0 => f.clear(),
                1 => {
                    while f.last() == Some(&b'\n') || f.last() == Some(&b'\r') {
                        f.pop();
                    }
                }
                2 => f.extend_from_slice(b"\r"),
                3 => f = b"\n".to_vec(),
                _ => f.extend_from_slice(b"\n\n"),
            }
        }
        o.files.push(f);
    }
    o.icase = rng.chance(1, 8);
    o.word = rng.chance(1, 8);
    o.xline = rng.chance(1, 12);
    o.dotall = multi && rng.chance(1, 4);
    o.invert = rng.chance(1, 6);
    match rng.below(6) {
        0 => o.before = rng.range(1, 2),
        1 => o.after = rng.range(1, 2),
        2 => {
            o.before = 1;
            o.after = 1
        }
        3 => o.passthru = rng.chance(1, 2),
        _ => {}
    }
    o.lineno = rng.chance(2, 3);
    o.reader = rng.chance(1, 4);
    o.with_path = rng.chance(1, 2);
    o.heading = rng.chance(1, 5);
    o.vimgrep = rng.chance(1, 6);
    o.column = o.vimgrep || rng.chance(1, 2);
    o.boff = rng.chance(1, 2);
    o.null = rng.chance(1, 8);
    o.stats = rng.chance(1, 8);
    o.sepsearch = rng.chance(1, 6);
    o.max = if rng.chance(1, 6) { Some(rng.range(0, 3) as u64) } else { None };
    o
}

fn run_case(case: &str, args: &Args, drv: &mut Driver, rep: &mut Report) {
    let parts: Vec<&str> = case.split(' ').collect();
    let tag = parts.first().copied().unwrap_or("");
    match tag {
        "enc" => run_enc(case, &parts, drv, rep),
        "rel" => {
            let x = parts.iter().find_map(|p| p.strip_prefix("x=")).unwrap_or("-");
            let rest: Vec<&str> = parts[1..].iter().copied().filter(|p| !p.starts_with("x=")).collect();
            match (Opts::parse(&rest), Extras::parse(x)) {
                (Some(o), Some(e)) => run_rel(case, &o, &e, args, rep),
                _ => rep.notes.push(format!("unparsable case: {}", case)),
            }
        }
        "std" | "json" | "cli" | "clijson" => match Opts::parse(&parts[1..]) {
            Some(o) => match tag {
                "std" => run_std(case, &o, drv, rep),
                "json" => run_json(case, &o, drv, rep),
                "cli" => run_cli(case, &o, args, false, rep),
                _ => run_cli(case, &o, args, true, rep),
            },
            None => rep.notes.push(format!("unparsable case: {}", case)),
        },
        _ => rep.notes.push(format!("unparsable case: {}", case)),
    }
}

fn main() {
    let args = parse_args();
    // the JSON printer can panic (known finding); keep stderr quiet for caught panics
    std::panic::set_hook(Box::new(|_| {}));
    let mut drv = Driver::spawn(&args.driver);
    let mut rep = Report::new(
        "C09",
        "std/json: random patterns (pool of anchors incl. \\A \\z (?-m)^ (?-m)$, word boundaries, empty-matching, non-ASCII, \
         invalid-UTF-8 classes + random small regexes; multi-line pool under -U; extra pools `pat`: half word boundaries, \
         ASCII boundaries, inline flags, look-around at block edges) x 1-3 files of 0-6 short lines (CRLF, invalid UTF-8, \
         non-ASCII, 300-3000 byte lines, missing final terminator; boundary stream: empty file, lone CR, only newlines) x all \
         combinations of -n -b --column --vimgrep -H/-I --heading --null -A/-B/--passthru -v -m --crlf -U, slice and reader \
         search. cli: the rg binary with the same flags (-E auto on half of them). enc: decimal/UTF-8/base64 through the \
         driver. Further streams, every one through std/json/cli/clijson: z = --null-data (NUL ends the lines, \\n is an \
         ordinary byte); a = NUL bytes in the input with binary detection off (-a); bp = file names that are not valid \
         UTF-8. long = a line of 66-140 KB (cli, clijson, rel only: the Lean driver is not fed such lines; cli adds the \
         --passthru identity). rel = relations between rg runs for options outside the model: --color=always (default \
         specs / all specs none) and --hyperlink-format stripped == plain; unique --field-match-separator / \
         --field-context-separator / --context-separator re-rendered == plain; --no-context-separator; --path-separator. \
         Excluded by the property text: --trim, -M/--max-columns, -o records (still compared with the model), replacement \
         (C19). Binary detection modes quit/convert are C14's; transcoding is C17's. Non-trivial: some but not all lines of \
         a file reported (std), at least one match/context message (json), escapes / context breaks / paths actually \
         present (rel). Distinct by case text.",
    );
    for c in corpus_cases(&args) {
        run_case(&c, &args, &mut drv, &mut rep);
    }
    // probing aid: RGVERIF_STREAM=<tag> runs only the generated cases of one stream
    let only_stream = std::env::var("RGVERIF_STREAM").ok();
    if args.replay.is_none() {
        let mut rng = Rng::new(args.seed);
        let n = args.cases.unwrap_or(if args.thorough { 40000 } else { 2400 });
        for i in 0..n {
            let multi = i % 4 == 3;
            let boundary = i % 7 == 0;
            let long = i % 50 == 49;
            let case = match i % 12 {
                0 | 1 | 2 | 3 | 4 | 5 => gen_opts(&mut rng, multi, boundary, long).to_case("std"),
                6 | 7 | 8 => gen_opts(&mut rng, multi, boundary, long).to_case("json"),
                9 => {
                    let mut o = gen_opts(&mut rng, multi, boundary, false);
                    o.stats = false;
                    o.sepsearch = false;
                    o.to_case("cli")
                }
                10 => gen_opts(&mut rng, multi, boundary, false).to_case("clijson"),
                _ => {
                    if rng.chance(1, 4) {
                        let len = rng.below(14);
                        let b: Vec<u8> = (0..len).map(|_| rng.below(256) as u8).collect();
                        format!("enc b {}", hex(&b))
                    } else if rng.chance(1, 3) {
                        let n = match rng.below(4) {
                            0 => rng.below(20) as u64,
                            1 => 10u64.pow(rng.below(20) as u32),
                            2 => 10u64.pow(rng.range(1, 19) as u32) - 1,
                            _ => rng.next(),
                        };
                        let n = if rng.chance(1, 10) { u64::MAX - rng.below(3) as u64 } else { n };
                        format!("enc d {}", n)
                    } else {
                        let len = rng.below(9);
                        let b: Vec<u8> = (0..len)
                            .map(|_| {
                                if rng.chance(1, 2) {
                                    *rng.pick(&[0x61u8, 0xc3, 0xa9, 0xe2, 0x82, 0xac, 0xf0, 0x9f, 0x98, 0x80, 0xff, 0xc0, 0xed, 0xa0, 0xf4, 0x90, 0x7f, 0xc2, 0xe0, 0x9f])
                                } else {
                                    rng.below(256) as u8
                                }
                            })
                            .collect();
                        format!("enc u {}", hex(&b))
                    }
                }
            };
            if i < 8 {
                rep.sample(case.clone());
            }
            if only_stream.as_deref().map_or(true, |s| case.starts_with(s)) {
                run_case(&case, &args, &mut drv, &mut rep);
            }
        }
        // z: --null-data (NUL ends the lines, `\n` is an ordinary byte), every stream
        let mut rng = Rng::new(args.seed ^ 0x2e70_da7a);
        for i in 0..n / 8 {
            let multi = i % 4 == 3;
            let mut o = gen_opts(&mut rng, multi, i % 7 == 0, false);
            o.crlf = false;
            o.nulldata = true;
            o.files = o.files.iter().map(|f| to_nul_data(&mut rng, f)).collect();
            let tag = match i % 6 {
                0 | 1 | 2 => "std",
                3 => "json",
                4 => {
                    o.stats = false;
                    o.sepsearch = false;
                    "cli"
                }
                _ => "clijson",
            };
            let case = o.to_case(tag);
            if only_stream.as_deref().map_or(true, |s| s == "z") {
                run_case(&case, &args, &mut drv, &mut rep);
            }
        }
        // o: --only-matching (its records are outside C09's statement; the model comparison, rg == library printer and
        // the colour relation still apply), with -b, --column, --vimgrep, -U, context
        let mut rng = Rng::new(args.seed ^ 0x0017_a7c4);
        for i in 0..n / 12 {
            let mut o = gen_opts(&mut rng, i % 3 == 2, i % 7 == 0, false);
            o.only = true;
            let case = match i % 4 {
                0 | 1 => o.to_case("std"),
                2 => {
                    o.stats = false;
                    o.sepsearch = false;
                    o.to_case("cli")
                }
                _ => {
                    o.stats = false;
                    o.sepsearch = false;
                    format!("{} x=color", o.to_case("rel"))
                }
            };
            if only_stream.as_deref().map_or(true, |s| s == "o") {
                run_case(&case, &args, &mut drv, &mut rep);
            }
        }
        // pat: the extra pattern pools
        let mut rng = Rng::new(args.seed ^ 0x9a77_e125);
        for i in 0..n / 8 {
            let multi = i % 2 == 1;
            let mut o = gen_opts(&mut rng, multi, i % 7 == 0, false);
            o.pat = rng.pick(if multi { EXTRA_MULTI } else { EXTRA_SINGLE }).to_string();
            let tag = match i % 6 {
                0 | 1 | 2 => "std",
                3 => "json",
                4 => {
                    o.stats = false;
                    o.sepsearch = false;
                    "cli"
                }
                _ => "clijson",
            };
            let case = o.to_case(tag);
            if only_stream.as_deref().map_or(true, |s| s == "pat") {
                run_case(&case, &args, &mut drv, &mut rep);
            }
        }
        // a: NUL bytes in the input, binary detection off (-a/--text; the library searcher's default)
        let mut rng = Rng::new(args.seed ^ 0x7e87_0a11);
        for i in 0..n / 12 {
            let mut o = gen_opts(&mut rng, i % 4 == 3, i % 7 == 0, false);
            o.text = true;
            o.files = o.files.iter().map(|f| with_nuls(&mut rng, f)).collect();
            let tag = match i % 6 {
                0 | 1 | 2 => "std",
                3 => "json",
                4 => {
                    o.stats = false;
                    o.sepsearch = false;
                    "cli"
                }
                _ => "clijson",
            };
            let case = o.to_case(tag);
            if only_stream.as_deref().map_or(true, |s| s == "a") {
                run_case(&case, &args, &mut drv, &mut rep);
            }
        }
        // bp: file names that are not valid UTF-8 (Standard prints them raw, JSON as base64 `bytes`)
        let mut rng = Rng::new(args.seed ^ 0x0bad_9a78);
        for i in 0..n / 12 {
            let mut o = gen_opts(&mut rng, i % 4 == 3, false, false);
            o.badpath = true;
            let tag = match i % 4 {
                0 => {
                    o.with_path = true;
                    "std"
                }
                1 => "json",
                2 => {
                    o.with_path = true;
                    o.stats = false;
                    o.sepsearch = false;
                    "cli"
                }
                _ => "clijson",
            };
            let case = o.to_case(tag);
            if only_stream.as_deref().map_or(true, |s| s == "bp") {
                run_case(&case, &args, &mut drv, &mut rep);
            }
        }
        // long: a line longer than the searcher's 64 KiB buffer, in the streams that do not go through the Lean
        // driver (cli = rg vs library printer and the --passthru identity, clijson = decoded against the file
        // bytes, rel = colours)
        let mut rng = Rng::new(args.seed ^ 0x1046_11e5);
        for i in 0..n / 96 {
            let mut o = gen_opts(&mut rng, i % 4 == 3, false, false);
            o.stats = false;
            o.sepsearch = false;
            // (one record per match would print the long line thousands of times)
            o.vimgrep = false;
            let k = rng.below(o.files.len());
            let chunk = gen_input(&mut rng, false, false);
            let chunk: Vec<u8> = chunk.into_iter().filter(|&b| b != b'\n' && b != b'\r').collect();
            let mut long_line = vec![];
            let target = rng.range(66_000, 140_000);
            while long_line.len() < target {
                long_line.extend_from_slice(if chunk.is_empty() { b"ab " } else { &chunk[..] });
            }
            let mut f = o.files[k].clone();
            let at = split_lines(&f).get(rng.below(3)).map_or(f.len(), |l| l.0);
            let mut ins = long_line;
            if o.crlf && rng.chance(1, 2) {
                ins.push(b'\r');
            }
            ins.push(b'\n');
            f.splice(at..at, ins);
            o.files[k] = f;
            let case = match i % 4 {
                0 => {
                    o.passthru = true;
                    o.before = 0;
                    o.after = 0;
                    o.lineno = false;
                    o.with_path = false;
                    o.column = false;
                    o.vimgrep = false;
                    o.only = false;
                    o.boff = false;
                    o.heading = false;
                    o.max = None;
                    o.to_case("cli")
                }
                1 => o.to_case("cli"),
                2 => o.to_case("clijson"),
                _ => format!("{} x=color", o.to_case("rel")),
            };
            if only_stream.as_deref().map_or(true, |s| s == "long") {
                run_case(&case, &args, &mut drv, &mut rep);
            }
        }
        // rel: printer options outside the model (own generator state, so the streams above keep their cases)
        let mut rng = Rng::new(args.seed ^ 0x5e1a_7105);
        for i in 0..n / 6 {
            let multi = i % 4 == 3;
            let mut o = gen_opts(&mut rng, multi, i % 7 == 0, false);
            o.stats = false;
            o.sepsearch = false;
            let mut e = gen_extras(&mut rng);
            if rng.chance(1, 8) {
                o.badpath = true;
            }
            if !o.crlf && rng.chance(1, 8) {
                o.nulldata = true;
                o.files = o.files.iter().map(|f| to_nul_data(&mut rng, f)).collect();
                e.color = e.color.max(1);
            }
            let case = format!("{} x={}", o.to_case("rel"), e.show());
            if i < 3 {
                rep.sample(case.clone());
            }
            if only_stream.as_deref().map_or(true, |s| case.starts_with(s)) {
                run_case(&case, &args, &mut drv, &mut rep);
            }
        }
    }
    rep.write(&args);
}
