use globset::{GlobBuilder};
fn main() {
    let cases: &[(&str, &[&str])] = &[
        ("[é]", &["é", "\u{c3}", "a"]),
        ("[aé]x", &["éx", "ax"]),
        ("[a-é]", &["é", "b", "z"]),
        ("?", &["é", "a"]),
        ("a**b", &["axb", "a/b", "ab"]),
        ("***", &["a", "a/b"]),
        ("{a,{b,c}}", &["a"]),
        ("{}", &["", "a"]),
        ("{,a}", &["", "a"]),
        ("a\\", &["a"]),
        ("é", &["É", "é"]),
    ];
    for (g, ps) in cases {
        for ci in [false, true] {
            match GlobBuilder::new(g).case_insensitive(ci).literal_separator(true).build() {
                Err(e) => println!("{:?} ci={} -> Err {}", g, ci, e),
                Ok(gl) => {
                    let m = gl.compile_matcher();
                    let r: Vec<String> = ps.iter().map(|p| format!("{:?}={}", p, m.is_match(p))).collect();
                    println!("{:?} ci={} regex {:?}: {}", g, ci, gl.regex(), r.join(" "));
                }
            }
        }
    }
}
